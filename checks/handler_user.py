"""User-wide calls made from inside a handler (C08; round 4 R1 = audit task B1):
correspondence between Model/HandlerUser.v and the real code.

The harness family `handleruser` (harness/handler_user_test.go) runs short
histories whose distinguished step is a composite request - Start; script
prefix; sessions.LogOut(userID) or sessions.RefreshUser(user) while the handler
holds its *Session; script suffix on the same *Session - for cache sizes -1, 0,
1, 2, 10, both codecs and several script shapes, followed by a cache drop and one
plain request per browser. This stage evaluates hu_run of Model/HandlerUser.v in
Coq (vm_compute) on the same cases and compares every observation (Model/Corr.v:
diff_fields) plus the handle as the handler sees it right after the call (field
13). With cache sizes 0 and 1 the user is *expected* to come back
(Properties/C08U.v: C08U_logout_refuted_0/1): those outcomes are compared with
the model like all others, and counted in the evidence.

Independently of the model, an oracle on the real observations states the
conclusion of C08U_logout_in_handler where its hypothesis own_cached is known to
hold by configuration (cache unbounded or of size 10, cache expiry far away,
prefix without Destroy): after LogOut(u) called by a handler whose session
carried u, the handler's own *Session carries no user, and - if the suffix
consists of key/value operations - no stored record of the case carries u at the
end of the step.

stage(chk) -> True/False; called from checks/c08.py. replay(chk, path) re-runs
the case of a replay file written here."""
import json
import os
import time

import vlib

SIZES = {"quick": 240, "thorough": 3000}
FIELDS = {0: "number of steps", 1: "result class", 2: "session returned by Start", 3: "cookies", 4: "results of the handler's calls",
          5: "the handler's session at the end", 6: "persistence calls", 7: "cache", 8: "store", 9: "cookie jar", 10: "clock",
          11: "IDs drawn", 12: "Expired() of stored records", 13: "the handler's session right after the user-wide call"}
DATA_OPS = ("set", "del", "get", "getdel")


def cases_text(recs):
    text = "From Sessions Require Import Model.Base Model.Sess Model.Hist Model.Corr Model.HandlerUser.\n"
    text += "Local Open Scope N_scope.\n"
    text += "Definition cases : list hucase := [\n" + ";\n".join(r["coq"] for r in recs) + "].\n"
    text += "Definition M := Eval vm_compute in hu_case_diffs cases 0.\nPrint M.\n"
    return text


def model_diffs(recs, shard=12, prefix="handleruser"):
    """[(record index, step, [fields])]"""
    usable = [(i, r) for i, r in enumerate(recs) if r.get("coq") and not r.get("error")]
    jobs, maps = [], []
    for j in range(0, len(usable), shard):
        part = usable[j:j + shard]
        jobs.append(("%s_%d_%d" % (prefix, os.getpid(), j), cases_text([r for _, r in part])))
        maps.append([i for i, _ in part])
    results = vlib.coq_run_many(jobs)
    diffs = []
    for (rc, out), idx in zip(results, maps):
        flat = vlib.parse_printed_list(out, "M") if rc == 0 else None
        if flat is None:
            raise vlib.Machinery("handleruser model evaluation failed: %s" % out[-3000:])
        k = 0
        while k < len(flat):
            if k + 3 > len(flat) or k + 3 + flat[k + 2] > len(flat):
                raise vlib.Machinery("handleruser model evaluation: malformed diff list %s" % flat[:40])
            n = flat[k + 2]
            diffs.append((idx[flat[k]], flat[k + 1], flat[k + 3:k + 3 + n]))
            k += 3 + n
    return diffs


def user_of(rec):
    u = (rec or {}).get("user")
    return u[0] if u else None


def composite(rec):
    """(step index, step, observation) of the composite request, or None if it
    was not reached."""
    at = rec["case"]["at"]
    if at >= len(rec.get("obs") or []) or at >= len(rec["case"]["steps"]):
        return None
    return at, rec["case"]["steps"][at], rec["obs"][at]


def outcome(rec):
    """What the composite step showed on the real code: a dict, or None."""
    c = composite(rec)
    if c is None:
        return None
    at, st, ob = c
    if ob.get("res") != "sess" or not ob.get("mid"):
        return {"reached": False}
    npre = len(st.get("script") or [])
    # the handle just before the call: the final view of the prefix is not
    # recorded; the session Start returned, updated by the prefix, shows in mid's
    # ID and in the stored record under that ID before the call
    mid, fin = ob["mid"], ob.get("final")
    hid = mid["key"]
    stored = {json.dumps(kr["key"], sort_keys=True): kr["rec"] for kr in ob.get("store") or []}
    rec_at = stored.get(json.dumps(hid, sort_keys=True))
    before = rec["obs"][at - 1] if at > 0 else None
    return {"reached": True, "call": st["call"], "cu": st.get("cu", 0), "npre": npre, "handle_id": hid,
            "mid_user": user_of(mid["rec"]), "final_user": user_of(fin["rec"]) if fin else None,
            "stored_user_at_handle": user_of(rec_at) if rec_at else None,
            "stored_users": [user_of(kr["rec"]) for kr in ob.get("store") or []],
            "start_user": user_of(ob["start"]["rec"]) if ob.get("start") else None,
            "call_result": (ob.get("script") or [{}] * (npre + 1))[npre].get("kind") if len(ob.get("script") or []) > npre else None}


def oracle(rec):
    """C08's conclusion for in-handler LogOut(u) on the real observations, where
    own_cached holds by configuration. Returns a description of the breach or
    None."""
    out = outcome(rec)
    if not out or not out.get("reached"):
        return None
    cfg, st = rec["case"]["cfg"], rec["case"]["steps"][rec["case"]["at"]]
    if cfg["maxcache"] not in (-1, 10) or cfg["cacheexpiry"] < 100 * 10 ** 9:
        return None
    pre = st.get("script") or []
    if any(op["op"] == "destroy" for op in pre):
        return None
    # the user the handle carried when the call was made
    carried = out["start_user"]
    for op in pre:
        if op["op"] == "login":
            carried = op.get("u", 0)
        elif op["op"] == "logout":
            carried = None
    if out["call"] == "logoutuser":
        if out["call_result"] != "ok":
            return "sessions.LogOut(%d) called by a handler returned %s" % (out["cu"], out["call_result"])
        if carried == out["cu"] and out["mid_user"] is not None:
            return ("after sessions.LogOut(%d) returned nil the handler's own *Session (cached under its ID, MaxSessionCacheSize=%d) still carries user %s"
                    % (out["cu"], cfg["maxcache"], out["mid_user"]))
        post = st.get("post") or []
        if all(op["op"] in DATA_OPS for op in post) and out["cu"] in out["stored_users"]:
            return ("after sessions.LogOut(%d) called by a handler and %d key/value calls on the handler's session a stored record carries user %d again (MaxSessionCacheSize=%d)"
                    % (out["cu"], len(post), out["cu"], cfg["maxcache"]))
    else:
        if out["call_result"] != "ok":
            return "sessions.RefreshUser called by a handler returned %s" % out["call_result"]
        if carried == out["cu"]:
            mu = rec["obs"][rec["case"]["at"]]["mid"]["rec"].get("user")
            if not mu or mu[1] != st.get("cver", 0):
                return ("after sessions.RefreshUser(user %d, object %d) the handler's own *Session (cached under its ID, MaxSessionCacheSize=%d) carries %s"
                        % (out["cu"], st.get("cver", 0), cfg["maxcache"], mu))
    return None


def run_cases(binary, seed, n, args="", tag=""):
    p = os.path.join(vlib.BUILD, "handleruser-%s-%d.jsonl" % (tag, os.getpid()))
    rc, out = vlib.run_harness(binary, "handleruser", p, seed=seed, n=n, args=args)
    if rc != 0:
        raise vlib.Machinery("harness family handleruser failed: %s" % out[-3000:])
    recs = vlib.read_jsonl(p)
    os.remove(p)
    return recs


def replay_record(rec, seed, n, what, signature, step=None, fields=None):
    c = rec["case"]
    rr = {"property": "C08", "what": what, "signature": signature,
          "handleruser": {"case": c["id"], "seed": seed, "n": n},
          "configuration": c["cfg"], "setup": c["setup"], "prefix": c["pre"], "suffix": c["post"],
          "steps": c["steps"], "composite_step": c["at"], "observations": rec.get("obs"),
          "replay": "./check C08 --replay <this file>   (harness family handleruser, only=%d)" % c["id"]}
    if step is not None:
        rr["differing_step"], rr["differing_fields"] = step, [FIELDS.get(f, str(f)) for f in fields or []]
    if rec.get("halt"):
        rr["halt"] = rec["halt"]
    return rr


def evaluate(chk, recs, seed, n):
    cov = {}
    errors = [r for r in recs if r.get("error")]
    halts = [r for r in recs if r.get("halt")]
    diffs = model_diffs(recs)
    by = {"cache_size": {}, "codec": {}, "setup": {}, "prefix": {}, "suffix": {}, "call": {}}
    came_back = {}     # cache size -> cases where the handle kept the user after LogOut(u)
    written_back = {}  # cache size -> cases where a stored record carries u again at the end of the step
    detached = {}
    refreshed, stale_obj = {}, {}
    reached = 0
    samples = []
    for r in recs:
        c = r["case"]
        size = str(c["cfg"]["maxcache"])
        for k, v in (("cache_size", size), ("codec", "json" if c["cfg"]["json"] else "gob"), ("setup", c["setup"]),
                     ("prefix", c["pre"]), ("suffix", c["post"])):
            by[k][v] = by[k].get(v, 0) + 1
        out = outcome(r)
        if not out or not out.get("reached"):
            continue
        reached += 1
        by["call"][out["call"]] = by["call"].get(out["call"], 0) + 1
        st = c["steps"][c["at"]]
        carried = out["start_user"]
        for op in st.get("script") or []:
            if op["op"] == "login":
                carried = op.get("u", 0)
            elif op["op"] == "logout":
                carried = None
        if out["call"] == "logoutuser" and carried == out["cu"]:
            if out["mid_user"] is not None:
                came_back[size] = came_back.get(size, 0) + 1
                if out["cu"] in out["stored_users"]:
                    written_back[size] = written_back.get(size, 0) + 1
                if len(samples) < 3:
                    samples.append({"cache_size": c["cfg"]["maxcache"], "codec": "json" if c["cfg"]["json"] else "gob", "setup": c["setup"],
                                    "prefix": st.get("script"), "call": "LogOut(%d)" % out["cu"], "suffix": st.get("post"),
                                    "handle_after_call_user": out["mid_user"], "stored_users_after_step": out["stored_users"]})
            else:
                detached[size] = detached.get(size, 0) + 1
        if out["call"] == "refreshuser" and carried == out["cu"]:
            mu = r["obs"][c["at"]]["mid"]["rec"].get("user")
            if mu and mu[1] == st.get("cver", 0):
                refreshed[size] = refreshed.get(size, 0) + 1
            else:
                stale_obj[size] = stale_obj.get(size, 0) + 1
    breaches = [(i, oracle(r)) for i, r in enumerate(recs)]
    breaches = [(i, b) for i, b in breaches if b]
    cov.update({
        "cases": len(recs), "composite_reached": reached,
        "distinct_nontrivial": len({(r["case"]["cfg"]["maxcache"], r["case"]["cfg"]["json"], r["case"]["setup"], r["case"]["pre"], r["case"]["post"],
                                     r["case"]["steps"][r["case"]["at"]].get("call"), r["case"]["steps"][r["case"]["at"]].get("cu")) for r in recs}),
        "rule": "one case = set-up requests, the composite request (prefix; user-wide call; suffix on the same *Session), cache drop, one request per browser; distinct = (cache size, codec, set-up, prefix, suffix, call, user)",
        "histogram": by, "steps_compared": sum(len(r.get("obs") or []) for r in recs),
        "logout_in_handler_handle_detached": detached, "logout_in_handler_handle_kept_user": came_back,
        "logout_in_handler_user_stored_again": written_back,
        "refresh_in_handler_handle_has_new_object": refreshed, "refresh_in_handler_handle_kept_old_object": stale_obj,
        "model_mismatches": len(diffs), "oracle_breaches": len(breaches), "case_errors": len(errors), "cases_halted_by_panic": len(halts),
        "samples": samples,
    })
    ok = not diffs and not errors and not breaches and not halts
    chk.oblige("handler-user model = implementation: %d steps of %d cases (cache sizes -1,0,1,2,10; gob and JSON) agree with hu_run (Model/HandlerUser.v) "
               "in every observed field and in the handler's session right after the call" % (cov["steps_compared"], len(recs)), not diffs and not errors)
    chk.oblige("in-handler LogOut(userID)/RefreshUser on the real code: the handler's own *Session and the store show C08's conclusion wherever own_cached holds by configuration "
               "(cache unbounded or 10, no idle sweep)", not breaches and not halts)
    reported = set()
    for (i, what) in breaches:
        sig = "handleruser:oracle:" + "".join(ch for ch in what.split(" (")[0] if not ch.isdigit())[:70]
        if sig in reported or len(reported) >= 3:
            continue
        reported.add(sig)
        chk.violation(replay_record(recs[i], seed, n, what, sig), signature=sig, what=what)
    for r in halts[:1]:
        what = "a call made by the handler panicked on the real code: %s" % r["halt"]
        chk.violation(replay_record(r, seed, n, what, "handleruser:panic"), signature="handleruser:panic", what=what)
    for r in errors[:1]:
        chk.violation({"property": "C08", "what": "a case of family handleruser failed on the real code: %s" % r["error"][:2000],
                       "handleruser": {"case": r["case"]["id"], "seed": seed, "n": n}, "steps": r["case"]["steps"]}, no_input=not breaches)
    if diffs and not breaches and not halts:
        # model and implementation differ and the oracle on the real
        # observations finds no breach of C08's clause
        (i, step, fields) = sorted(diffs)[0]
        what = ("the real code and Model/HandlerUser.v differ at step %d of a handleruser case in: %s; no observation contradicts C08's clause"
                % (step, ", ".join(FIELDS.get(f, str(f)) for f in fields)))
        chk.violation(replay_record(recs[i], seed, n, what, "handleruser:mismatch", step, fields), no_input=True)
    return ok, cov


def stage(chk):
    """Returns True when in-handler user-wide calls are shown to behave as
    Model/HandlerUser.v says on the current tree."""
    t0 = time.time()
    cov = chk.coverage.setdefault("handleruser", {})
    ok_model, log_, _ = vlib.coq_build(["Model/HandlerUser"])
    if not os.path.exists(os.path.join(vlib.COQ, "Model", "HandlerUser.vo")):
        raise vlib.Machinery("Model/HandlerUser.v does not compile: " + log_[-3000:])
    binary, blog = vlib.build_harness()
    if binary is None:
        chk.oblige("handler-user model = implementation (family handleruser)", False)
        cov["harness_failed"] = blog[-1500:]
        return False
    n = SIZES.get(chk.tier, SIZES["quick"])
    recs = run_cases(binary, chk.seed, n, tag=chk.tier)
    if not recs:
        raise vlib.Machinery("family handleruser produced no cases")
    ok, c2 = evaluate(chk, recs, chk.seed, n)
    cov.update(c2)
    # self-test: the family must have exercised what it is for
    kept = cov["logout_in_handler_handle_kept_user"]
    if ok and (not cov["logout_in_handler_handle_detached"].get("-1") or not cov["logout_in_handler_handle_detached"].get("10")
               or not (kept.get("0") and kept.get("1")) or kept.get("-1") or kept.get("10")):
        raise vlib.Machinery("handleruser self-test: expected outcomes not exercised: detached=%s kept=%s"
                             % (cov["logout_in_handler_handle_detached"], kept))
    cov["wall_s"] = round(time.time() - t0, 1)
    return ok


def replay(chk, path):
    rep = json.load(open(path))
    hu = rep.get("handleruser")
    if not hu:
        print(json.dumps(rep, indent=1)[:4000])
        return 0
    ok_model, log_, _ = vlib.coq_build(["Model/HandlerUser"])
    if not ok_model:
        print(log_[-2000:])
        return 2
    binary, blog = vlib.build_harness()
    if binary is None:
        print(blog[-2000:])
        return 2
    recs = run_cases(binary, hu.get("seed", 0), hu.get("n", hu["case"] + 1), args="only=%d" % hu["case"], tag="replay")
    bad = 0
    for r in recs:
        if r.get("error"):
            print("case error: %s" % r["error"][:2000])
            bad += 1
        if r.get("halt"):
            print("halted: %s" % r["halt"])
            bad += 1
        b = oracle(r)
        if b:
            print(b)
            bad += 1
    for (i, step, fields) in model_diffs(recs, prefix="handleruser_replay"):
        print("step %d differs from Model/HandlerUser.v in: %s" % (step, ", ".join(FIELDS.get(f, str(f)) for f in fields)))
        bad += 1
    if bad:
        print("VIOLATION property=%s replay=%s" % (chk.prop if chk else "C08", path))
        return 1
    print("no violation on the current tree")
    return 0
