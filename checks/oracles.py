"""Oracles: the properties C01-C12 and C18 stated over the observations of the
REAL code (one record per step, as the harness wrote them). They are written
from the property texts, independently of the Coq model's control flow, and are
used to turn a model/implementation mismatch (or any run) into a concrete
violating history. Each oracle returns a list of findings
{step, what, signature?}. They must never fire on code that satisfies the
property: wherever the property leaves a case open (equality at a threshold,
bookkeeping lost with an evicted object, JSON's one-second resolution) the
oracle stays silent."""

FOREVER = 2**63 - 1
SEC = 10**9


def kt(k):
    return (k["gen"], k["n"])


def norm(rec, cfg):
    """What a record looks like after the codec's round trip."""
    r = dict(rec)
    if cfg["json"]:
        r["created"] = r["created"] - r["created"] % SEC
        r["access"] = r["access"] - r["access"] % SEC
    if r.get("user"):
        r["user"] = [r["user"][0], 0]
    r["data"] = r.get("data") or []
    r.pop("datanil", None)
    return r


def durable(rec, cfg):
    r = norm(rec, cfg)
    return (r["created"], kt(r["ref"]) if r.get("ref") else None, r["user"][0] if r.get("user") else None,
            tuple(map(tuple, r["data"])))


def data_of(rec):
    return {k: v for k, v in (rec.get("data") or [])}


def uid_of(rec):
    return rec["user"][0] if rec.get("user") else None


def sat_add(a, b):
    return min(a + b, FOREVER)


def ip_rule_ok(n, prev, cur):
    """The property's own statement of the address rule (C06)."""
    if n <= 1 or n > 4:
        return True
    if not prev.get("v4") or not cur.get("v4"):
        return True
    po, co = [prev["A"], prev["B"], prev["C"], prev["D"]], [cur["A"], cur["B"], cur["C"], cur["D"]]
    return po[:n - 1] == co[:n - 1]


def Addr_str(a):
    return "%d.%d.%d.%d:%d" % (a["A"], a["B"], a["C"], a["D"], a["P"]) if a.get("v4") else "non-IPv4 peer %d" % a.get("n", 0)


def ua_rule_ok(accept, recorded, cur):
    return accept or recorded == 0 or recorded == cur


class View:
    """Logical content (cache over store) of an observation."""

    def __init__(self, obs):
        self.cache = {kt(e["key"]): e for e in (obs.get("cache") or [])} if obs else {}
        self.store = {kt(e["key"]): e["rec"] for e in (obs.get("store") or [])} if obs else {}

    def L(self, k):
        if k in self.cache:
            return self.cache[k]["rec"]
        return self.store.get(k)

    def keys(self):
        return set(self.cache) | set(self.store)


def presented(step, pre_jar):
    """The cookie value the package saw, as (kind, key)."""
    if step.get("forge_raw") is not None or step.get("forge_key") is not None:
        p = step.get("present") or {"kind": "none"}
    else:
        p = pre_jar
    if p["kind"] == "key":
        return "key", kt(p["key"])
    return p["kind"], None


def fnv64a(s):
    h = 14695981039346656037
    for c in s.encode():
        h ^= c
        h = (h * 1099511628211) % 2**64
    return h


AGENTS = ["", "Mozilla/5.0 (X11; Linux x86_64)", "curl/8.0", "Mozilla/5.0 (Macintosh)", "bot"]


def agent_hash(i):
    return 0 if i == 0 else fnv64a(AGENTS[i % len(AGENTS)])


class Trace:
    """A history with its observations, and what every oracle needs."""

    def __init__(self, rec):
        self.h = rec["history"]
        self.steps = self.h["steps"]
        self.obs = rec["obs"]
        self.n = min(len(self.steps), len(self.obs))
        self.cfgs = []
        cfg = dict(self.h["cfg"])
        jars = {}
        self.pre_jar = []
        self.epoch = []  # number of restarts/crashes before the step
        ep = 0
        for i in range(self.n):
            st = self.steps[i]
            if st["kind"] == "setcfg":
                c = dict(st["cfg"])
                c["json"] = cfg["json"]
                cfg = c
                self.cfgs.append(cfg)   # the observation is taken under the new one
            else:
                self.cfgs.append(cfg)
            c = st.get("client", 0)
            self.pre_jar.append(jars.get(c, {"kind": "none"}))
            self.epoch.append(ep)
            if st["kind"] == "req":
                forged = st.get("forge_raw") is not None or st.get("forge_key") is not None
                if not forged and self.obs[i]["res"] != "crashed":
                    jars[c] = self.obs[i]["jar"]
            if st["kind"] == "restart" or self.obs[i]["res"] == "crashed":
                ep += 1
        self.final_cfg = cfg
        # Properties that do not quantify over store failures or crashes are
        # judged on the fault-free, crash-free prefix of a history only: after a
        # reported failure memory and store may legitimately disagree.
        self.first_dirty = self.n
        for i in range(self.n):
            if self.steps[i].get("plan") or self.steps[i].get("crash") is not None or self.faulted(i) \
               or self.obs[i]["res"] in ("crashed", "panic"):
                self.first_dirty = i
                break

    def pre(self, i):
        return View(self.obs[i - 1] if i > 0 else None)

    def post(self, i):
        return View(self.obs[i])

    def faulted(self, i):
        return any(not e["ok"] for e in self.obs[i].get("evs") or [])

    def plain(self, i):
        """A fault-free, crash-free, completed step."""
        return i < self.first_dirty

    def draws(self, i):
        return [kt(e["key"]) for e in self.obs[i].get("evs") or [] if e["op"] == "draw"]

    def script_ops(self, i):
        return [s["op"] for s in self.steps[i].get("script") or []]

    def validity(self, i, r):
        """Judgement of record r (as the package sees it before step i) for the
        request of step i: (stale, ip_ok, ua_ok, idle, age)."""
        cfg, st = self.cfgs[i], self.steps[i]
        now = self.obs[i]["now"]
        idle, age = now - r["access"], now - r["created"]
        return (idle >= cfg["expiry"], ip_rule_ok(cfg["acceptip"], r["ip"], st["addr"]),
                ua_rule_ok(cfg["acceptua"], r["ua"], agent_hash(st.get("agent", 0))), idle, age)


def F(step, what, signature=None):
    return {"step": step, "what": what, "signature": signature}


# ------------------------------------------------------------------ C02

def oracle_C02(t):
    out = []
    for i in range(t.n):
        st, o = t.steps[i], t.obs[i]
        if st["kind"] != "req" or not t.plain(i):
            continue
        kind, k = presented(st, t.pre_jar[i])
        pre, post = t.pre(i), t.post(i)
        if kind == "key" and pre.L(k) is not None:
            continue  # a currently valid server-issued ID
        draws = t.draws(i)
        if o["res"] == "sess":
            s = o["start"]
            if kt(s["key"]) not in draws or (kind == "key" and kt(s["key"]) == k):
                out.append(F(i, "unknown cookie value obtained an existing session or fixed the session ID"))
            elif s["rec"].get("data") or s["rec"].get("user") or s["rec"].get("ref"):
                out.append(F(i, "session created for an unknown cookie value is not empty"))
        ops = t.script_ops(i)
        if kind == "key":
            for e in o.get("evs") or []:
                if e["op"] in ("save", "delete") and kt(e["key"]) == k:
                    out.append(F(i, "a %s was issued under the presented unknown value" % e["op"]))
            loads = sum(1 for e in o.get("evs") or [] if e["op"] == "load" and kt(e["key"]) == k)
            if loads > 1 and "login" not in ops:
                out.append(F(i, "more than one load under the presented unknown value"))
        else:
            first_draw = next((j for j, e in enumerate(o.get("evs") or []) if e["op"] == "draw"), len(o.get("evs") or []))
            if any(e["op"] == "load" for e in (o.get("evs") or [])[:first_draw]):
                out.append(F(i, "a value that is not 24 characters long was looked up"))
        if "login" not in ops:
            cfg = t.cfgs[i]
            for k2 in pre.keys():
                a, b = pre.L(k2), post.L(k2)
                if b is None or norm(a, cfg) != norm(b, cfg):
                    out.append(F(i, "a request with an unknown cookie value altered or deleted live session %s" % (k2,)))
                    break
    return out


# ------------------------------------------------------------------ C03

def oracle_C03(t):
    out = []
    lin, frames = track(t)
    for i in range(t.n):
        root = must_be_served(t, lin, frames, i)
        if root is not None and t.obs[i]["res"] != "sess":
            o_ = t.obs[i]
            out.append(F(i, "a session that keeps being accessed at intervals shorter than SessionExpiry (%d ns since the last accepted request, SessionExpiry %d) was expired: %s %s"
                         % (o_["now"] - [l for r0, l in frames[i - 1]["last"].items() if lin.find(r0) == root][0]["time"], t.cfgs[i]["expiry"], o_["res"], o_.get("site", ""))))
    for i in range(t.n):
        st, o, cfg = t.steps[i], t.obs[i], t.cfgs[i]
        if t.plain(i):
            # Expired() never true for a session a request would still be given
            for kr, ex in zip(o.get("store") or [], o.get("expired") or []):
                r = kr["rec"]
                if ex and not r.get("ref") and o["now"] - r["access"] < cfg["expiry"]:
                    out.append(F(i, "Expired() is true for stored session %s that a request would still be given" % (kt(kr["key"]),)))
        if st["kind"] != "req" or not t.plain(i):
            continue
        kind, k = presented(st, t.pre_jar[i])
        if kind != "key":
            continue
        pre, post = t.pre(i), t.post(i)
        r = pre.L(k)
        if r is None:
            continue
        stale, ipok, uaok, idle, age = t.validity(i, r)
        dead_for_sure = idle > cfg["expiry"] or (cfg["expiry"] == 0)
        if dead_for_sure:
            fresh = o["res"] == "sess" and kt(o["start"]["key"]) in t.draws(i) and not (o["start"]["rec"].get("data") or o["start"]["rec"].get("user"))
            if o["res"] == "sess" and not fresh:
                out.append(F(i, "a session idle for %d ns >= SessionExpiry %d was served" % (idle, cfg["expiry"])))
            if post.L(k) is not None or k in post.store:
                out.append(F(i, "an expired session was not removed from memory and store"))
            cks = o.get("cookies") or []
            if not cks or cks[0]["kind"] != "delete":
                out.append(F(i, "the cookie of an expired session was not expired"))
        elif idle < cfg["expiry"] and not r.get("ref") and ipok and uaok:
            # live side: kept
            if o["res"] != "sess":
                out.append(F(i, "a session accessed %d ns ago (< SessionExpiry %d) was refused: %s %s" % (idle, cfg["expiry"], o["res"], o.get("site", ""))))
    return out


# ------------------------------------------------------------------ C04

def oracle_C04(t):
    out = []
    for i in range(t.n):
        st, o, cfg = t.steps[i], t.obs[i], t.cfgs[i]
        if st["kind"] != "req" or not t.plain(i):
            continue
        kind, k = presented(st, t.pre_jar[i])
        if kind != "key":
            continue
        pre, post = t.pre(i), t.post(i)
        r = pre.L(k)
        if r is None or r.get("ref"):
            continue
        stale, ipok, uaok, idle, age = t.validity(i, r)
        if stale or not ipok or not uaok:
            continue
        ops = t.script_ops(i)
        if any(x in ops for x in ("regen", "login", "destroy")):
            # explicit ID changes: each successful one draws exactly one ID
            expected = 1 if age >= cfg["idexpiry"] else 0
            for s_, r_ in zip(st.get("script") or [], o.get("script") or []):
                if s_["op"] in ("regen", "login") and r_["kind"] == "ok":
                    expected += 1
            if len(t.draws(i)) != expected and "destroy" not in ops:
                out.append(F(i, "%d IDs were generated where %d ID changes happened" % (len(t.draws(i)), expected)))
            if o["res"] == "sess" and o.get("final") and expected > 0 and "destroy" not in ops:
                if kt(o["final"]["key"]) != (t.draws(i)[-1] if t.draws(i) else None):
                    out.append(F(i, "after an ID change the session does not carry the newest generated ID"))
            continue
        if o["res"] != "sess":
            continue  # C03 reports refusals
        s = o["start"]
        draws = t.draws(i)
        if age >= cfg["idexpiry"]:
            if len(draws) != 1:
                out.append(F(i, "a due ID (age %d >= SessionIDExpiry %d) led to %d new IDs" % (age, cfg["idexpiry"], len(draws))))
                continue
            new = draws[0]
            if kt(s["key"]) != new:
                out.append(F(i, "after rotation the session is not under the new ID"))
            if [(c["kind"], kt(c["key"])) for c in o.get("cookies") or []] != [("live", new)]:
                out.append(F(i, "rotation did not set exactly one cookie carrying the new ID"))
            if data_of(s["rec"]) != data_of(r) or uid_of(s["rec"]) != uid_of(r):
                out.append(F(i, "rotation changed the session's data or user"))
            nr, orr = post.L(new), post.L(k)
            if nr is None or nr.get("ref") or data_of(nr) != data_of(o["final"]["rec"]) and not ops:
                out.append(F(i, "the new ID does not resolve to the session"))
            if orr is None or not orr.get("ref") or kt(orr["ref"]) != new:
                # with a grace period of 0 the old ID is already cleaned up
                if not (orr is None and cfg["grace"] == 0):
                    out.append(F(i, "the replaced ID was not turned into a reference to the new one"))
        else:
            if draws:
                out.append(F(i, "an ID younger than SessionIDExpiry was replaced"))
            if kt(s["key"]) != k:
                out.append(F(i, "a young ID did not keep working"))
            if o.get("cookies"):
                out.append(F(i, "a cookie was set although the ID did not change"))
    return out


# ------------------------------------------------------------------ C05

def resolve(view, k, limit=64):
    """Follow intact reference records; returns (final key, record) or None."""
    seen = 0
    while seen < limit:
        r = view.L(k)
        if r is None:
            return None
        if not r.get("ref"):
            return k, r
        k = kt(r["ref"])
        seen += 1
    return None


def oracle_C05(t):
    out = []
    born = {}  # replaced-ID record -> (epoch it was first seen in)
    for i in range(t.n):
        st, o, cfg = t.steps[i], t.obs[i], t.cfgs[i]
        post = t.post(i)
        # bookkeeping of when reference records appeared
        for k2 in post.keys():
            r2 = post.L(k2)
            if r2 and r2.get("ref") and k2 not in born:
                born[k2] = t.epoch[i] + (1 if o["res"] == "crashed" else 0)
        if o["res"] == "sess" and (o["start"]["rec"].get("ref") or o["start"]["rec"].get("datanil")):
            out.append(F(i, "a request was given a replaced-ID placeholder instead of the live session"))
        if not t.plain(i):
            continue
        # Expired() of replaced-ID records: true when, and not before, grace has ended
        for kr, ex in zip(o.get("store") or [], o.get("expired") or []):
            r = kr["rec"]
            if r.get("ref") and r["created"] == r["access"]:
                ended = o["now"] - r["access"] >= cfg["grace"]
                if ex != ended:
                    out.append(F(i, "Expired() of replaced-ID record %s is %s, %d ns after its replacement (grace %d)" % (kt(kr["key"]), ex, o["now"] - r["access"], cfg["grace"])))
        # in a running process the replaced ID is gone once the grace period has passed
        grace_changed = any(c["grace"] != t.cfgs[0]["grace"] for c in t.cfgs[:i + 1])
        if st["kind"] in ("wait", "req") and not grace_changed:
            for k2 in post.keys():
                r2 = post.L(k2)
                if r2 and r2.get("ref") and born.get(k2) == t.epoch[i] and o["res"] != "crashed":
                    margin = SEC if cfg["json"] else 0
                    if o["now"] - r2["created"] > cfg["grace"] + margin and st["kind"] == "wait":
                        out.append(F(i, "replaced ID %s still exists %d ns after its replacement (grace %d) in a running process" % (k2, o["now"] - r2["created"], cfg["grace"])))
        if st["kind"] != "req":
            continue
        kind, k = presented(st, t.pre_jar[i])
        if kind != "key":
            continue
        pre = t.pre(i)
        r = pre.L(k)
        if r is None or not r.get("ref"):
            continue
        stale, ipok, uaok, idle, age = t.validity(i, r)
        if age >= sat_add(cfg["idexpiry"], cfg["grace"]):
            # backstop: never honoured later than SessionIDExpiry+grace
            if o["res"] == "sess" and kt(o["start"]["key"]) not in t.draws(i):
                out.append(F(i, "a replaced ID was honoured %d ns after its replacement (backstop %d)" % (age, sat_add(cfg["idexpiry"], cfg["grace"]))))
            continue
        if not ipok or not uaok:
            continue  # C06: the placeholder is destroyed
        tgt = resolve(pre, k)
        if tgt is None:
            continue  # chain not intact
        within_grace = age < cfg["grace"]
        if not within_grace:
            continue
        fk, fr = tgt
        ok = o["res"] == "sess" and kt(o["start"]["key"]) == fk and data_of(o["start"]["rec"]) == data_of(fr) and uid_of(o["start"]["rec"]) == uid_of(fr)
        if not ok:
            sig = None
            if cfg["expiry"] < cfg["grace"] and idle >= cfg["expiry"]:
                sig = "D10"
            out.append(F(i, "replaced ID presented %d ns after its replacement (grace %d) did not reach the live session: %s %s" % (age, cfg["grace"], o["res"], o.get("site", "")), sig))
        else:
            cks = o.get("cookies") or []
            if not cks or cks[0]["kind"] != "live" or kt(cks[0]["key"]) != fk:
                out.append(F(i, "the cookie was not redirected to the session's current ID"))
    return out


# ------------------------------------------------------------------ C06

def oracle_C06(t):
    out = []
    lin, frames = track(t)
    for i in range(t.n):
        st, o, cfg = t.steps[i], t.obs[i], t.cfgs[i]
        if st["kind"] != "req" or not t.plain(i):
            continue
        kind, k = presented(st, t.pre_jar[i])
        if kind != "key":
            continue
        pre, post = t.pre(i), t.post(i)
        r = pre.L(k)
        if r is None:
            continue
        # judged against the previous accepted request of the session, as the
        # client's own history records it
        if i > 0 and 2 <= cfg["acceptip"] <= 4:
            root = lin.find(k)
            last = None
            for r0, l0 in frames[i - 1]["last"].items():
                if lin.find(r0) == root:
                    last = l0
            if last is not None and last["exact"] and root not in {lin.find(x) for x in frames[i - 1]["dead"]} \
               and not ip_rule_ok(cfg["acceptip"], last["addr"], st["addr"]):
                tgt = resolve(pre, k)
                if tgt is not None and o["res"] == "sess" and kt(o["start"]["key"]) not in t.draws(i) or \
                   (tgt is not None and o["res"] == "sess" and lin.find(kt(o["start"]["key"])) == root):
                    out.append(F(i, "a request from %s was given the session although its previous accepted request came from %s (AcceptRemoteIP %d)"
                                 % (Addr_str(st["addr"]), Addr_str(last["addr"]), cfg["acceptip"])))
        stale, ipok, uaok, idle, age = t.validity(i, r)
        if stale or idle >= cfg["expiry"]:
            continue
        if not (1 <= cfg["acceptip"] <= 4):
            ipok = True  # outside the documented range: not claimed
            if not uaok:
                pass
        if not ipok or not uaok:
            fresh = o["res"] == "sess" and kt(o["start"]["key"]) in t.draws(i) and not (o["start"]["rec"].get("data") or o["start"]["rec"].get("user"))
            if o["res"] == "sess" and not fresh:
                out.append(F(i, "an anomalous request (%s) was given the session" % ("address" if not ipok else "user agent")))
            if post.L(k) is not None or k in post.store:
                out.append(F(i, "the record presented by an anomalous request was not destroyed"))
            if r.get("ref") and "login" not in t.script_ops(i):
                # (a session created in this request may log a user in exclusively
                # and thereby legitimately detach that user from the live session)
                tgt = resolve(pre, k)
                if tgt and tgt[0] != k:
                    a, b = pre.L(tgt[0]), post.L(tgt[0])
                    if b is None or norm(a, cfg) != norm(b, cfg):
                        out.append(F(i, "an anomaly on a replaced ID changed the live session"))
        elif not r.get("ref"):
            if o["res"] != "sess":
                out.append(F(i, "a legitimate request (address/agent unchanged within the rule) lost the session: %s %s" % (o["res"], o.get("site", ""))))
            else:
                # the comparison point moves with the accepted request
                s = o["start"]["rec"]
                if s["ip"] != st["addr"] or s["ua"] != agent_hash(st.get("agent", 0)):
                    out.append(F(i, "the accepted request's address/agent was not recorded as the new comparison point"))
    return out


# ------------------------------------------------------------------ lineages

class Lineages:
    """Which IDs belong to one session over its life (union-find over keys)."""

    def __init__(self):
        self.p = {}

    def find(self, k):
        self.p.setdefault(k, k)
        while self.p[k] != k:
            self.p[k] = self.p[self.p[k]]
            k = self.p[k]
        return k

    def union(self, a, b):
        a, b = self.find(a), self.find(b)
        if a != b:
            self.p[a] = b


def track(t):
    """Per step: lineage structure after the step, the ghost content per
    lineage (what was last written through the API and acknowledged), and
    which lineages have ended."""
    lin = Lineages()
    ghost = {}      # root -> {"data": {}, "user": uid or None, "tainted": set(keys removed by GetAndDelete)}
    dead = set()
    frames = []

    def g(k):
        root = lin.find(k)
        return ghost.setdefault(root, {"data": {}, "user": None, "tainted": set(), "unknown": False, "last": None})

    def merge(a, b):
        ra, rb = lin.find(a), lin.find(b)
        if ra == rb:
            return
        ga, gb = ghost.get(ra), ghost.get(rb)
        lin.union(a, b)
        root = lin.find(a)
        keep = ga if ga is not None else gb
        if keep is not None:
            ghost[root] = keep
        was_dead = ra in dead or rb in dead
        if was_dead:
            dead.add(root)

    for i in range(t.n):
        st, o = t.steps[i], t.obs[i]
        pre, post = t.pre(i), t.post(i)
        frame = {"ended": [], "pre_ghost": None, "lin_key": None}
        if st["kind"] == "req" and o["res"] == "sess":
            sk = kt(o["start"]["key"])
            kind, k = presented(st, t.pre_jar[i])
            existing = kind == "key" and pre.L(k) is not None
            if existing and sk in t.draws(i):
                # a new ID: rotation of the presented session, or a session
                # created after the presented one was invalidated (its record is
                # deleted before the new ID is generated)
                evs = o.get("evs") or []
                first_draw = next(j for j, e in enumerate(evs) if e["op"] == "draw")
                if any(e["op"] == "delete" and kt(e["key"]) == k for e in evs[:first_draw]):
                    existing = False
            if existing:
                tgt = resolve(pre, k)
                if tgt is not None and sk != tgt[0]:
                    merge(sk, tgt[0])
                elif tgt is None:
                    merge(sk, k)
            gh = g(sk)
            frame["pre_ghost"] = {"data": dict(gh["data"]), "user": gh["user"], "tainted": set(gh["tainted"]), "unknown": gh["unknown"], "existing": existing}
            # the request was accepted: it is the comparison point from now on,
            # provided the package still holds its bookkeeping (the object may
            # have left a tiny cache in mid-request, or caching may be off)
            fin = o.get("final") or o["start"]
            held = post.L(kt(fin["key"]))
            cfg_i = t.cfgs[i]
            exact = held is not None and held["access"] >= norm({"created": 0, "access": o["now"]}, cfg_i)["access"] \
                and held["ip"] == st["addr"] and held["ua"] == agent_hash(st.get("agent", 0))
            if cfg_i["maxcache"] not in (0, 1):
                # with the cache enabled and room for more than one session the
                # package must hold the accepted request's bookkeeping
                exact = True
            # a request that did not come from the cookie-following client (a
            # replayed or stolen cookie) may move the session's ID away from
            # what that client holds: no expectation afterwards
            forged_req = st.get("forge_raw") is not None or st.get("forge_key") is not None
            gh["last"] = {"time": o["now"], "addr": st["addr"], "agent": st.get("agent", 0), "exact": exact and t.plain(i) and not forged_req}
            frame["lin_key"] = sk
            cur = sk
            for s_, r_ in zip(st.get("script") or [], o.get("script") or []):
                op = s_["op"]
                if r_["kind"] in ("err", "panic"):
                    if op in ("set", "del", "login", "logout", "regen"):
                        gh["unknown"] = True   # not acknowledged: either outcome
                    continue
                if op == "set":
                    gh["data"][s_.get("k", 0)] = s_.get("v", 0)
                    gh["tainted"].discard(s_.get("k", 0))
                elif op == "del":
                    gh["data"].pop(s_.get("k", 0), None)
                    gh["tainted"].discard(s_.get("k", 0))
                elif op == "getdel":
                    if r_.get("has"):
                        gh["data"].pop(s_.get("k", 0), None)
                        gh["tainted"].add(s_.get("k", 0))
                elif op == "login":
                    gh["user"] = s_.get("u", 0)
                elif op == "logout":
                    gh["user"] = None
                elif op == "destroy":
                    dead.add(lin.find(cur))
                    frame["ended"].append(lin.find(cur))
            if o.get("final"):
                merge(kt(o["final"]["key"]), sk)
        if st["kind"] == "logoutuser" and o["res"] == "void":
            for gh in ghost.values():
                if gh["user"] == st.get("u", 0):
                    gh["user"] = None
        if st["kind"] == "logoutuser" and o["res"] != "void":
            for gh in ghost.values():
                if gh["user"] == st.get("u", 0):
                    gh["unknown"] = True
        # exclusive logins detach the user elsewhere
        if st["kind"] == "req" and o["res"] == "sess":
            for s_, r_ in zip(st.get("script") or [], o.get("script") or []):
                if s_["op"] == "login" and s_.get("excl"):
                    me = lin.find(kt(o["start"]["key"]))
                    for root, gh in ghost.items():
                        if lin.find(root) != me and gh["user"] == s_.get("u", 0):
                            if r_["kind"] == "ok":
                                gh["user"] = None
                            else:
                                gh["unknown"] = True
        # reference records tie IDs together
        for k2 in post.keys():
            r2 = post.L(k2)
            if r2 and r2.get("ref"):
                merge(k2, kt(r2["ref"]))
        # a request that removed a non-reference record ended that session
        if st["kind"] == "req" and o["res"] != "crashed":
            kind, k = presented(st, t.pre_jar[i])
            if kind == "key":
                r = pre.L(k)
                if r is not None and not r.get("ref") and post.L(k) is None and k not in post.store:
                    if not (o["res"] == "sess" and lin.find(kt(o["start"]["key"])) == lin.find(k)):
                        dead.add(lin.find(k))
                        frame["ended"].append(lin.find(k))
        if st["kind"] in ("drop", "restart") or o["res"] == "crashed" or not t.plain(i):
            for gh in ghost.values():
                if gh.get("last"):
                    gh["last"]["exact"] = False     # bookkeeping may be older now
        frame["last"] = {root: dict(gh["last"]) for root, gh in ghost.items() if gh.get("last")}
        frame["dead"] = {lin.find(x) for x in dead}
        frame["find"] = dict(lin.p)
        frames.append(frame)
    return lin, frames


def must_be_served(t, lin, frames, i):
    """Is step i a request by a cookie-following client whose session is valid
    with margin according to the client's own history (the instant, peer and
    agent of its last accepted request, known exactly)? Returns the lineage
    root or None."""
    st, cfg = t.steps[i], t.cfgs[i]
    if st["kind"] != "req" or not t.plain(i) or i == 0:
        return None
    if st.get("forge_raw") is not None or st.get("forge_key") is not None:
        return None
    kind, k = presented(st, t.pre_jar[i])
    if kind != "key":
        return None
    prev = frames[i - 1]
    root = lin.find(k)
    last = None
    for r0, l0 in prev["last"].items():
        if lin.find(r0) == root:
            last = l0
    if last is None or not last["exact"] or root in {lin.find(x) for x in prev["dead"]}:
        return None
    margin = SEC if cfg["json"] else 0
    now = t.obs[i]["now"]
    if now - last["time"] + margin >= cfg["expiry"]:
        return None
    if last["addr"] != st["addr"] or last["agent"] != st.get("agent", 0):
        return None
    # the ID the client holds must be the session's current one (not merely in grace)
    r = t.pre(i).L(k)
    if r is not None and r.get("ref"):
        return None
    # a user-wide call or another client's exclusive login may have touched the
    # session (that refreshes, never ages, its access time): still must be served
    return root


# ------------------------------------------------------------------ C01

def oracle_C01(t):
    out = []
    lin, frames = track(t)
    for i in range(t.n):
        st, o = t.steps[i], t.obs[i]
        root = must_be_served(t, lin, frames, i)
        if root is not None and not (o["res"] == "sess" and lin.find(kt(o["start"]["key"])) == root):
            out.append(F(i, "a cookie-following client whose session is valid (last accepted request %d ns ago, SessionExpiry %d, same peer and agent) did not get its session back: %s %s"
                         % (o["now"] - [l for r0, l in frames[i - 1]["last"].items() if lin.find(r0) == root][0]["time"], t.cfgs[i]["expiry"], o["res"], o.get("site", ""))))
        if st["kind"] != "req" or o["res"] != "sess" or not t.plain(i):
            continue
        fr = frames[i]
        gh = fr["pre_ghost"]
        if gh is None:
            continue
        s = o["start"]["rec"]
        if not gh["existing"] and kt(o["start"]["key"]) in t.draws(i):
            if s.get("data") or s.get("user"):
                out.append(F(i, "a newly created session carries data or a user"))
            continue
        if gh["unknown"]:
            continue
        got, want = data_of(s), gh["data"]
        if got != want:
            extra = {k for k in got if k not in want}
            sig = "D6" if extra and extra <= gh["tainted"] and all(got.get(k) == want.get(k) for k in want) else None
            out.append(F(i, "the session returned holds data %s, last written %s" % (sorted(got.items()), sorted(want.items())), sig))
        if uid_of(s) != gh["user"]:
            out.append(F(i, "the session returned carries user %s, last written %s" % (uid_of(s), gh["user"])))
    return out


# ------------------------------------------------------------------ C07

def oracle_C07(t):
    out = []
    lin, frames = track(t)
    dead_keys = set()
    for i in range(t.n):
        st, o = t.steps[i], t.obs[i]
        fr = frames[i]
        # (not judged once a store call has failed: C07 quantifies over crashes and
        # cache loss, not over store failures, and after a *reported* failure of an
        # ID change memory and store may hold two full copies of one session - the
        # ID in the object has advanced, the record under it was never written -
        # so that ending the session through one ID leaves the other copy)
        if st["kind"] == "req" and o["res"] == "sess" and not st.get("plan") and not any(t.faulted(j) for j in range(i)):
            sk = kt(o["start"]["key"])
            if sk in dead_keys and sk not in t.draws(i):
                out.append(F(i, "a request obtained a session that had been destroyed or invalidated"))
        judged = t.plain(i) or (i == t.first_dirty and o["res"] not in ("crashed", "panic") and st.get("crash") is None
                                and all(r_["kind"] in ("ok", "val") for r_ in o.get("script") or []) and o["res"] in ("sess", "none"))
        if fr["ended"] and st["kind"] == "req" and judged:
            # (also on the first step with a store failure when every call of
            # the request reported success: Destroy then claims the session is gone)
            # the session that ended must be gone from memory and store under
            # every ID it has (replaced-ID records may linger until their clean-up)
            post = t.post(i)
            roots = {lin.find(x) for x in fr["ended"]}
            for k2 in post.keys():
                if k2 in fr["find"] and lin.find(k2) in roots:
                    r2 = post.L(k2)
                    if r2 is not None and not r2.get("ref"):
                        out.append(F(i, "the session was ended (Destroy or invalidation) but its record still exists under ID %s" % (k2,)))
            cks = o.get("cookies") or []
            if not any(c["kind"] == "delete" for c in cks):
                out.append(F(i, "the response that ended a session did not expire the cookie"))
            jar = o["jar"]
            forged = st.get("forge_raw") is not None or st.get("forge_key") is not None
            if not forged and jar["kind"] == "key":
                jk = kt(jar["key"])
                roots = {lin.find(x) for x in fr["ended"]}
                if lin.find(jk) in roots and jk not in t.draws(i):
                    out.append(F(i, "the client is left holding an ID of the session that ended"))
        # all keys of lineages that have ended
        if fr["ended"]:
            roots = {lin.find(x) for x in fr["ended"]}
            for k in list(lin.p):
                if lin.find(k) in roots:
                    # only IDs known so far belong to the ended session
                    if k in fr["find"]:
                        dead_keys.add(k)
    return out


# ------------------------------------------------------------------ C08

def oracle_C08(t):
    out = []
    for i in range(t.n):
        st, o, cfg = t.steps[i], t.obs[i], t.cfgs[i]
        post = t.post(i)
        if o["res"] == "panic" and st["kind"] in ("logoutuser", "refreshuser"):
            out.append(F(i, "%s panicked: %s" % (st["kind"], o.get("text", ""))))
        # D12: once a reported failure of RegenerateID's first save has left an object
        # cached under a key that is not its own ID, a later user-wide logout that
        # meets no failure itself is acknowledged although the record stored under
        # that key keeps the user (it is written under the object's advanced ID).
        # Only this shape is judged after a store failure; see the next lines.
        if i > t.first_dirty and st["kind"] == "logoutuser" and o["res"] == "void" and not t.faulted(i) \
           and not st.get("plan") and st.get("crash") is None and i > 0:
            u = st.get("u", 0)
            pre = t.pre(i)
            for k, e in pre.cache.items():
                if kt(e["objid"]) != k and k in post.store and uid_of(post.store[k]) == u:
                    out.append(F(i, "LogOut(%d) returned nil but the record stored under %s keeps the user: the cache held, under that ID, an object whose own ID had advanced to %s when an earlier ID change reported a failed save" % (u, k, kt(e["objid"])), "D12"))
        if i > t.first_dirty or o["res"] in ("crashed", "panic") or st.get("crash") is not None:
            continue
        faulty = not t.plain(i)   # the first step with a store failure: its pre-state is clean
        if faulty and st["kind"] != "req":
            continue
        if st["kind"] == "logoutuser" and o["res"] == "void":
            u = st.get("u", 0)
            for k in post.keys():
                if uid_of(post.L(k)) == u or (k in post.store and uid_of(post.store[k]) == u):
                    out.append(F(i, "after LogOut(%d) session %s still carries the user" % (u, k)))
        if st["kind"] in ("logoutuser", "refreshuser") and o["res"] == "err":
            out.append(F(i, "%s returned an error without a store failure: %s" % (st["kind"], o.get("text", ""))))
        if st["kind"] == "refreshuser" and o["res"] == "void":
            u, ver = st.get("u", 0), st.get("ver", 0)
            for k, e in post.cache.items():
                usr = e["rec"].get("user")
                if usr and usr[0] == u and usr[1] != ver and k in post.store and uid_of(post.store[k]) == u:
                    out.append(F(i, "after RefreshUser cached session %s still carries the old user object" % (k,)))
        if st["kind"] != "req" or o["res"] != "sess":
            continue
        ops = st.get("script") or []
        res = o.get("script") or []
        userops = [j for j, s_ in enumerate(ops[:len(res)]) if s_["op"] in ("login", "logout")]
        if not userops or "destroy" in [s_["op"] for s_ in ops]:
            continue
        j = userops[-1]
        if faulty and not all(r_["kind"] in ("ok", "val") for r_ in res):
            continue   # a later call reported the failure
        if res[j]["kind"] == "panic":
            out.append(F(i, "%s panicked: %s" % (ops[j]["op"], res[j].get("text", ""))))
        if res[j]["kind"] != "ok" or not o.get("final"):
            continue
        fin = o["final"]
        fk = kt(fin["key"])
        if ops[j]["op"] == "login":
            u, ver, excl = ops[j].get("u", 0), ops[j].get("ver", 0), ops[j].get("excl", False)
            if fin["rec"].get("user") != [u, ver]:
                out.append(F(i, "after LogIn the session carries %s, not the given user" % (fin["rec"].get("user"),)))
            if fk == kt(o["start"]["key"]) or fk not in t.draws(i):
                out.append(F(i, "LogIn did not change the session ID"))
            if fk in post.store and uid_of(post.store[fk]) != u:
                out.append(F(i, "after LogIn the stored record does not carry the user"))
            if fk not in post.store:
                out.append(F(i, "after LogIn the session is not stored under its new ID"))
            if excl:
                for k in post.keys():
                    if k == fk:
                        continue
                    rr = post.L(k)
                    if rr.get("ref"):
                        continue
                    if uid_of(rr) == u or (k in post.store and uid_of(post.store[k]) == u):
                        out.append(F(i, "after an exclusive LogIn another session %s still carries the user" % (k,)))
        else:
            if fin["rec"].get("user"):
                out.append(F(i, "after LogOut the session still carries a user"))
            if fk in post.store and post.store[fk].get("user"):
                out.append(F(i, "after LogOut the stored record still carries the user"))
    return out


# ------------------------------------------------------------------ C09

def oracle_C09(t):
    out = []
    lin, frames = track(t)
    for i in range(t.n):
        st, o, cfg = t.steps[i], t.obs[i], t.cfgs[i]
        if not t.plain(i) or st["kind"] in ("drop", "restart"):
            continue
        if st["kind"] == "req" and any(r_["kind"] in ("err", "panic") for r_ in o.get("script") or []):
            continue
        post = t.post(i)
        tainted = set()
        fr = frames[i]
        if fr["pre_ghost"] is not None:
            tainted = set(fr["pre_ghost"]["tainted"])
        for s_, r_ in zip(st.get("script") or [], o.get("script") or []):
            if s_["op"] == "getdel" and r_.get("has"):
                tainted.add(s_.get("k", 0))
        objs = [(k, e["rec"]) for k, e in post.cache.items()]
        if st["kind"] == "req" and o.get("final") and "destroy" not in t.script_ops(i):
            objs.append((kt(o["final"]["key"]), o["final"]["rec"]))
        for k, rec in objs:
            sr = post.store.get(k)
            if sr is None:
                out.append(F(i, "session %s is in memory but has no stored record after an acknowledged call" % (k,)))
                continue
            if durable(rec, cfg) != durable(sr, cfg):
                a, b = data_of(rec), data_of(sr)
                same_else = durable(dict(rec, data=[]), cfg) == durable(dict(sr, data=[]), cfg)
                extra = {x for x in b if x not in a}
                # GetAndDelete removes the key in memory and never saves (D6)
                sig = "D6" if same_else and extra and all(a.get(x) == b.get(x) for x in a) and all(x not in b or True for x in a) and \
                    set(a) <= set(b) and "getdel" in [h_["op"] for h_ in _all_getdels(t, i)] else None
                out.append(F(i, "stored record of %s differs from the acknowledged in-memory state: stored %s, memory %s" % (k, durable(sr, cfg), durable(rec, cfg)), sig))
    return out


def _all_getdels(t, upto):
    ops = []
    for i in range(upto + 1):
        for s_, r_ in zip(t.steps[i].get("script") or [], t.obs[i].get("script") or []):
            if s_["op"] == "getdel" and r_.get("has"):
                ops.append(s_)
    return ops


# ------------------------------------------------------------------ C10

def oracle_C10(t):
    out = []
    for i in range(t.n):
        st, o, cfg = t.steps[i], t.obs[i], t.cfgs[i]
        if o["res"] != "crashed":
            continue
        post = t.post(i)
        deleted = {kt(e["key"]) for j in range(i + 1) for e in t.obs[j].get("evs") or [] if e["op"] == "delete"}
        for k, r in post.store.items():
            # a target that was deleted (Destroy, invalidation) is C07's
            # business; here: a reference written before its target
            if r.get("ref") and kt(r["ref"]) not in post.store and kt(r["ref"]) not in deleted:
                out.append(F(i, "after a crash at persistence call %s the store holds replaced-ID record %s pointing at missing %s" % (st.get("crash"), k, kt(r["ref"]))))
        if not hasattr(t, "_c10"):
            pass
        # the probes that follow: old ID, new IDs, the client itself
        pre = t.pre(i)
        kind, k = presented(st, t.pre_jar[i])
        if kind != "key" or pre.L(k) is None:
            continue
        tgt = resolve(pre, k)
        if tgt is None:
            continue
        base = data_of(tgt[1])
        # data states reachable by a prefix of the handler's writes
        states = [dict(base)]
        users = [uid_of(tgt[1])]
        d = dict(base)
        for s_ in st.get("script") or []:
            if s_["op"] == "set":
                d[s_.get("k", 0)] = s_.get("v", 0)
            elif s_["op"] in ("del", "getdel"):
                d.pop(s_.get("k", 0), None)
            elif s_["op"] == "login":
                # LogIn detaches the previous user first (its own session
                # included when exclusive) and attaches the new one afterwards
                users.append(None)
                users.append(s_.get("u", 0))
            elif s_["op"] == "logout":
                users.append(None)
            elif s_["op"] == "destroy":
                states = None
                break
            states.append(dict(d))
        if states is None:
            continue
        stale, ipok, uaok, idle, age = t.validity(i, pre.L(k))
        if stale or not ipok or not uaok:
            continue
        gd = {s_.get("k", 0) for s_ in _all_getdels(t, i)}

        def matches(d):
            if d in states:
                return True, None
            # GetAndDelete never saves (D6): keys it removed may be back
            for s0 in states:
                extra = {x for x in d if x not in s0}
                if extra and extra <= gd and all(d.get(x) == s0.get(x) for x in s0):
                    return False, "D6"
            return False, None
        # the ID change is complete once the replaced-ID record pointing at the new ID is saved
        completed = {kt(e["rec"]["ref"]) for e in o.get("evs") or [] if e["op"] == "save" and e["ok"] and e.get("rec") and e["rec"].get("ref")}
        for j in range(i + 1, t.n):
            pj, oj = t.steps[j], t.obs[j]
            if pj["kind"] != "req" or pj.get("forge_key") is None:
                break
            fk = kt(pj["forge_key"])
            if fk == k:
                # the ID the client presented still resolves to the session
                good, sig = (False, None)
                if oj["res"] == "sess":
                    good, sig = matches(data_of(oj["start"]["rec"]))
                    good = good and uid_of(oj["start"]["rec"]) in users
                if not good:
                    out.append(F(j, "after a crash at persistence call %s of an ID change the presented ID no longer reaches the session with its acknowledged data (%s %s)" % (st.get("crash"), oj["res"], oj.get("site", "")), sig))
            elif fk in completed and fk == (t.draws(i)[-1] if t.draws(i) else None):
                good, sig = (False, None)
                if oj["res"] == "sess":
                    good, sig = matches(data_of(oj["start"]["rec"]))
                if not good and "destroy" not in t.script_ops(i):
                    out.append(F(j, "after a completed ID change and restart the new ID does not reach the session (%s %s)" % (oj["res"], oj.get("site", "")), sig))
    for i, k in unbacked_cookies(t):
        out.append(F(i, "the response (%s) leaves the client with session cookie %s, an ID the store does not hold: if the process stops now, the ID the client holds reaches nothing after the restart" % (t.obs[i]["res"], k)))
    return out



def unbacked_cookies(t):
    """The first dirty step included (a store failure or crash in THIS step; every
    earlier step clean): a response that was sent (no crash) and leaves the
    client with a live session cookie must name an ID the store holds - the
    package sets cookies only after the record under that ID has been saved, so
    that a stop of the process right after the response (C10: "if the response
    had been sent the new ID does too"; C18: "a live ID") leaves the client
    with an ID that still reaches the session."""
    out = []
    for i in range(min(t.n, t.first_dirty + 1)):
        st, o = t.steps[i], t.obs[i]
        if st["kind"] != "req" or o["res"] in ("crashed", "panic"):
            continue
        cks = [c for c in (o.get("cookies") or []) if c["kind"] in ("live", "delete")]
        if not cks or cks[-1]["kind"] != "live":
            continue
        k = kt(cks[-1]["key"])
        if k not in t.post(i).store:
            out.append((i, k))
    return out

# ------------------------------------------------------------------ C11

def oracle_C11(t):
    out = []
    for i in range(t.n):
        st, o, cfg = t.steps[i], t.obs[i], t.cfgs[i]
        if o["res"] == "panic" or any(r_["kind"] == "panic" for r_ in o.get("script") or []):
            if st.get("plan"):
                out.append(F(i, "a call panicked under a store failure: %s" % (o.get("text") or [r_.get("text") for r_ in o.get("script") or []])))
            continue
        if not t.faulted(i) or o["res"] == "crashed":
            continue
        pre, post = t.pre(i), t.post(i)
        evs = o.get("evs") or []
        if st["kind"] == "req":
            kind, k = presented(st, t.pre_jar[i])
            # a failed load of the presented ID (or of a reference target met while resolving it)
            first_fail = next((j for j, e in enumerate(evs) if not e["ok"]), None)
            e = evs[first_fail]
            in_start = not any(x["op"] in ("save", "delete", "draw", "usersessions") for x in evs[:first_fail])
            if e["op"] in ("load", "loaduser") and in_start and kind == "key":
                if o["res"] != "err":
                    out.append(F(i, "a failed load was not reported as an error (result %s)" % o["res"]))
                if any(c["kind"] == "delete" for c in o.get("cookies") or []):
                    out.append(F(i, "a failed load expired the client's cookie"))
                if any(x["op"] == "delete" for x in evs):
                    out.append(F(i, "a failed load led to a deletion from the store"))
                if t.draws(i):
                    out.append(F(i, "a failed load led to the creation of a replacement session"))
            # a failed save is never acknowledged
            if o["res"] == "sess" and o.get("final") and all(r_["kind"] in ("ok", "val") for r_ in o.get("script") or []) \
               and "destroy" not in t.script_ops(i):
                failed_direct = [x for x in evs if x["op"] == "save" and not x["ok"] and x.get("origin") in ("other", "cacheset")]
                if failed_direct:
                    fk = kt(o["final"]["key"])
                    sr = post.store.get(fk)
                    if sr is None or durable(sr, cfg) != durable(o["final"]["rec"], cfg):
                        # GetAndDelete (D6) aside
                        if not _all_getdels(t, i):
                            out.append(F(i, "a failed save was acknowledged: every call returned success but the stored record differs from the session"))
            if o["res"] in ("sess", "none") and all(r_["kind"] in ("ok", "val") for r_ in o.get("script") or []):
                nonexcl_login = any(s_["op"] == "login" and not s_.get("excl") for s_ in st.get("script") or [])
                for x in evs:
                    if x["ok"] or (x["op"] == "save" and x.get("origin") in ("compact", "purge")):
                        continue
                    if x["op"] == "save" and x.get("origin") == "other" and nonexcl_login:
                        continue  # LogIn drops the error of its own preliminary LogOut; the later saves supersede it
                    if x["op"] == "delete":
                        continue  # the delayed clean-up of a replaced ID has nowhere to report to; Destroy and Start report theirs
                    sig = None
                    if x["op"] == "save" and x.get("origin") == "other" and any(
                            s_["op"] == "getdel" and r_.get("has") for s_, r_ in zip(st.get("script") or [], o.get("script") or [])):
                        # Set, Delete and LogOut report their failed save; the one direct
                        # save whose failure cannot be reported is GetAndDelete's
                        sig = "D6b"
                    out.append(F(i, "every call of the request returned success although the store failed (%s %s)" % (x["op"], kt(x["key"])), sig))
                    break
            if o["res"] == "sess" and kt(o["start"]["key"]) in t.draws(i) and not (st.get("script")):
                fk = kt(o["start"]["key"])
                if fk not in post.store:
                    out.append(F(i, "Start acknowledged a new session whose save had failed"))
        if st["kind"] in ("logoutuser", "refreshuser") and o["res"] == "void":
            failed = [x for x in evs if not x["ok"] and not (x["op"] == "save" and x.get("origin") == "compact")]
            if failed:
                out.append(F(i, "%s returned success although the store failed (%s)" % (st["kind"], failed[0]["op"])))
    return out


# ------------------------------------------------------------------ C12

def oracle_C12(t):
    out = []
    for i in range(t.n):
        st, o, cfg = t.steps[i], t.obs[i], t.cfgs[i]
        if not t.plain(i) or st["kind"] in ("drop", "restart", "setcfg", "wait"):
            continue
        pre, post = t.pre(i), t.post(i)
        evs = o.get("evs") or []
        now = o["now"]
        wrote = any(e["op"] == "save" and e.get("origin") == "cacheset" for e in evs) or \
            any(e["op"] == "load" and e["ok"] and kt(e["key"]) in post.cache for e in evs)
        n = cfg["maxcache"]
        size = len(post.cache)
        if st["kind"] == "purge":
            if size != 0:
                out.append(F(i, "PurgeSessions left %d sessions in memory" % size))
        elif wrote:
            if n > 0 and size > n:
                tie = all(e["rec"]["access"] == now for e in post.cache.values())
                if not (tie and size == n + 1):
                    out.append(F(i, "%d sessions in memory with MaxSessionCacheSize %d" % (size, n)))
            if n == 0 and size > 0:
                out.append(F(i, "%d sessions in memory with MaxSessionCacheSize 0" % size))
            loaded = {kt(e["key"]) for e in evs if e["op"] == "load"}
            for k, e in post.cache.items():
                if k in loaded:
                    continue  # inserted by this very write with its stored access time; due at the next one
                if now - e["rec"]["access"] > cfg["cacheexpiry"]:
                    out.append(F(i, "session %s unused for %d ns (> SessionCacheExpiry %d) survived a cache write" % (k, now - e["rec"]["access"], cfg["cacheexpiry"])))
        if n == 0 and st["kind"] == "req" and size > len(pre.cache):
            out.append(F(i, "the cache grew with MaxSessionCacheSize 0"))
        # evictions
        for e in evs:
            if e["op"] == "save" and e.get("origin") == "compact" and e["ok"]:
                k = kt(e["key"])
                acc = e["rec"]["access"]
                idle = now - acc > cfg["cacheexpiry"] or (cfg["json"] and now - acc + SEC > cfg["cacheexpiry"])
                if idle:
                    continue
                if n < 0:
                    out.append(F(i, "session %s was evicted for size although the cache is unbounded" % (k,)))
                for k2, e2 in post.cache.items():
                    if k2 in pre.cache and k2 != k:
                        a1, a2 = pre.cache[k2]["rec"]["access"], e2["rec"]["access"]
                        margin = SEC if cfg["json"] else 0
                        if a1 + margin < acc and a2 + margin < acc:
                            out.append(F(i, "session %s (accessed at %d) was evicted while the less recently used %s (accessed at %d) stayed" % (k, acc, k2, a2)))
        # flush before drop
        deleted = {kt(e["key"]) for e in evs if e["op"] == "delete"}
        for k, e0 in pre.cache.items():
            if k in post.cache or k in deleted:
                continue
            saves = [e for e in evs if e["op"] == "save" and e["ok"] and kt(e["key"]) == k]
            want = norm(e0["rec"], cfg)["access"]
            if not saves:
                out.append(F(i, "session %s left the cache without being handed to the store" % (k,)))
            elif saves[-1]["rec"]["access"] < want:
                out.append(F(i, "session %s left the cache but the store was given an older access time (%d < %d)" % (k, saves[-1]["rec"]["access"], want)))
            elif k in post.store and post.store[k]["access"] < want:
                out.append(F(i, "after session %s left the cache the store holds an older access time" % (k,)))
    return out


# ------------------------------------------------------------------ C18

def oracle_C18(t):
    out = []
    for i in range(t.n):
        st, o, cfg = t.steps[i], t.obs[i], t.cfgs[i]
        cks = o.get("cookies") or []
        for c in cks:
            if c["kind"] == "bad":
                what = {1: "has the wrong name", 2: "does not carry the configured attributes", 3: "carries a value that is not a session ID",
                        4: "is an expired cookie that still carries an ID", 5: "cannot be parsed"}.get(c.get("n"), "is malformed")
                out.append(F(i, "a Set-Cookie %s: %s" % (what, c.get("raw", ""))))
        if st["kind"] != "req" or not t.plain(i):
            continue
        pre, post = t.pre(i), t.post(i)
        kind, k = presented(st, t.pre_jar[i])
        ops = t.script_ops(i)
        destroyed = "destroy" in ops
        if o["res"] == "sess" and not destroyed and o.get("final"):
            fk = kt(o["final"]["key"])
            lives = [kt(c["key"]) for c in cks if c["kind"] == "live"]
            if cks and cks[-1]["kind"] == "delete":
                out.append(F(i, "a response that returns a session ends with the cookie expired"))
            if lives:
                if lives[-1] != fk:
                    out.append(F(i, "the last session cookie carries %s but the session's current ID is %s" % (lives[-1], fk)))
                r = post.L(lives[-1])
                if r is not None and r.get("ref"):
                    out.append(F(i, "the session cookie carries an ID that is itself replaced"))
            else:
                if not (kind == "key" and k == fk):
                    out.append(F(i, "no cookie was set although the client does not hold the session's current ID"))
            if not t.draws(i) and kind == "key" and pre.L(k) is not None and not pre.L(k).get("ref") and cks:
                out.append(F(i, "a cookie was set although the ID the client should use did not change"))
        if not destroyed and any(c["kind"] == "delete" for c in cks) and kind == "key":
            if post.L(k) is not None:
                out.append(F(i, "a deletion cookie was sent although the presented ID is still alive"))
        if any(c["kind"] == "delete" for c in cks) and kind != "key" and not destroyed:
            out.append(F(i, "a deletion cookie was sent to a client that presented no session ID"))
    for i, k in unbacked_cookies(t):
        out.append(F(i, "a session cookie was issued for %s, which is not a live ID: the store holds no record under it (response: %s)" % (k, t.obs[i]["res"])))
    return out


ORACLES = {"C01": oracle_C01, "C02": oracle_C02, "C03": oracle_C03, "C04": oracle_C04, "C05": oracle_C05,
           "C06": oracle_C06, "C07": oracle_C07, "C08": oracle_C08, "C09": oracle_C09, "C10": oracle_C10,
           "C11": oracle_C11, "C12": oracle_C12, "C18": oracle_C18}


def branch_counters(t):
    """How often the history exercised the branches the properties depend on."""
    c = {}

    def inc(k, n=1):
        c[k] = c.get(k, 0) + n
    for i in range(t.n):
        st, o = t.steps[i], t.obs[i]
        inc("step:" + st["kind"])
        inc("res:" + o["res"])
        if st["kind"] == "req":
            kind, k = presented(st, t.pre_jar[i])
            forged = st.get("forge_raw") is not None or st.get("forge_key") is not None
            inc("present:%s%s" % ("forged-" if forged else "", kind))
            pre = t.pre(i)
            if kind == "key":
                r = pre.L(k)
                if r is None:
                    inc("lookup:miss")
                else:
                    stale, ipok, uaok, idle, age = t.validity(i, r)
                    inc("lookup:ref" if r.get("ref") else "lookup:current")
                    if stale:
                        inc("start:stale")
                    elif not ipok:
                        inc("start:ip-anomaly")
                    elif not uaok:
                        inc("start:ua-anomaly")
                    elif not r.get("ref") and age >= t.cfgs[i]["idexpiry"]:
                        inc("start:rotate")
                    elif r.get("ref"):
                        inc("start:redirect" if o["res"] == "sess" else "start:ref-refused")
                    else:
                        inc("start:plain")
            for s_, r_ in zip(st.get("script") or [], o.get("script") or []):
                inc("op:%s:%s" % (s_["op"], r_["kind"]))
        for e in o.get("evs") or []:
            inc("ev:%s%s%s" % (e["op"], ":" + e["origin"] if e.get("origin") else "", "" if e["ok"] else ":failed"))
        for ck in o.get("cookies") or []:
            inc("cookie:" + ck["kind"])
    return c
