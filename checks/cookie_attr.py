"""Cookie attributes and the browser's cookie identity (C18; the jar clauses of
C07/C03): correspondence between Model/Cookie.v and the real code.

The harness family `cookieattr` (harness/cookie_attr_test.go) runs, for every
cookie template, the flows creation / plain / rotation / redirect / LogIn /
RegenerateID / Destroy / dangling reference / miss / miss+creation / stale /
creation+Destroy against /repo's current tree, records every Set-Cookie line
parsed into fields and what a real RFC 6265 store (net/http/cookiejar) of each
browser tab holds afterwards. This stage evaluates `render` and `jar_apply` of
Model/Cookie.v in Coq on the same (name, template, abstract cookies, request
context) and compares field by field (Model/Cookie.v: acases_diff).

stage(chk) -> True/False; called from checks/c18.py before the history stage.
replay(chk, path) re-runs the template of a replay file written here."""
import difflib
import json
import os

import vlib

FIELDS = {0: "number of cookies", 1: "Name", 2: "Value", 3: "Domain", 4: "Path", 5: "Secure", 6: "HttpOnly",
          7: "Partitioned", 8: "SameSite", 9: "MaxAge", 10: "Expires"}
SIZES = {"quick": 3456, "thorough": 3456}   # all templates (2 x 1728); quick: one seeded URL each, thorough: all three URLs
ALL_FLOWS = ["create", "plain", "rotate", "redirect", "login", "regenerate", "destroy", "dangling", "miss",
             "miss-create", "stale", "create-destroy"]
URLS = ["https://www.example.com/app/sub/page", "https://example.com/app/page", "https://a.b.example.com/app/x/y/z?q=1"]


def cases_text(recs):
    text = "From Coq Require Import String.\nFrom Sessions Require Import Model.Base Model.Sess Model.Hist Model.Cookie.\n"
    text += "Local Open Scope N_scope.\n"
    text += "Definition cases : list acase := [\n" + ";\n".join(r["coq"] for r in recs) + "].\n"
    text += "Definition M := Eval vm_compute in acases_diff 0 cases.\nPrint M.\n"
    return text


def model_diffs(recs, shard=120, prefix="cookieattr"):
    """[(record index, response index, cookie index or 1000+tab, field)]"""
    usable = [(i, r) for i, r in enumerate(recs) if r.get("coq")]
    jobs, maps = [], []
    for j in range(0, len(usable), shard):
        part = usable[j:j + shard]
        jobs.append(("%s_%d_%d" % (prefix, os.getpid(), j), cases_text([r for _, r in part])))
        maps.append([i for i, _ in part])
    results = vlib.coq_run_many(jobs)
    diffs = []
    for (rc, out), idx in zip(results, maps):
        flat = vlib.parse_printed_list(out, "M") if rc == 0 else None
        if flat is None or len(flat) % 4:
            raise vlib.Machinery("cookie model evaluation failed: %s" % out[-3000:])
        for k in range(0, len(flat), 4):
            diffs.append((idx[flat[k]], flat[k + 1], flat[k + 2], flat[k + 3]))
    return diffs


def describe(rec, ri, ci, field):
    rp = rec["resps"][ri]
    if ci >= 1000:
        pos = ci - 1000
        tab = rp["tabs"][pos] if pos < len(rp["tabs"]) else None
        seen = rp["jars"][pos] if pos < len(rp["jars"]) else None
        return ("after the response of flow '%s' a real RFC 6265 cookie store (net/http/cookiejar) holds %s under the session cookie's name, "
                "not what a browser applying the package's cookies as modelled (template attributes, same name/domain/path for live and deletion cookies) would hold"
                % (rp["flow"], {"none": "no cookie"}.get(seen, "the value " + str(seen))), "jar", tab)
    if field == 0:
        return ("flow '%s': %d Set-Cookie lines were written where %d are expected (%s)"
                % (rp["flow"], len(rp["lines"]), len(rp["expected"]), ", ".join(rp["expected"]) or "none"), "count", None)
    line = rp["lines"][ci] if ci < len(rp["lines"]) else None
    kind = rp["expected"][ci] if ci < len(rp["expected"]) else "?"
    return ("flow '%s': the %s cookie differs from the template-built cookie in %s: %s"
            % (rp["flow"], "deletion" if kind == "delete" else "live", FIELDS.get(field, str(field)), line), FIELDS.get(field, str(field)), None)


def replay_record(rec, ri, ci, field, seed):
    what, sig, tab = describe(rec, ri, ci, field)
    rp = rec["resps"][ri]
    return {"property": "C18", "what": what, "signature": "cookieattr:%s:%s" % (rp["flow"], sig),
            "cookieattr": {"tmpl": rec["tmpl"], "url": rec["url"], "seed": seed},
            "session_cookie_name": rec["name"], "template": {k: v for k, v in rec["template"].items() if k not in ("name", "value")},
            "template_object_shared": rec["shared"], "request_url": URLS[rec["url"]],
            "flow": rp["flow"], "expected_abstract_cookies": rp["expected"], "set_cookie_lines": rp["lines"],
            "observed": rp["observed"], "tabs": rp["tabs"], "jars_after": rp["jars"], "tab": tab,
            "flows_before": [{"flow": q["flow"], "lines": q["lines"], "tabs": q["tabs"], "jars_after": q["jars"]} for q in rec["resps"][:ri]],
            "replay": "./check C18 --replay <this file>   (harness family cookieattr, only=%d url=%d)" % (rec["tmpl"], rec["url"])}


def run_cases(binary, seed, n, args="", tag=""):
    p = os.path.join(vlib.BUILD, "cookieattr-%s-%d.jsonl" % (tag, os.getpid()))
    rc, out = vlib.run_harness(binary, "cookieattr", p, seed=seed, n=n, args=args)
    if rc != 0:
        raise vlib.Machinery("harness family cookieattr failed: %s" % out[-3000:])
    recs = vlib.read_jsonl(p)
    os.remove(p)
    return recs


def shape_diff():
    """Lines of Gen/CookieShape.v that differ from the pinned copy."""
    try:
        gen = open(os.path.join(vlib.COQ, "Gen", "CookieShape.v")).read()
        pin = open(os.path.join(vlib.COQ, "Proofs", "CookieRenderPinned.v")).read()
    except OSError as e:
        return "cannot read the tables: %s" % e
    gen = gen[gen.find("Definition cookie_sites"):].split("\n")
    pin = pin[pin.find("Definition cookie_sites_v1"):].replace("_v1 :", " :").split("\n")
    return "\n".join(l for l in difflib.unified_diff(pin, gen, "pinned (Model/Cookie.v was written against)", "current source", lineterm="", n=0)
                     if l[:1] in "+-")[:3000]


def evaluate(chk, recs, seed):
    """Returns (ok, coverage dict); writes violations."""
    cov = {}
    errors = [r for r in recs if r.get("error")]
    diffs = model_diffs(recs)
    flows, cookies, jars = {}, 0, 0
    attr = {"domain": 0, "path": 0, "secure": 0, "httponly": 0, "partitioned": 0, "samesite": 0, "maxage": 0, "expires": 0, "shared_template_object": 0}
    extras = []
    for i, r in enumerate(recs):
        t = r["template"]
        for k in ("domain", "path", "secure", "httponly", "partitioned", "samesite", "maxage", "expires"):
            if t.get(k):
                attr[k] += 1
        attr["shared_template_object"] += 1 if r.get("shared") else 0
        for ri, rp in enumerate(r.get("resps") or []):
            flows[rp["flow"]] = flows.get(rp["flow"], 0) + 1
            cookies += len(rp["lines"])
            jars += len(rp["jars"])
            for e in rp["extra"]:
                extras.append((i, ri, e))
    complete = [r for r in recs if not r.get("error") and [rp["flow"] for rp in r["resps"]] == ALL_FLOWS]
    cov.update({
        "cases": len(recs), "distinct_templates": len({r["tmpl"] for r in recs}),
        "distinct_nontrivial": len({r["tmpl"] for r in recs if any(r["template"].get(k) for k in ("domain", "path", "secure", "samesite", "maxage", "expires", "partitioned"))}),
        "rule": "one case per cookie template (cookieTemplate's 1728 combinations, with and without Partitioned); non-trivial = a template that sets at least one attribute besides HttpOnly",
        "flows_executed": flows, "responses": sum(flows.values()), "set_cookie_lines_compared": cookies, "cookie_store_readings_compared": jars,
        "templates_setting": attr, "request_urls": {URLS[u]: sum(1 for r in recs if r["url"] == u) for u in range(len(URLS))},
        "cases_with_all_flows": len(complete), "field_mismatches": len(diffs), "unparsed_or_odd_lines": len(extras), "flow_errors": len(errors),
        "samples": [{"name": r["name"], "template": r["template"], "url": URLS[r["url"]],
                     "responses": [{"flow": rp["flow"], "expected": rp["expected"], "lines": rp["lines"], "jars": rp["jars"]} for rp in r["resps"][:7]]}
                    for r in recs[:2]],
    })
    ok = not diffs and not extras and not errors
    chk.oblige("cookie model = implementation: %d Set-Cookie lines and %d cookie-store readings of %d responses under %d templates agree with render / jar_apply (Model/Cookie.v) field by field"
               % (cookies, jars, sum(flows.values()), cov["distinct_templates"]), ok)
    reported = set()
    # what a real cookie store ends up holding first, then single attributes
    for (i, ri, ci, field) in sorted(diffs, key=lambda d: (d[2] < 1000, d[0], d[1], d[2], d[3])):
        rec = recs[i]
        rr = replay_record(rec, ri, ci, field, seed)
        if rr["signature"] in reported or len(reported) >= 3:
            continue
        reported.add(rr["signature"])
        chk.violation(rr, signature=rr["signature"], what=rr["what"])
    for (i, ri, e) in extras[:1]:
        rec = recs[i]
        rp = rec["resps"][ri]
        chk.violation({"property": "C18", "what": "flow '%s': %s" % (rp["flow"], e), "cookieattr": {"tmpl": rec["tmpl"], "url": rec["url"], "seed": seed},
                       "session_cookie_name": rec["name"], "template": rec["template"], "set_cookie_lines": rp["lines"]})
    for r in errors[:1]:
        chk.violation({"property": "C18", "what": "a flow of the cookie family failed on the real code: %s" % r["error"],
                       "cookieattr": {"tmpl": r["tmpl"], "url": r["url"], "seed": seed}, "session_cookie_name": r["name"], "template": r["template"],
                       "responses_so_far": [{"flow": rp["flow"], "lines": rp["lines"], "result": rp["result"]} for rp in r.get("resps") or []]})
    return ok, cov


def stage(chk):
    """Returns True when the cookie layer is shown to hold on the current tree."""
    import time
    t0 = time.time()
    cov = chk.coverage.setdefault("cookieattr", {})
    # the model must be compiled; Properties/C18A (with the pin cookie_sites_pinned)
    # is built and judged theorem by theorem by the proof stage of run_property
    ok_model, log_, gen_ok = vlib.coq_build(["Model/Cookie", "Properties/C18A"])
    pin_ok = os.path.exists(os.path.join(vlib.COQ, "Properties", "C18A.vo")) and ok_model
    if not os.path.exists(os.path.join(vlib.COQ, "Model", "Cookie.vo")):
        raise vlib.Machinery("Model/Cookie.v does not compile: " + log_[-3000:])
    sdiff = "" if pin_ok else shape_diff()
    if not pin_ok:
        cov["cookie_shape_changed"] = sdiff
        cov["coq_log_tail"] = log_[-1200:]
    binary, blog = vlib.build_harness()
    if binary is None:
        # reported (with the log) by the history stage
        chk.oblige("cookie model = implementation (family cookieattr)", False)
        cov["harness_failed"] = blog[-1500:]
        return False
    if chk.tier == "thorough":
        # every template under each of the three request URLs
        recs = []
        for u in range(len(URLS)):
            recs += run_cases(binary, chk.seed + u, SIZES[chk.tier], args="url=%d" % u, tag="%s%d" % (chk.tier, u))
    else:
        recs = run_cases(binary, chk.seed, SIZES[chk.tier], tag=chk.tier)
    if not recs:
        raise vlib.Machinery("family cookieattr produced no cases")
    ok, c2 = evaluate(chk, recs, chk.seed)
    cov.update(c2)
    missing = [f for f in ALL_FLOWS if not cov["flows_executed"].get(f)]
    if ok and (missing or cov["cases_with_all_flows"] != len(recs)):
        raise vlib.Machinery("cookieattr self-test: flows never executed: %s" % missing)
    if ok and not pin_ok and sdiff.strip():
        # the source builds its cookies differently from what render was written
        # against, and the templates and flows explored show no difference
        chk.violation({"property": "C18", "no_longer_checks": "Properties/C18A.v: cookie_sites_pinned - an http.SetCookie site of the package (or a deleteCookie call) is not the one Model/Cookie.v's render was written against; the %d templates x %d flows explored show no differing Set-Cookie line"
                       % (cov["distinct_templates"], len(ALL_FLOWS)), "changed_sites": sdiff, "log": log_[-1500:]}, no_input=True)
    cov["wall_s"] = round(time.time() - t0, 1)
    return ok and pin_ok


def replay(chk, path):
    rep = json.load(open(path))
    ca = rep.get("cookieattr")
    if not ca:
        print(json.dumps(rep, indent=1)[:4000])
        return 0
    ok_model, log_, _ = vlib.coq_build(["Model/Cookie"])
    if not ok_model:
        print(log_[-2000:])
        return 2
    binary, blog = vlib.build_harness()
    if binary is None:
        print(blog[-2000:])
        return 2
    recs = run_cases(binary, ca.get("seed", 0), 1, args="only=%d url=%d" % (ca["tmpl"], ca["url"]), tag="replay")
    bad = 0
    for r in recs:
        if r.get("error"):
            print("flow error: %s" % r["error"])
            bad += 1
    for (i, ri, ci, field) in model_diffs(recs, prefix="cookieattr_replay"):
        print(describe(recs[i], ri, ci, field)[0])
        bad += 1
    for r in recs:
        for rp in r.get("resps") or []:
            for e in rp["extra"]:
                print("flow '%s': %s" % (rp["flow"], e))
                bad += 1
    if bad:
        print("VIOLATION property=%s replay=%s" % (chk.prop if chk else "C18", path))
        return 1
    print("no violation on the current tree")
    return 0
