"""Shared part of the C13 and C14 checks (DESIGN.md §5, C13/C14): one run of the
harness family "mutex" against the real lock manager per (tree, seed, tier),
replayed on the Coq model; cached under build/ so that the two checks share it.

Timed replay (audit task B3), part of the same bundle: harness family "mutextimed"
(harness/mutex_timed_test.go) runs timed scripts against the real manager with the
tunables set and the real ticker purging; evaluate_timed runs the same timed
schedules with MutexTimed.trun (Model/MutexTimedReplay.v) and compares table,
holders and waiters at every quiescent point, inside and outside the proviso."""
import glob
import json
import os
import time

import vlib

THEOREMS = {
    "C13": ["C13", "C13_count", "C13_invariant", "C13_needs_hold_bound_refuted", "C13_source_pinned"],
    "C14": ["C14_no_deadlock", "C14_terminates", "C14_one_per_release", "C14_spurious", "C14_independent"],
}

# timed layer (audit task A7): Properties/C13T.v, C14T.v - the same properties
# with admissibility derived from a time proviso (Model/MutexTimed.v)
THEOREMS_T = {
    "C13": ("C13T", ["C13T_step_erases", "C13T_run_erases", "C13T_admissible", "C13T_mutual_exclusion", "C13T_count",
                     "C13T_mutual_exclusion_short_holds", "C13T_mutual_exclusion_app", "C13T_lastaccess_covers_hold", "C13T_purge_keeps_locked",
                     "C13T_long_hold_refuted", "C13T_long_waiter_safe", "C13T_source_pinned", "C13T_time_uses_pinned"]),
    "C14": ("C14T", ["C14T_no_deadlock", "C14T_timed_progress", "C14T_terminates", "C14T_one_per_release"]),
}

ERRS = {1: "a step the replay needs is not enabled in the model", 2: "run leaves the admissible runs (generator error)",
        3: "lock table differs", 4: "holders differ", 5: "waiters differ", 6: "purge removed/kept entries against the rule",
        7: "model not quiescent where the real system was", 8: "observation breaks the quiescent invariant",
        9: "scripts not finished at the end"}

# timed replay (audit task B3): harness family "mutextimed" against Model/MutexTimedReplay.v
TERRS = dict(ERRS)
TERRS[10] = "lastAccess table and lock table have different domains in the model"
# script kinds that stay within the proviso by construction (every hold at most `stale` long, no spurious
# Unlock of a held key): oracle findings on these are violations of the property
T_ADM_KINDS = ("adm", "waiter", "boundary", "idle", "spurrefresh")
T_SCENARIOS = ("waiter", "boundary", "longhold", "idle", "spurrefresh", "strandedwaiter")

ASSUMPTIONS = [
    "granularity: every transition of Model/Mutex.v contains exactly one synchronising action (a channel rendezvous or a critical section of itemsMutex) and the counters are touched by the manager goroutine only, so every Go execution is a linearisation of model transitions (argued, not proved)",
    "Go scheduler fairness: a runnable goroutine eventually runs (needed to turn 'some admissible step is enabled' + the decreasing measure into 'every Lock returns')",
    "unbuffered-channel and sync.Mutex semantics of the Go runtime as specified",
    "property provisos, explicit in the theorems (adm / adm_run): a purge treats an entry as stale only if its lock count is 0; an Unlock of a key the caller does not hold is taken only while that key is not held. The first is derived, not assumed, in the timed layer (Properties/C13T.v, C14T.v over Model/MutexTimed.v: clock, lastAccess written by every getItem, staleness computed): its hypothesis tadm_run is about time only - at the instant of every purge loop every hold is at most mutexStaleMutexes old, counted from the latest getItem of the key at or before the grant (the grant itself does not write lastAccess, so an application must stay below the timeout by the scheduling latency between that getItem and the return of Lock); waiters may queue for any length of time",
    "the number of purge requests in a run is finite (initial `purges`, plus one per oversize creation); the real ticker is unbounded, so termination is per finite stretch",
]

TRUSTED = [
    "translator/mutex_time.go: uses of lastAccess, of the clock and of getItem in the package, compared in Coq with the forms Model/MutexTimed.v was written against (C13T_time_uses_pinned)",
    "translator/mutex_tbl.go: normalised statement texts of newMutexes/getItem/Lock/Unlock compared in Coq with the forms Model/Mutex.v was written against (C13_source_pinned)",
    "harness/mutex_test.go: worker goroutines, owner-word and quiescence oracles, canonical command order handed to the model",
    "harness/mutex_timed_test.go + Model/MutexTimedReplay.v: instants of commands and of the real ticker's purges as read from the synctest clock; the schedule builder (ticks of a sleep before the commands that follow it, internal steps at the instant of their command, grant to the goroutine observed to hold)",
    "checks/mutex_common.py: classification of harness findings",
]


def configs(tier):
    cfgs = []
    for mx in (1, 2, 3, 0):
        for ticker in (0, 1):
            for mode in ("seq", "mix"):
                cfgs.append({"max": mx, "ticker": ticker, "mode": mode})
    return cfgs


def cfg_args(c, extra=""):
    return ("max=%d ticker=%d mode=%s %s" % (c["max"], c["ticker"], c["mode"], extra)).strip()


def run_family(binary, args, seed, n, tag, timeout=900, family="mutex"):
    p = os.path.join(vlib.BUILD, "%s-%d-%s.jsonl" % (family, os.getpid(), tag))
    rc, out = vlib.run_harness(binary, family, p, seed=seed, n=n, args=args, timeout=timeout)
    recs = []
    if os.path.exists(p):
        try:
            recs = vlib.read_jsonl(p)
        except ValueError:
            recs = []
        os.remove(p)
    return rc, out, recs


def evaluate(recs, tag, shard=60):
    """Replay every record on the model; returns the list of codes."""
    jobs = []
    for i in range(0, len(recs), shard):
        text = "From Sessions Require Import Model.Base Model.Mutex.\n"
        text += "Definition cases : list mcase := [\n" + ";\n".join(r["coq"] for r in recs[i:i + shard]) + "].\n"
        text += "Definition M := Eval vm_compute in mutex_codes cases.\nPrint M.\n"
        jobs.append(("mutex_%s_%d_%d" % (tag, os.getpid(), i), text))
    codes = []
    for k, (rc, out) in enumerate(vlib.coq_run_many(jobs)):
        m = vlib.parse_printed_list(out, "M") if rc == 0 else None
        if m is None or len(m) != len(recs[k * shard:(k + 1) * shard]):
            raise vlib.Machinery("model evaluation failed on shard %d: %s" % (k, out[-2000:]))
        codes += m
    return codes


def stats_of(recs):
    st = {"scripts": len(recs), "rounds": 0, "commands": {}, "burst_rounds": 0, "rounds_with_waiters": 0,
          "hand_overs": 0, "entries_purged": 0, "entries_purged_stale": 0, "entries_purged_by_size": 0,
          "purge_requests_served": 0, "max_goroutines": 0, "max_keys": 0, "max_waiters_on_a_key": 0,
          "by_config": {}, "distinct_scripts": 0}
    seen = set()
    for r in recs:
        key = "max=%s ticker=%s %s" % (r["max"] if r["max"] < 1 << 20 else "default", int(r["ticker"]), r["kind"])
        st["by_config"][key] = st["by_config"].get(key, 0) + 1
        st["max_goroutines"] = max(st["max_goroutines"], r["G"])
        st["max_keys"] = max(st["max_keys"], r["K"])
        for k, v in r["counts"].items():
            st["commands"][k] = st["commands"].get(k, 0) + v
        if any(rd["waiters"] for rd in r["rounds"]):
            seen.add(json.dumps([[c for c in rd["cmds"]] for rd in r["rounds"]], sort_keys=True))
        prev_t, prev_w = {}, set()
        for rd in r["rounds"]:
            st["rounds"] += 1
            st["burst_rounds"] += 1 if rd["burst"] else 0
            st["purge_requests_served"] += rd["purges"]
            if rd["waiters"]:
                st["rounds_with_waiters"] += 1
                per = {}
                for g, k in rd["waiters"]:
                    per[k] = per.get(k, 0) + 1
                st["max_waiters_on_a_key"] = max(st["max_waiters_on_a_key"], max(per.values()))
            st["hand_overs"] += sum(1 for g, k in rd["holders"] if (g, k) in prev_w)
            now_t = {k: n for k, n in rd["table"]}
            for k in prev_t:
                if k not in now_t:
                    st["entries_purged"] += 1
                    if k in rd["stale"]:
                        st["entries_purged_stale"] += 1
                    else:
                        st["entries_purged_by_size"] += 1
            prev_t, prev_w = now_t, {(g, k) for g, k in rd["waiters"]}
    st["distinct_scripts"] = len(seen)
    return st


def slim(r, code=None):
    d = {k: r[k] for k in ("id", "kind", "G", "K", "max", "ticker", "viol")}
    d["rounds"] = [{k: rd[k] for k in ("cmds", "burst", "table", "holders", "waiters", "stale", "purges")} for rd in r["rounds"]]
    d["coq"] = r["coq"]
    if code is not None:
        d["model_code"] = code
        if code:
            d["model_disagreement"] = {"round": code // 16 - 1, "what": ERRS.get(code % 16, "?")}
    return d


# ------------------------------------------------------------ timed replay (B3)

def evaluate_timed(recs, tag, shard=100):
    """Run every record's timed schedule with MutexTimed.trun (Model/MutexTimedReplay.v:
    mutextimed_codes). Returns per record [code, within proviso, exclusion lost, events]."""
    jobs = []
    for i in range(0, len(recs), shard):
        text = "From Sessions Require Import Model.Base Model.Mutex Model.MutexTimed Model.MutexTimedReplay.\n"
        text += "Definition cases : list tcase := [\n" + ";\n".join(r["coq"] for r in recs[i:i + shard]) + "].\n"
        text += "Definition M := Eval vm_compute in mutextimed_codes cases.\nPrint M.\n"
        jobs.append(("mutextimed_%s_%d_%d" % (tag, os.getpid(), i), text))
    res = []
    for k, (rc, out) in enumerate(vlib.coq_run_many(jobs)):
        m = vlib.parse_printed_list(out, "M") if rc == 0 else None
        if m is None or len(m) != 4 * len(recs[k * shard:(k + 1) * shard]):
            raise vlib.Machinery("timed model evaluation failed on shard %d: %s" % (k, out[-2000:]))
        res += [m[j:j + 4] for j in range(0, len(m), 4)]
    return res


def timed_stats(recs, results):
    """Measured on the records. Ages are the check's own bookkeeping (instant of the last
    Lock/Unlock command on the key, forgotten when the entry disappears); they label the
    evidence and judge nothing."""
    st = {"scripts": len(recs), "quiescent_points": 0, "model_events": 0, "by_kind": {}, "by_tunables": {},
          "commands": {}, "ticker_purges": 0, "explicit_purges": 0,
          "within_proviso_by_model": 0, "outside_proviso_by_model": 0,
          "exclusion_lost_in_model": 0, "two_holders_observed_on_real_code": 0, "exclusion_lost_disagreements": 0,
          "purge_decisions": 0, "decisions_age_below_stale": 0, "decisions_age_exactly_stale_entry_kept": 0,
          "decisions_age_exactly_stale_entry_dropped": 0, "decisions_age_exactly_stale_followed_by_a_later_purge_before_the_observation": 0,
          "decisions_age_stale_plus_1_entry_dropped": 0,
          "entries_dropped": 0, "entries_dropped_idle": 0, "entries_dropped_while_held": 0,
          "entries_dropped_with_waiters_queued": 0, "holds_of_exactly_stale": 0, "holds_longer_than_stale": 0,
          "hand_overs": 0, "waiters_served_after_queueing_longer_than_stale": 0, "longest_queueing": 0,
          "waiters_never_served": 0, "distinct_scripts": 0}
    seen = set()
    for r, res in zip(recs, results):
        code, adm, lost, nev = res
        st["by_kind"][r["kind"]] = st["by_kind"].get(r["kind"], 0) + 1
        tk = "stale=%d freq=%d" % (r["stale"], r["freq"])
        st["by_tunables"][tk] = st["by_tunables"].get(tk, 0) + 1
        st["model_events"] += nev
        st["within_proviso_by_model" if adm else "outside_proviso_by_model"] += 1
        st["exclusion_lost_in_model"] += lost
        two = 0
        stale = r["stale"]
        la, table, holders, waiters, hold_from = {}, {}, {}, {}, {}
        nontrivial = False
        for p in r["points"]:
            st["quiescent_points"] += 1
            st["ticker_purges"] += len(p["ticks"])
            now_t = {k: n for k, n in p["table"]}
            purge_at = list(p["ticks"])
            for c in p["cmds"]:
                st["commands"][c["kind"]] = st["commands"].get(c["kind"], 0) + 1
                if c["kind"] == "purge":
                    st["explicit_purges"] += 1
                    purge_at.append(p["at"])
                else:
                    la[c["k"]] = p["at"]
            gone = [k for k in table if k not in now_t]
            over = set()   # entries already older than the timeout at an earlier purge of this point
            for idx, t in enumerate(purge_at):
                for k in list(table):
                    if k not in la:
                        continue
                    age = t - la[k]
                    st["purge_decisions"] += 1
                    if age < stale:
                        st["decisions_age_below_stale"] += 1
                    elif age == stale:
                        nontrivial = True
                        if k not in gone:
                            st["decisions_age_exactly_stale_entry_kept"] += 1
                        elif idx == len(purge_at) - 1:
                            st["decisions_age_exactly_stale_entry_dropped"] += 1
                        else:
                            st["decisions_age_exactly_stale_followed_by_a_later_purge_before_the_observation"] += 1
                    elif k not in over:
                        over.add(k)
                        if age == stale + 1 and k in gone:
                            st["decisions_age_stale_plus_1_entry_dropped"] += 1
            for k in gone:
                nontrivial = True
                st["entries_dropped"] += 1
                if table[k] == 0:
                    st["entries_dropped_idle"] += 1
                if any(hk == k for hk in holders.values()):
                    st["entries_dropped_while_held"] += 1
                if any(wk == k for wk, _ in waiters.values()):
                    st["entries_dropped_with_waiters_queued"] += 1
                la.pop(k, None)
            new_h = {g: k for g, k in p["holders"]}
            for g, k in new_h.items():
                if g in waiters and g not in holders:
                    st["hand_overs"] += 1
                    q = p["at"] - waiters[g][1]
                    st["longest_queueing"] = max(st["longest_queueing"], q)
                    if q > stale:
                        st["waiters_served_after_queueing_longer_than_stale"] += 1
            per = {}
            for g, k in p["holders"]:
                per[k] = per.get(k, 0) + 1
            two = two or int(any(v > 1 for v in per.values()))
            # holds ending at this point
            for g, k in holders.items():
                if g not in new_h:
                    d = p["at"] - hold_from.get(g, p["at"])
                    if d == stale:
                        st["holds_of_exactly_stale"] += 1
                    elif d > stale:
                        st["holds_longer_than_stale"] += 1
            for g in new_h:
                if g not in holders:
                    hold_from[g] = p["at"]
            new_w = {}
            for g, k in p["waiters"]:
                new_w[g] = waiters[g] if g in waiters else (k, p["at"])
            table, holders, waiters = now_t, new_h, new_w
        st["waiters_never_served"] += len(waiters)
        st["two_holders_observed_on_real_code"] += two
        if code == 0 and two != lost:
            st["exclusion_lost_disagreements"] += 1
        if nontrivial:
            seen.add(json.dumps([r["stale"], r["freq"], [[p["sleep"], p["cmds"]] for p in r["points"]]], sort_keys=True))
    st["distinct_scripts"] = len(seen)
    return st


def tslim(r, res=None):
    d = {k: r[k] for k in ("id", "kind", "G", "K", "stale", "freq", "max", "viol")}
    d["points"] = [{k: p[k] for k in ("at", "sleep", "ticks", "cmds", "table", "holders", "waiters")} for p in r["points"]]
    d["coq"] = r["coq"]
    if r["kind"] not in T_ADM_KINDS:
        d["viol_note"] = "script outside the proviso of C13/C14 by construction: the findings in `viol` are the expected loss of exclusion / stranded waiters, compared with the model, not reported"
    if res is not None:
        code = res[0]
        d["model_code"] = code
        d["model_says_within_proviso"] = bool(res[1])
        d["model_says_exclusion_lost"] = bool(res[2])
        if code:
            i = code // 16 - 1
            d["model_disagreement"] = {"point": i, "at": r["points"][i]["at"] if i < len(r["points"]) else None, "what": TERRS.get(code % 16, "?")}
    return d


def timed_bundle(chk, binary):
    """The timed replay family, run and evaluated; part of the shared bundle."""
    thorough = chk.tier == "thorough"
    t0 = time.time()
    ok, out, gen_ok = vlib.coq_build(["Model/MutexTimedReplay"])
    if not ok:
        return {"built": False, "log": out[-2500:], "stats": None, "codes_nonzero": 0, "crashes": [], "violating": [],
                "mismatching": [], "n_violating": 0, "samples": [], "adm_kind_outside_proviso": [], "s": round(time.time() - t0, 2)}
    runs, n = (8, 1500) if thorough else (4, 150)
    from concurrent.futures import ThreadPoolExecutor

    def one(i):
        return run_family(binary, "", chk.seed * 1000 + 9000 + i, n, "t%d" % i, family="mutextimed")
    with ThreadPoolExecutor(8) as ex:
        results = list(ex.map(one, range(runs)))
    recs, crashes = [], []
    for i, (rc, out, rs) in enumerate(results):
        recs += rs
        if rc != 0:
            crashes.append({"run": i, "rc": rc, "log": out[-3000:], "records_before_crash": len(rs)})
    res = evaluate_timed(recs, "b") if recs else []
    pairs = list(zip(recs, res))
    admv = [(r, c) for r, c in pairs if r["kind"] in T_ADM_KINDS and r["viol"]]
    first_of = {}
    for r, c in pairs:
        first_of.setdefault(r["kind"], tslim(r, c))
    return {
        "built": True,
        "stats": timed_stats(recs, res),
        "codes_nonzero": sum(1 for c in res if c[0]),
        "mismatch_kinds": {TERRS.get(e, "?"): sum(1 for c in res if c[0] and c[0] % 16 == e) for e in sorted({c[0] % 16 for c in res if c[0]})},
        "mismatching": [tslim(r, c) for r, c in pairs if c[0]][:10],
        "violating": [tslim(r, c) for r, c in admv][:20],
        "n_violating": len(admv),
        # generator self-test: a script meant to be within the proviso that the model puts outside it
        "adm_kind_outside_proviso": [r["id"] for r, c in pairs if r["kind"] in T_ADM_KINDS and c[0] == 0 and not c[1]][:5],
        "crashes": crashes,
        "samples": [first_of[k] for k in ("waiter", "longhold") if k in first_of],
        "s": round(time.time() - t0, 2),
    }



def bundle(chk, binary):
    """Run (or load) the shared harness/model bundle for this tree, seed, tier."""
    thorough = chk.tier == "thorough"
    src = [os.path.join(vlib.ROOT, "harness", "mutex_test.go"), os.path.join(vlib.ROOT, "harness", "core_test.go"),
           os.path.join(vlib.COQ, "Model", "Mutex.v"), os.path.abspath(__file__),
           os.path.join(vlib.ROOT, "harness", "mutex_timed_test.go"), os.path.join(vlib.COQ, "Model", "MutexTimed.v"),
           os.path.join(vlib.COQ, "Model", "MutexTimedReplay.v")]
    key = vlib.file_hash(src + vlib.repo_sources()) + "-%d-%s" % (chk.seed, chk.tier)
    path = os.path.join(vlib.BUILD, "mutex-bundle-%s.json" % key)
    with vlib.lock("mutex-bundle"):
        if os.path.exists(path):
            b = json.load(open(path))
            b["cached"] = True
            return b
        for old in glob.glob(os.path.join(vlib.BUILD, "mutex-bundle-*.json")):
            if time.time() - os.path.getmtime(old) > 6 * 3600:
                os.remove(old)
        t0 = time.time()
        n = 1500 if thorough else 200
        from concurrent.futures import ThreadPoolExecutor
        cfgs = configs(chk.tier)

        def one(ic):
            i, c = ic
            return run_family(binary, cfg_args(c), chk.seed * 1000 + i, n, "b%d" % i)
        with ThreadPoolExecutor(16) as ex:
            results = list(ex.map(one, enumerate(cfgs)))
        recs, crashes = [], []
        for c, (rc, out, rs) in zip(cfgs, results):
            recs += rs
            if rc != 0:
                crashes.append({"config": cfg_args(c), "rc": rc, "log": out[-3000:], "records_before_crash": len(rs)})
        rc, out, demo = run_family(binary, "mode=inadm", chk.seed, 1, "inadm")
        race = None
        if thorough:
            # Same workload under the race detector, with the package's default
            # tunables (writing them would race with the package's own ticker
            # goroutine started at init; see harness/mutex_test.go).
            rbin, rlog = vlib.build_harness(race=True)
            if rbin is None:
                race = {"built": False, "log": rlog[-1500:]}
            else:
                race = {"built": True, "scripts": 0, "reports": []}

                def rone(i):
                    return run_family(rbin, "tun=default mode=%s" % ("seq" if i % 2 else "mix"), chk.seed * 1000 + 500 + i, 80, "r%d" % i)
                with ThreadPoolExecutor(8) as ex:
                    for i, (rc2, out2, rs2) in enumerate(ex.map(rone, range(8))):
                        race["scripts"] += len(rs2)
                        recs += rs2
                        if "DATA RACE" in out2 or rc2 != 0:
                            race["reports"].append({"run": i, "rc": rc2, "log": out2[-3000:]})
        codes = evaluate(recs, "b") if recs else []
        timed = timed_bundle(chk, binary)
        b = {
            "timed": timed,
            "stats": stats_of(recs),
            "codes_nonzero": sum(1 for c in codes if c),
            "violating": [slim(r, c) for r, c in zip(recs, codes) if r["viol"]][:20],
            "mismatching": [slim(r, c) for r, c in zip(recs, codes) if c and not r["viol"]][:20],
            "n_violating": sum(1 for r in recs if r["viol"]),
            "crashes": crashes,
            "samples": [slim(r, c) for r, c in list(zip(recs, codes))[:2]],
            "inadm_demo": [slim(r) for r in demo],
            "race": race,
            "harness_s": round(time.time() - t0, 2),
            "cached": False,
        }
        with open(path, "w") as f:
            json.dump(b, f)
        return b


def search(chk, binary, want, budget_s=25):
    """Look for a script on which a real-observation oracle of the given kind
    (prefix list `want`) fails. Returns a slim record or None."""
    t0 = time.time()
    i = 0
    while time.time() - t0 < budget_s:
        for c in configs(chk.tier):
            rc, out, recs = run_family(binary, cfg_args(c, "rounds=45"), chk.seed * 1000 + 7000 + i, 60, "s%d" % i, timeout=120)
            i += 1
            for r in recs:
                if any(v.split(": ", 1)[-1].startswith(w) for v in r["viol"] for w in want):
                    return slim(r)
            if time.time() - t0 > budget_s:
                break
    return None


def matches(rec, want):
    return [v for v in rec["viol"] if any(v.split(": ", 1)[-1].startswith(w) for w in want)]


def run_property(chk, prop, want, other):
    """Common driver. `want`: prefixes of harness findings that are violations
    of this property; `other`: prefixes that belong to the sibling property."""
    ok, out = vlib.standard_proof_stage(chk, prop, THEOREMS[prop])
    tmod, tnames = THEOREMS_T[prop]
    if os.path.exists(os.path.join(vlib.COQ, "Properties", tmod + ".v")):
        first = dict(chk.coverage)
        tok, tout = vlib.standard_proof_stage(chk, tmod, tnames)
        for key in ("assumptions_printed", "coq_files_in_closure"):
            merged = first.get(key)
            if isinstance(merged, dict):
                merged = dict(merged, **(chk.coverage.get(key) or {}))
            elif isinstance(merged, list):
                merged = sorted(set(merged) | set(chk.coverage.get(key) or []))
            chk.coverage[key] = merged
        if first.get("coq_build_log_tail"):
            chk.coverage["coq_build_log_tail"] = first["coq_build_log_tail"]
        ok, out = ok and tok, out + tout
    else:
        chk.oblige("Properties/%s.v (timed layer) present" % tmod, False)
        ok = False
    chk.coverage["checker_cmd"] = ("make -j16 Properties/%s.vo Properties/%s.vo (coqc 8.16.1, after regenerating Gen/MutexTbl.v and Gen/MutexTime.v from mutexes.go); "
                                   "coqc on generated cases files (Eval vm_compute in mutex_codes cases)" % (prop, tmod)) + \
        ("; coqchk -silent -o -Q . Sessions Sessions.Properties.%s Sessions.Properties.%s" % (prop, tmod) if chk.tier == "thorough" else "")
    if ok and chk.tier == "thorough":
        with vlib.lock("coq"):
            try:
                rc, cout = vlib.sh(["timeout", "900", "coqchk", "-silent", "-o", "-Q", ".", "Sessions",
                                    "Sessions.Properties." + prop, "Sessions.Properties." + tmod], cwd=vlib.COQ)
            except Exception as e:  # noqa: BLE001
                rc, cout = 1, str(e)
        good = rc == 0 and "* Axioms: <none>" in cout
        chk.oblige("coqchk re-checks the .vo closure of Properties/%s.v and %s.v: no axioms" % (prop, tmod), good)
        chk.coverage["coqchk_tail"] = cout[-600:]
        ok = ok and good
    binary, blog = vlib.build_harness()
    chk.oblige("harness builds against the current tree", binary is not None)
    if binary is None:
        chk.violation({"property": prop, "no_longer_checks": "harness build", "log": blog[-3000:]}, no_input=True)
        return finish(chk)
    b = bundle(chk, binary)
    st = b["stats"]
    chk.coverage.update({
        "evaluations": st["scripts"], "distinct_nontrivial": st["distinct_scripts"],
        "rule": "one evaluation = one generated script (G<=12 goroutines, K<=4 keys, table limit 1/2/3/default, ticker on/off, one-at-a-time or bursts) run against the real lock manager to quiescence after every round and replayed on the model; non-trivial = at least one quiescent point with a goroutine waiting for a held key; distinct by command sequence",
        "traces_validated_against_impl": st["scripts"],
        "rounds": st["rounds"], "input_kinds": st["commands"], "config_histogram": st["by_config"],
        "branch_counters": {k: st[k] for k in ("burst_rounds", "rounds_with_waiters", "hand_overs", "entries_purged",
                                               "entries_purged_stale", "entries_purged_by_size", "purge_requests_served",
                                               "max_goroutines", "max_keys", "max_waiters_on_a_key")},
        "model_impl_mismatches": b["codes_nonzero"], "oracle_evaluations_on_impl": st["rounds"],
        "scripts_with_oracle_failures": b["n_violating"], "harness_crashes": len(b["crashes"]),
        "bundle_cached": b["cached"], "harness_s": b["harness_s"],
        "samples": b["samples"][:2],
        "inadmissible_demo": {"what": "a key held beyond the staleness timeout and purged (outside the proviso; mirrors C13_needs_hold_bound_refuted on the real code)",
                              "findings": [v for r in b["inadm_demo"] for v in r["viol"]]},
        "race_detector": b["race"],
    })
    t = b["timed"]
    ts = t["stats"] or {}
    chk.coverage["timed_replay"] = {
        "what": "harness family mutextimed: the real lock manager in a synctest bubble with the tunables set (stale/freq in units of 1 s: see tunables_histogram), the real ticker purging, explicit sleeps between commands so that every event has a known virtual instant; "
                "the same timed schedule is run with MutexTimed.trun (Model/MutexTimedReplay.v builds it as a list of timed events; which entries a purge drops is computed by the model from its clock and lastAccess, not taken from the observation) "
                "and table (keys, lock counts), holders and waiters are compared at every quiescent point; schedules outside the proviso (holds longer than the timeout, spurious Unlocks of held keys) are compared like the others, including the loss of exclusion",
        "built": t["built"], "evaluations": ts.get("scripts", 0), "distinct_nontrivial": ts.get("distinct_scripts", 0),
        "rule": "one evaluation = one timed script; non-trivial = some purge dropped an entry or met an entry of age exactly mutexStaleMutexes; distinct by tunables and (sleep, command) sequence",
        "quiescent_points_compared": ts.get("quiescent_points", 0), "model_events_run": ts.get("model_events", 0),
        "kind_histogram": ts.get("by_kind", {}), "tunables_histogram": ts.get("by_tunables", {}), "input_kinds": ts.get("commands", {}),
        "branch_counters": {k: v for k, v in ts.items() if isinstance(v, int) and k not in ("scripts", "quiescent_points", "model_events", "distinct_scripts")},
        "model_impl_mismatches": t["codes_nonzero"], "mismatch_kinds": t.get("mismatch_kinds", {}),
        "scripts_within_proviso_with_oracle_failures": t["n_violating"], "harness_crashes": len(t["crashes"]),
        "samples": t["samples"], "seconds": t["s"],
    }
    if t["built"] and not t["crashes"] and not t["codes_nonzero"] and not t["n_violating"]:
        # generator self-test: the situations the timed layer is about were exercised and classified as intended
        tneed = ["decisions_age_exactly_stale_entry_kept", "decisions_age_stale_plus_1_entry_dropped", "entries_dropped_idle",
                 "entries_dropped_while_held", "entries_dropped_with_waiters_queued", "holds_of_exactly_stale", "holds_longer_than_stale",
                 "waiters_served_after_queueing_longer_than_stale", "exclusion_lost_in_model", "within_proviso_by_model", "outside_proviso_by_model"]
        if not all(ts.get(k, 0) > 0 for k in tneed) or any(ts["by_kind"].get(k, 0) == 0 for k in T_SCENARIOS + ("adm", "free")):
            raise vlib.Machinery("timed generator self-test: a branch counter is zero: %s" % json.dumps(ts))
        if t["adm_kind_outside_proviso"]:
            raise vlib.Machinery("timed generator: scripts meant to stay within the proviso are outside tadm in the model: %s" % t["adm_kind_outside_proviso"])
        if ts["exclusion_lost_disagreements"]:
            raise vlib.Machinery("timed replay: exclusion-lost flags of model and harness differ although every point agreed: %s" % json.dumps(ts))

    # generator self-test: the branches the properties depend on were exercised
    need = ["rounds_with_waiters", "hand_overs", "entries_purged_by_size", "entries_purged_stale", "burst_rounds"]
    cover_ok = all(st[k] > 0 for k in need) and st["commands"].get("spur", 0) > 0 and st["commands"].get("purge", 0) > 0
    if not cover_ok and not b["n_violating"] and not b["crashes"] and not b["codes_nonzero"]:
        raise vlib.Machinery("generator self-test: a branch counter is zero: %s" % json.dumps(st))
    if b["mismatching"] and all(m["model_code"] % 16 == 2 for m in b["mismatching"]) and not b["n_violating"]:
        raise vlib.Machinery("generator produced an inadmissible run: %s" % json.dumps(b["mismatching"][0])[:3000])
    demo_ok = any(v.split(": ", 1)[-1].startswith("mutual exclusion") for r in b["inadm_demo"] for v in r["viol"])
    chk.coverage["inadmissible_demo"]["two_holders_observed"] = demo_ok

    mine = [r for r in b["violating"] if matches(r, want)]
    tmine = [r for r in t["violating"] if matches(r, want)]
    chk.oblige("oracles of %s hold on every quiescent point of %d scripts of the real code" % (prop, st["scripts"]), not mine and not b["crashes"])
    chk.oblige("model = implementation on %d scripts (%d rounds)" % (st["scripts"], st["rounds"]), b["codes_nonzero"] == 0 and not b["crashes"])
    chk.oblige("oracles of %s hold on every quiescent point of the %d timed scripts that stay within the proviso (holds of at most, and of exactly, the timeout)"
               % (prop, sum(ts.get("by_kind", {}).get(k, 0) for k in T_ADM_KINDS)), t["built"] and not tmine and not t["crashes"])
    chk.oblige("timed model (MutexTimed.trun) = implementation on %d timed schedules (%d quiescent points; %d schedules outside the proviso, exclusion lost in %d, by both)"
               % (ts.get("scripts", 0), ts.get("quiescent_points", 0), ts.get("outside_proviso_by_model", 0), ts.get("exclusion_lost_in_model", 0)),
               t["built"] and t["codes_nonzero"] == 0 and not t["crashes"] and ts.get("scripts", 0) > 0)
    if b["race"] is not None:
        chk.oblige("race detector silent on the lock manager workload", bool(b["race"].get("built")) and not b["race"].get("reports"))

    replay_cmd = "cd /verif && ./check %s --replay <this file>" % prop
    treplay_cmd = replay_cmd + "   (re-executes the timed script: sleeps and commands at the recorded instants)"
    if mine or tmine:
        for r in tmine[:1 if mine else 3]:
            chk.violation({"property": prop, "input": {"config": {"stale_units": r["stale"], "ticker_every_units": r["freq"], "unit": "1s", "G": r["G"], "K": r["K"]},
                                                        "timed_commands": [{"at": p["at"], "after_sleeping": p["sleep"], "cmds": p["cmds"]} for p in r["points"]]},
                           "findings": matches(r, want), "timed_record": r, "seed": chk.seed, "replay": treplay_cmd})
        for r in mine[:3]:
            chk.violation({"property": prop, "input": {"config": {"max": r["max"], "ticker": r["ticker"], "G": r["G"], "K": r["K"]},
                                                        "rounds": [rd["cmds"] for rd in r["rounds"]]},
                           "findings": matches(r, want), "record": r, "seed": chk.seed, "replay": replay_cmd})
        return finish(chk)
    broken = []
    if not t["built"]:
        broken.append("Model/MutexTimedReplay.v does not build: " + t.get("log", "")[-1500:])
    if t["codes_nonzero"]:
        broken.append("timed correspondence: MutexTimed.trun differs from the real lock manager at a quiescent point (%s)" % json.dumps(t.get("mismatch_kinds", {})))
    if t["crashes"]:
        broken.append("harness process crashed (timed family)")
    if t["n_violating"]:
        broken.append("oracle of the sibling property failed on the real code within the proviso (timed family)")
    if not ok:
        broken.append("theorems of Properties/%s.v or %s.v (or the pins over Gen/MutexTbl.v, Gen/MutexTime.v)" % (prop, tmod))
    if b["codes_nonzero"]:
        broken.append("correspondence: model replay differs from the real lock manager")
    if b["crashes"]:
        broken.append("harness process crashed")
    if b["n_violating"]:
        broken.append("oracle of the sibling property failed on the real code")
    if b["race"] is not None and (not b["race"].get("built") or b["race"].get("reports")):
        broken.append("race detector")
    if broken:
        found = search(chk, binary, want)
        if found:
            chk.violation({"property": prop, "input": {"config": {"max": found["max"], "ticker": found["ticker"], "G": found["G"], "K": found["K"]},
                                                        "rounds": [rd["cmds"] for rd in found["rounds"]]},
                           "findings": matches(found, want), "record": found, "seed": chk.seed, "replay": replay_cmd})
        else:
            first = (b["mismatching"] or b["violating"] or [None])[0]
            tfirst = (t["mismatching"] or t["violating"] or [None])[0]
            chk.violation({"property": prop, "no_longer_checks": broken, "first_differing_script": first, "timed_record": tfirst,
                           "crashes": (b["crashes"] + t["crashes"])[:2], "obligations": chk.obligations, "log": out[-3000:] if not ok else "",
                           "race": b["race"], "seed": chk.seed, "replay": replay_cmd}, no_input=True)
    return finish(chk)


def finish(chk):
    return chk.finish(trusted_base=TRUSTED, extra_assumptions=ASSUMPTIONS)


def replay(chk, path):
    """Re-execute the script of a replay file against the current tree and
    replay the outcome on the model."""
    d = json.load(open(path))
    rec = d.get("record") or d.get("first_differing_script")
    if not rec and d.get("timed_record"):
        return replay_timed(chk, d["timed_record"])
    if not rec:
        print(json.dumps(d, indent=1))
        return 0
    binary, blog = vlib.build_harness()
    if binary is None:
        print(blog[-3000:])
        return 1
    sp = os.path.join(vlib.BUILD, "mutex-replay-%d.json" % os.getpid())
    with open(sp, "w") as f:
        json.dump(rec, f)
    mx = rec["max"] if rec["max"] < 1 << 20 else 0
    rc, out, recs = run_family(binary, "max=%d ticker=%d script=%s" % (mx, int(rec["ticker"]), sp), chk.seed, 1, "replay")
    os.remove(sp)
    if not recs:
        print("harness failed (rc=%d):\n%s" % (rc, out[-3000:]))
        return 1
    ok, cout, gen_ok = vlib.coq_build(["Model/Mutex"])
    codes = evaluate(recs, "replay") if ok else [None]
    r = recs[0]
    for i, rd in enumerate(r["rounds"]):
        print("round %d: %s -> table=%s holders=%s waiters=%s%s" % (i, json.dumps(rd["cmds"]), rd["table"], rd["holders"], rd["waiters"],
                                                                    "  !! " + "; ".join(rd["viol"]) if rd.get("viol") else ""))
    print("findings on the real code:", r["viol"])
    c = codes[0]
    print("model replay:", "agrees" if c == 0 else ("round %d: %s" % (c // 16 - 1, ERRS.get(c % 16, "?")) if c else "not evaluated"))
    return 1 if (r["viol"] or c) else 0


def replay_timed(chk, rec):
    """Re-execute a timed script (family mutextimed) against the current tree and run the
    same timed schedule on the model."""
    binary, blog = vlib.build_harness()
    if binary is None:
        print(blog[-3000:])
        return 1
    sp = os.path.join(vlib.BUILD, "mutextimed-replay-%d.json" % os.getpid())
    with open(sp, "w") as f:
        json.dump(rec, f)
    rc, out, recs = run_family(binary, "script=%s" % sp, chk.seed, 1, "replay", family="mutextimed")
    os.remove(sp)
    if not recs:
        print("harness failed (rc=%d):\n%s" % (rc, out[-3000:]))
        return 1
    ok, cout, gen_ok = vlib.coq_build(["Model/MutexTimedReplay"])
    res = evaluate_timed(recs, "replay") if ok else [None]
    r = recs[0]
    print("stale=%d freq=%d (units of 1 s), G=%d K=%d, kind %s" % (r["stale"], r["freq"], r["G"], r["K"], r["kind"]))
    for i, p in enumerate(r["points"]):
        print("point %d t=%d: ticker purges at %s, %s -> table=%s holders=%s waiters=%s%s"
              % (i, p["at"], p["ticks"], json.dumps(p["cmds"]), p["table"], p["holders"], p["waiters"],
                 "  !! " + "; ".join(p["viol"]) if p.get("viol") else ""))
    within = r["kind"] in T_ADM_KINDS
    print("findings on the real code (%s the proviso by construction):" % ("within" if within else "outside"), r["viol"])
    c = res[0]
    if c is None:
        print("model: not evaluated (Model/MutexTimedReplay.v does not build)")
        return 1
    print("timed model:", "agrees at every point" if c[0] == 0 else "point %d: %s" % (c[0] // 16 - 1, TERRS.get(c[0] % 16, "?")),
          "| within proviso (tadm): %s | exclusion lost: %s | events: %d" % (bool(c[1]), bool(c[2]), c[3]))
    return 1 if ((within and r["viol"]) or c[0]) else 0
