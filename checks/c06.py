"""C06 — see DESIGN.md §5. Shared machinery: checks/hist_common.py, checks/oracles.py.
The peer address as the string Start sees (Model/AddrRe.v, Properties/C06A.v,
generated table Gen/AddrRe.v, harness family addrre): checks/addr_re.py."""
import json

from checks import addr_re, hist_common


def run(chk):
    addr_re.stage(chk)
    return hist_common.run_property(chk, "C06")


def replay(chk, path):
    if "addrre" in json.load(open(path)):
        return addr_re.replay(chk, path)
    return hist_common.replay_property(chk, "C06", path)
