"""C08 — see DESIGN.md §5. Shared machinery: checks/hist_common.py, checks/oracles.py.
User-wide calls made from inside a handler (Model/HandlerUser.v,
Properties/C08U.v, harness family handleruser): checks/handler_user.py."""
import json

from checks import handler_user, hist_common


def run(chk):
    handler_user.stage(chk)
    return hist_common.run_property(chk, "C08")


def replay(chk, path):
    if "handleruser" in json.load(open(path)):
        return handler_user.replay(chk, path)
    return hist_common.replay_property(chk, "C08", path)
