"""C12 — cache size, LRU, idle sweep, flush before drop (DESIGN.md §5, C12): the
shared history machinery plus the exhaustive small-scope enumeration the
property's quantifier asks for (family cacheenum)."""
import os

import vlib
from checks import hist_common, oracles


def enum(chk):
    binary, blog = vlib.build_harness()
    if binary is None:
        return
    thorough = chk.tier == "thorough"
    length = 4 if thorough else 3
    recs = hist_common.run_family(binary, "cacheenum", chk.seed, 0, "len=%d cfgs=%s" % (length, "all" if thorough else "small"), tag="c12enum")
    bad = hist_common.eval_oracle("C12", recs)
    errors = [r for r in recs if r.get("error")]
    # the model side on a sample of the sequences (every sequence is judged by the oracle)
    step = max(1, len(recs) // (1500 if thorough else 250))
    sample = [r for i, r in enumerate(recs) if i % step == 0]
    diffs = [d for d in hist_common.model_diffs(sample, prefix="c12enum") if set(d[2]) & hist_common.PROJECTION["C12"]]
    chk.coverage["exhaustive_enumeration"] = {"operation_sequences": len(recs), "max_length": length, "alphabet": ["R0", "R1", "R2+Set", "R0+RegenerateID", "R1+Destroy", "wait 5s", "PurgeSessions", "N:=1"],
                                             "configurations": "N in {-1,0,1,2,3} x SessionCacheExpiry in {2s, 1h, forever}" if thorough else "N in {-1,0,1,2} x SessionCacheExpiry in {2s, forever}", "model_compared_on": len(sample), "model_mismatches": len(diffs), "exhaustive": True}
    chk.oblige("oracle holds on all %d operation sequences up to length %d (exhaustive small scope)" % (len(recs), length), not bad and not errors)
    chk.oblige("model = implementation on %d sampled sequences of the enumeration" % len(sample), not diffs)
    for r in errors[:1]:
        chk.violation({"property": "C12", "what": "the real code crashed or deadlocked", "history": r["history"], "detail": r["error"][-2000:]})
    shown = set()
    for ri, x in bad:
        key = x["what"].split("(")[0][:40]
        if key in shown or len(shown) >= 2:
            continue
        shown.add(key)
        chk.violation(hist_common.replay_record("C12", recs[ri], x), what=x["what"])
    if not bad and diffs:
        ri, stepn, fields = diffs[0]
        chk.violation({"property": "C12", "no_longer_checks": "correspondence on the exhaustive cache enumeration", "history": sample[ri]["history"],
                       "first_difference": {"step": stepn, "fields": [hist_common.FIELD_NAMES[f] for f in fields]}}, no_input=True)


def run(chk):
    enum(chk)
    return hist_common.run_property(chk, "C12")


def replay(chk, path):
    return hist_common.replay_property(chk, "C12", path)
