"""Shared machinery of the C16 (gob) and C17 (JSON) checks: running the codec
families of the harness, evaluating Model/Codec.v on the observed cases,
turning failures into replays. See DESIGN.md §5 C16/C17."""
import hashlib
import json
import os
from concurrent.futures import ThreadPoolExecutor

import vlib

CORPUS = os.path.join(vlib.ROOT, "corpus")

PREAMBLE_MODEL = ("From Coq Require Import String.\n"
                  "From Sessions Require Import Model.Base Model.Codec Gen.Layout.\nLocal Open Scope N_scope.\n")
# the property's own oracle needs no generated table
PREAMBLE_SPEC = ("From Coq Require Import String.\n"
                 "From Sessions Require Import Model.Base Model.Codec.\nLocal Open Scope N_scope.\n")


def harness_records(binary, family, seed, n, args="", timeout=3000):
    """Run one harness family; returns (records, log). A non-zero exit raises
    Machinery unless the records file is usable."""
    path = os.path.join(vlib.BUILD, "%s-%d-%s.jsonl" % (family, os.getpid(), hashlib.sha256((args + str(seed) + str(n)).encode()).hexdigest()[:8]))
    rc, out = vlib.run_harness(binary, family, path, seed=seed, n=n, args=args, timeout=timeout)
    if rc != 0:
        try:
            os.remove(path)
        except OSError:
            pass
        raise vlib.Machinery("harness family %s failed (rc %d): %s" % (family, rc, out[-3000:]))
    recs = vlib.read_jsonl(path)
    os.remove(path)
    return recs


def coq_lists(tag, ctype, terms, defs, preamble, shard_chars=250000, names=("M",)):
    """Evaluate list-valued functions over `terms` (Coq terms of type ctype)
    in parallel shards. defs: {name: function term applied to `cases`}.
    Returns {name: sorted global indices}, or None when the evaluation does not
    compile (e.g. Gen/Layout.v was rejected)."""
    total = sum(len(t) for t in terms)
    shard_chars = max(60000, min(shard_chars, total // 16 + 1))
    shards, cur, size, start = [], [], 0, 0
    for i, t in enumerate(terms):
        cur.append(t)
        size += len(t)
        if size >= shard_chars:
            shards.append((start, cur))
            cur, size, start = [], 0, i + 1
    if cur:
        shards.append((start, cur))
    jobs = []
    for k, (base, ts) in enumerate(shards):
        text = preamble + "Definition cases : list %s := [\n%s].\n" % (ctype, ";\n".join(ts))
        for name, fn in defs.items():
            text += "Definition %s := Eval vm_compute in %s cases.\nPrint %s.\n" % (name, fn, name)
        jobs.append(("%s_%d_%d" % (tag, os.getpid(), k), text))
    results = vlib.coq_run_many(jobs)
    out = {name: [] for name in defs}
    for (base, ts), (rc, log) in zip(shards, results):
        if rc != 0:
            return None, log
        for name in defs:
            l = vlib.parse_printed_list(log, name)
            if l is None:
                return None, log
            out[name] += [base + x for x in l]
    return out, ""


def coq_bool(expr, preamble=PREAMBLE_MODEL):
    """Evaluate a closed boolean of the development; None if it does not compile."""
    rc, out = vlib.coq_run("flag_%d" % os.getpid(), preamble + "Definition B := Eval vm_compute in (%s).\nPrint B.\n" % expr)
    if rc != 0:
        return None
    if "B = true" in out:
        return True
    if "B = false" in out:
        return False
    return None


def stage(chk, name, t0):
    import time
    chk.coverage.setdefault("stage_seconds", {})[name] = round(time.time() - t0, 1)
    vlib.log("[%s] %s: %.1fs" % (chk.prop, name, time.time() - t0))


def layout_error():
    """None when Gen/Layout.v is the translator's output for the current tree
    and its compiled form is up to date; otherwise the reason."""
    v = os.path.join(vlib.COQ, "Gen", "Layout.v")
    vo = v + "o"
    if not os.path.exists(v):
        return "Gen/Layout.v was not generated"
    text = open(v).read()
    if "Translation failed." in text:
        with vlib.lock("coq"):
            if os.path.exists(vo):
                os.remove(vo)
        return text[:1500]
    if not os.path.exists(vo) or os.path.getmtime(vo) < os.path.getmtime(v):
        return "Gen/Layout.v does not compile (see coq_build_log_tail)"
    return None


def bump(hist, keys):
    for k in keys:
        hist[k] = hist.get(k, 0) + 1


def kind_histogram(recs):
    """Input kinds, with the per-field detail folded to the first component."""
    hist = {}
    for r in recs:
        ks = set()
        for k in r.get("kind") or []:
            parts = k.split(",")
            ks.add(parts[0])
            for p in parts[1:]:
                ks.add(k.split(":")[0] + ":" + p)
        bump(hist, sorted(ks))
    return dict(sorted(hist.items()))


REQUIRED_KINDS = ["data:nil", "data:empty", "data:small", "data:large", "user:none", "user:int", "user:string",
                  "shape:placeholder", "shape:ordinary", "shape:reference-with-data", "load:error", "load:nil",
                  "ua:edge", "ua:random", "created:z:utc", "created:z:fixed-minutes", "created:z:random-minutes",
                  "created:t:year1", "created:t:year9999", "created:t:anywhere", "ip:s:bytes", "ip:s:utf8", "ip:s:empty"]


def generator_selftest(chk, hist, required, what):
    """A generator that no longer reaches an input class the property depends
    on must not pass silently."""
    missing = [k for k in required if not hist.get(k)]
    chk.coverage.setdefault("generator_selftest_missing", []).extend(missing)
    chk.oblige("generator self-test: every required input class of the %s occurred" % what, not missing)
    return not missing


def digest(obj):
    return hashlib.sha256(json.dumps(obj, sort_keys=True).encode()).hexdigest()


def session_replay(prop, rec, why, extra=None):
    """The replay file of a failing round trip."""
    rp = {
        "property": prop, "codec": rec["codec"], "mode": rec["mode"], "session": rec["in"],
        "observed": rec["out"], "promised": rec.get("want"), "wire_hex": rec.get("wire", ""),
        "wire_text": bytes.fromhex(rec.get("wire", "")).decode("utf8", "replace")[:1500] if rec["codec"] == "json" else None,
        "kind": rec.get("kind"), "why": why,
        "go": "s := sessions.VerifMake(<session>); b, _ := s.%s(); var d sessions.Session; err := d.%s(b)  // LoadUser mode %d (0: user with that ID, 1: error, 2: nil)"
              % ((("GobEncode", "GobDecode") if rec["codec"] == "gob" else ("MarshalJSON", "UnmarshalJSON")) + (rec["mode"],)),
        "replay_cmd": "./check %s --replay <this file>" % prop,
    }
    if extra:
        rp.update(extra)
    return rp


def sample(rec):
    s = {k: rec.get(k) for k in ("codec", "kind", "mode", "in_domain", "spec_ok")}
    s["out_class"] = rec["out"]["class"]
    i = rec["in"]
    s["in"] = {"created": i["created"], "access": i["access"], "ip_hex": i["ip"][:64], "ua": i["ua"], "ref_hex": i["ref"][:64],
               "user": i["user"], "data_nil": i["data_nil"], "data_keys": len(i["data"] or [])}
    return s


def nontrivial(rec):
    """A round trip is non-trivial when the session is not the zero session
    and the codec was actually exercised end to end or refused with a reason."""
    i = rec["in"]
    return bool(i["ip"] or i["ref"] or i["user"] or i["data"] or i["ua"] != "0" or i["created"]["sec"] != -62135596800)


def extra_modules(prop):
    """[(module, theorem names)] for every Properties/<prop><LETTER>.v."""
    import glob
    import re
    out = []
    for f in sorted(glob.glob(os.path.join(vlib.COQ, "Properties", prop + "?.v"))):
        m = re.match(r"^(%s[A-Z])\.v$" % prop, os.path.basename(f))
        if not m:
            continue
        text = re.sub(r"\(\*.*?\*\)", "", open(f).read(), flags=re.S)
        names = re.findall(r"^\s*(?:Theorem|Lemma|Corollary)\s+(\w+)", text, flags=re.M)
        if names:
            out.append((m.group(1), names))
    return out


class CodecCheck:
    """One run of the C16 or C17 check."""

    def __init__(self, chk, prop, codec, theorems, lemmas=None):
        self.chk, self.prop, self.codec, self.theorems = chk, prop, codec, theorems
        self.lemmas = lemmas or {}   # theorem -> (proof module, lemma it is an `exact` of)
        self.thorough = chk.tier == "thorough"
        self.failing = []          # (record, why) with a concrete input
        self.no_input = []         # dicts: what no longer checks, without input
        self.recs_all = []
        self.hist = {}

    # ---- stages -------------------------------------------------------
    def proofs(self):
        ok, out = vlib.standard_proof_stage(self.chk, self.prop, self.theorems)
        # further statement files Properties/<prop><LETTER>.v (audit round:
        # <prop>I.v = the theorems with the library hypotheses instantiated):
        # every theorem in them is an obligation too
        for mod, names in extra_modules(self.prop):
            first = dict(self.chk.coverage)
            # (Model/CodecLawCase.v: case records of harness family codeclaws, evaluated by checks/codec_laws.py)
            xok, xout = vlib.standard_proof_stage(self.chk, mod, names, extra_targets=["Model/CodecLawCase"] if mod == "C17I" else None)
            for key in ("assumptions_printed", "coq_files_in_closure", "forbidden_scan"):
                a, b = first.get(key), self.chk.coverage.get(key)
                if isinstance(a, dict):
                    self.chk.coverage[key] = dict(a, **(b or {}))
                elif isinstance(a, list):
                    self.chk.coverage[key] = sorted(set(a) | set(b or []))
            if not first.get("gen_tables_ok", True):
                self.chk.coverage["gen_tables_ok"] = False
            if first.get("coq_build_log_tail"):
                self.chk.coverage["coq_build_log_tail"] = first["coq_build_log_tail"]
            ok, out = ok and xok, out + xout
        self.proof_ok, self.proof_log = ok, out
        # can the regenerated tables be used at all? (a Layout.vo left over from
        # an earlier tree must not be mistaken for the current one)
        self.layout_error = layout_error()
        if not ok and self.lemmas:
            self.diagnose()
        self.tables_ok = self.layout_error is None and coq_bool("true") is True
        self.chk.coverage["layout_error"] = self.layout_error
        self.chk.oblige("translator accepts the current session.go (Gen/Layout.v regenerated and compiles)", self.tables_ok)
        return ok

    def diagnose(self):
        """Properties/<prop>.v did not compile as a whole: find out which of
        its theorems still stand, each through the lemma it is an `exact` of
        (proof files are split so that one broken lemma does not take the
        others with it)."""
        still = {}
        for th in self.theorems:
            mod, lemma = self.lemmas[th]
            if self.layout_error is not None and mod != "CodecText":
                still[th] = False       # everything else is stated over Gen/Layout.v
                continue
            text = ("From Sessions Require Import Model.Base Model.Codec Proofs.%s.\nCheck %s.\n"
                    'Goal True. idtac "@@". Abort.\nPrint Assumptions %s.\n' % (mod, lemma, lemma))
            rc, out = vlib.coq_run("diag_%s_%d" % (th, os.getpid()), text)
            still[th] = rc == 0 and out.split("@@")[-1].strip() == "Closed under the global context"
        self.chk.coverage["theorems_standing_by_lemma"] = still
        self.chk.obligations = [(n, still.get(n, ok)) for n, ok in self.chk.obligations]

    def harness(self):
        self.binary, blog = vlib.build_harness()
        self.chk.oblige("harness builds against the current tree", self.binary is not None)
        if self.binary is None:
            self.no_input.append({"no_longer_checks": "harness build", "log": blog[-3000:]})
        return self.binary is not None

    def library(self, n):
        """The parts of the libraries the model writes out, against the real ones."""
        recs = harness_records(self.binary, "codeclib", self.chk.seed, n)
        res, log = coq_lists("lib" + self.prop, "lib_case", [r["coq"] for r in recs], {"M": "lib_mismatches"}, PREAMBLE_SPEC)
        if res is None:
            raise vlib.Machinery("library cases do not evaluate: " + log[-2000:])
        self.chk.coverage["library_cases"] = len(recs)
        self.chk.coverage["library_model_mismatches"] = len(res["M"])
        self.chk.oblige("model's float64(int), UTF-8 coercion and base 36 = real libraries on %d cases" % len(recs), not res["M"])
        if res["M"]:
            self.no_input.append({"no_longer_checks": "library functions of Model/Codec.v vs the Go libraries",
                                  "first": {k: v for k, v in recs[res["M"][0]].items() if k != "coq"}})

    def roundtrips(self, family, n, label, coq_n=None):
        """Generated (or real-run) sessions through the codec. Every case is
        judged by the Go statement of the property; the first coq_n are also
        evaluated in Coq (model over the regenerated tables, and the Coq
        statement of the property). Returns (records, records in Coq, indices
        of model mismatches among the latter or None)."""
        recs = harness_records(self.binary, family, self.chk.seed, n, args="" if coq_n is None else "coq=%d" % coq_n)
        recs = [r for r in recs if r["codec"] == self.codec]
        incoq = [r for r in recs if r.get("coq")]
        terms = [r["coq"] for r in incoq]
        ctype = "gob_case" if self.codec == "gob" else "json_case"
        spec_fn = "gob_spec_failures" if self.codec == "gob" else "json_spec_failures"
        model_fn = ("gob_mismatches gob_version gob_enc gob_dec" if self.codec == "gob" else "json_mismatches json_enc json_dec")
        tag = "".join(ch for ch in label if ch.isalnum())
        mism = None
        if self.tables_ok:
            res, log = coq_lists(tag + self.prop, ctype, terms, {"S": spec_fn, "M": model_fn}, PREAMBLE_MODEL)
            if res is not None:
                mism, spec = res["M"], res
        if mism is None:
            spec, log = coq_lists(tag + "s" + self.prop, ctype, terms, {"S": spec_fn}, PREAMBLE_SPEC)
        if spec is None:
            raise vlib.Machinery("case evaluation failed: " + log[-2000:])
        go_bad = [i for i, r in enumerate(incoq) if not r["spec_ok"]]
        if sorted(go_bad) != sorted(spec["S"]):
            raise vlib.Machinery("the Coq and the Go statement of the property disagree on %s cases %s vs %s"
                                 % (label, spec["S"][:5], go_bad[:5]))
        for r in recs:
            if not r["spec_ok"]:
                self.failing.append((r, "%s: decoding the encoding does not give what the property promises" % label))
        bump(self.hist, ["%s:out:%s" % (label, r["out"]["class"]) for r in recs])
        self.recs_all += recs
        return recs, incoq, mism

    def golden(self):
        path = os.path.join(CORPUS, "%s_golden.json" % self.codec)
        recs = harness_records(self.binary, "codecgolden", self.chk.seed, 1, args="file=" + path)
        bad = [r for r in recs if not r["same"]]
        self.chk.coverage["golden_entries"] = len(recs)
        self.chk.coverage["golden_mismatches"] = len(bad)
        self.chk.oblige("golden corpus (%d byte strings of the pinned commit) decodes to the recorded fields" % len(recs),
                        not bad and len(recs) > 0)
        corpus = {e["name"]: e for e in json.load(open(path))["entries"]}
        for r in bad:
            e = corpus[r["name"]]
            self.failing.append(({"codec": self.codec, "mode": 0, "in": e["fields"], "out": r["out"], "want": r["want"],
                                  "wire": e["bytes"], "kind": ["golden:" + r["name"]], "golden": True},
                                 "golden corpus entry %s: bytes written by the pinned commit no longer decode to their fields" % r["name"]))
        return recs

    def bulk(self, family, total, shards=8):
        """Thorough tier: many more cases judged by the Go statement of the
        property only (the harness emits failures and a summary)."""
        per = total // shards

        def one(k):
            return harness_records(self.binary, family, self.chk.seed + 1000 + k, per, args="failures=1")
        cases, fails, hist = 0, [], {}
        with ThreadPoolExecutor(shards) as ex:
            for recs in ex.map(one, range(shards)):
                for r in recs:
                    if r.get("summary"):
                        cases += r["cases"]
                        for k, v in r["hist"].items():
                            hist[k] = hist.get(k, 0) + v
                    else:
                        fails.append(r)
        return cases, fails, hist

    # ---- verdict ------------------------------------------------------
    def report(self, samples, extra_assumptions, trusted):
        chk = self.chk
        seen = set()
        emitted = 0

        def rank(item):
            rec, why = item
            kinds = " ".join(rec.get("kind") or []) if isinstance(rec.get("kind"), list) else str(rec.get("kind"))
            pri = 0 if "shape:" in kinds and "in" in rec and not kinds.startswith("created") and "golden" not in kinds and why.startswith("package-made") else (
                1 if rec.get("golden") else 2)
            return (pri, len(json.dumps(rec.get("in", rec.get("doc", "")))))
        for rec, why in sorted(self.failing, key=rank):
            if "in" in rec:
                key = digest([rec["in"], rec["mode"], rec.get("codec")])
                body = session_replay(self.prop, rec, why, {"golden": True} if rec.get("golden") else None)
            else:
                key = digest(rec["doc"])
                body = {"property": self.prop, "codec": "json", "mode": rec["mode"], "document_hex": rec["doc"],
                        "document_text": bytes.fromhex(rec["doc"]).decode("utf8", "replace")[:2000],
                        "observed": rec["out"], "reencode": rec.get("reenc"), "mutation": rec.get("kind"), "why": why,
                        "go": "var d sessions.Session; err := d.UnmarshalJSON(<document>); if err == nil { _, err = d.MarshalJSON() }",
                        "replay_cmd": "./check %s --replay <this file>" % self.prop}
            if key in seen:
                continue
            seen.add(key)
            if emitted < 3:
                body["seed"] = chk.seed
                chk.violation(body)
                emitted += 1
        chk.coverage["failing_inputs"] = len(seen)
        if not seen:
            for ni in self.no_input[:2]:
                ni = dict(ni)
                ni["property"] = self.prop
                ni["seed"] = chk.seed
                chk.violation(ni, no_input=True)
        chk.coverage.setdefault("samples", samples)
        return chk.finish(trusted_base=trusted, extra_assumptions=extra_assumptions)


def guarded(fn):
    """Any unexpected failure of the check's own code is reported as machinery
    failure (the property is then not shown to hold), never as a pass."""
    def wrapper(chk):
        try:
            return fn(chk)
        except vlib.Machinery:
            raise
        except Exception as e:  # noqa: BLE001
            import traceback
            raise vlib.Machinery("check code failed: %s\n%s" % (e, traceback.format_exc()[-2500:]))
    return wrapper


def replay(chk, path, prop):
    rp = json.load(open(path))
    print(json.dumps({k: v for k, v in rp.items() if k not in ("wire_hex",)}, indent=1)[:6000])
    if "session" not in rp and "document_hex" not in rp:
        print("this replay records an obligation that no longer checks, not an input; run ./check %s" % prop)
        return 0
    binary, blog = vlib.build_harness()
    if binary is None:
        print(blog[-3000:])
        return 1
    recs = harness_records(binary, "codecreplay", chk.seed, 1, args="file=" + os.path.abspath(path))
    r = recs[0]
    print("now: outcome %s %s" % (r["out"]["class"], r["out"].get("msg", "")))
    if rp.get("golden"):
        # the stored bytes, decoded by the current code
        import tempfile
        with tempfile.NamedTemporaryFile("w", suffix=".json", dir=vlib.BUILD, delete=False) as f:
            json.dump({"codec": rp["codec"], "entries": [{"name": "replay", "bytes": rp["wire_hex"], "fields": rp["promised"]["sess"]}]}, f)
        g = harness_records(binary, "codecgolden", chk.seed, 1, args="file=" + f.name)
        os.remove(f.name)
        ok = g[0]["same"]
        print("stored bytes decode to the recorded fields now: %s" % ok)
        return 0 if ok else 1
    print("property holds on this input now: %s" % r["spec_ok"])
    return 0 if r["spec_ok"] else 1
