"""C19 — generated identifiers have the promised shape, entropy and uniqueness
(DESIGN.md §5, C19).

Proof: Properties/C19.v over Model/Ids.v, with the literal constants of ids.go
regenerated on every run (translator/consts_ids.go). Correspondence: the real
generateSessionID / RandomID behind a recording crypto/rand.Reader, the real
CUID under the virtual clock with its state set and read through the hooks,
concurrent callers, real net/http cookie round trips; every observation is
compared with the model by vm_compute and judged by an independent oracle
written here from the property text. Frequency and birthday tests on IDs from
the real crypto/rand are supporting tests, not proof."""
import base64
import binascii
import json
import math
import os
from concurrent.futures import ThreadPoolExecutor

import vlib

THEOREMS = [
    "C19_source_constants", "C19_source_randomness_and_lock",
    "C19_b64_length", "C19_b64_injective", "C19_b64_cookie_safe",
    "C19_session_id_shape", "C19_session_id_injective", "C19_session_id_cookie_roundtrip",
    "C19_rid_length", "C19_rid_total", "C19_rid_alphabet", "C19_rid_symbols", "C19_rid_surjective",
    "C19_rid_every_symbol_occurs",
    "C19_cuid_length", "C19_cuid_alphabet", "C19_cuid_injective", "C19_cuid_timestamp_spec",
    "C19_cuid_bits_spec", "C19_cuid_unique", "C19_cuid_unique_contiguous", "C19_cuid_unique_wallclock",
    "C19_cuid_ordered", "C19_cuid_ordered_wallclock",
    "C19_cuid_clock_back_refuted", "C19_cuid_burst_refuted",
]

B62 = "0123456789ABCDEFGHIJKLMNOPQRSTUVWXYZabcdefghijklmnopqrstuvwxyz"
B62SET = set(B62)
REF_MS = 1483228800000          # 2017-01-01T00:00:00Z in Unix milliseconds
EPOCH = 1 << 40
ZMAX = 8.0                      # two-sided normal tail 1.2e-15 per test; < 1e-12 over all tests of a run

MISMATCH_FN = {"sid": ("sid_case", "sid_mismatches"), "cookie": ("cookie_case", "cookie_mismatches"),
               "rid": ("rid_case", "rid_mismatches"), "cuid": ("cuid_case", "cuid_mismatches"),
               "cuidconc": ("conc_case", "conc_mismatches")}


# ------------------------------------------------------------------ plumbing

def harness(binary, family, seed, n, args="", timeout=1800):
    """Runs one family; returns (records, rc, log, rerun-description)."""
    p = os.path.join(vlib.BUILD, "c19-%s-%d-%d.jsonl" % (family, os.getpid(), abs(hash((seed, n, args))) % 10**8))
    rc, out = vlib.run_harness(binary, family, p, seed=seed, n=n, args=args, timeout=timeout)
    recs = []
    if os.path.exists(p):
        if rc == 0:
            recs = vlib.read_jsonl(p)
        os.remove(p)
    rerun = {"family": family, "seed": seed, "n": n, "args": args,
             "cmd": "VERIF_FAMILY=%s VERIF_SEED=%d VERIF_N=%d VERIF_ARGS='%s' VERIF_OUT=out.jsonl <harness binary built by vlib.build_harness()> -test.run '^TestFamily$'" % (family, seed, n, args)}
    return recs, rc, out, rerun


def coq_jobs(family, recs, shard):
    """Case files for the records that carry a Coq term: [(name, text, indices into recs)]."""
    typ, fn = MISMATCH_FN[family]
    idx = [i for i, r in enumerate(recs) if r.get("coq")]
    jobs = []
    for k in range(0, len(idx), shard):
        part = idx[k:k + shard]
        text = "From Sessions Require Import Model.Base Model.Ids.\nLocal Open Scope N_scope.\n"
        text += "Definition cases : list %s := [\n%s].\n" % (typ, ";\n".join(recs[i]["coq"] for i in part))
        text += "Definition M := Eval vm_compute in %s cases.\nPrint M.\n" % fn
        jobs.append(("c19_%s_%d_%d" % (family, os.getpid(), k), text, part))
    return jobs


def coq_eval_all(plan_):
    """plan_: {family: (recs, shard)}. Evaluates the model on every record
    that carries a Coq term, all shards in parallel; returns
    ({family: indices on which model and observation differ}, {family: number evaluated})."""
    jobs = []
    for fam, (recs, shard) in plan_.items():
        jobs += [(fam, j) for j in coq_jobs(fam, recs, shard)]
    # longest first
    jobs.sort(key=lambda fj: -len(fj[1][1]))
    results = vlib.coq_run_many([(j[0], j[1]) for _, j in jobs])
    mism = {fam: [] for fam in plan_}
    count = {fam: 0 for fam in plan_}
    for (fam, (name, text, part)), (rc, out) in zip(jobs, results):
        m = vlib.parse_printed_list(out, "M") if rc == 0 else None
        if m is None:
            raise vlib.Machinery("model evaluation failed (%s, %s): %s" % (fam, name, out[-1500:]))
        mism[fam] += [part[x] for x in m]
        count[fam] += len(part)
    for fam in mism:
        mism[fam].sort()
    return mism, count


def coq_eval(family, recs, shard):
    mism, count = coq_eval_all({family: (recs, shard)})
    return mism[family], count[family]


def hist(recs, key):
    h = {}
    for r in recs:
        k = str(r.get(key))
        h[k] = h.get(k, 0) + 1
    return h


def cookie_safe(b):
    return 0x20 <= b < 0x7f and b not in (0x22, 0x3b, 0x5c) and b not in (0x20, 0x2c)


# -------------------------------------------------- oracles on observations

def oracle_sid(r):
    """Property text: 24-character base64 encodings of 128 bits from the
    system CSPRNG; survive a Set-Cookie/Cookie round trip unchanged."""
    read = bytes.fromhex(r["read"])
    if len(read) != 16:
        return "the ID was made from %d random bytes, not 16 (128 bits)" % len(read)
    if bytes.fromhex(r["offered"])[:16] != read:
        return "the bytes taken are not the next 16 bytes of the random source"
    ident = r["id"]
    if len(ident) != 24:
        return "the ID has %d characters, not 24" % len(ident)
    try:
        # either base64 alphabet counts as "base64" for the property; which one
        # it is is the model's business
        raw = base64.b64decode(ident, altchars=b"-_" if ("-" in ident or "_" in ident) else None, validate=True)
    except (binascii.Error, ValueError):
        return "the ID is not base64"
    if raw != read:
        return "the ID does not encode the 16 bytes drawn from the random source"
    if not all(cookie_safe(ord(c)) for c in ident):
        return "the ID contains a byte that net/http alters or quotes in a cookie value"
    if r["wire"] != ident or not r["found"] or r["parsed"] != ident:
        return "the ID does not survive the Set-Cookie/Cookie round trip (wire %r, parsed %r)" % (r["wire"], r["parsed"])
    if r["kind"] == "start" and r.get("again") != ident:
        return "the cookie issued by Start does not lead back to the session (%r)" % r.get("again")
    return None


def oracle_rid(r):
    """RandomID(n) returns exactly n characters from the 62-symbol alphabet."""
    if r["kind"] in ("fail", "empty-read"):
        return None  # reader failures: outside the property
    if r["err"]:
        return "RandomID(%d) returned an error with a healthy reader: %s" % (r["n"], r.get("errtext"))
    if len(r["id"]) != r["n"]:
        return "RandomID(%d) returned %d characters" % (r["n"], len(r["id"]))
    bad = [c for c in r["id"] if c not in B62SET]
    if bad:
        return "RandomID(%d) returned a character outside the 62-symbol alphabet: %r" % (r["n"], bad[0])
    return None


def rid_reference(r):
    """Reference model (mismatch only): symbols of the bytes read, last first."""
    read = bytes.fromhex(r["read"])
    if r["kind"] in ("fail", "empty-read"):
        return r["err"] and r["id"] == "" and read == bytes.fromhex(r["offered"])
    return len(read) == r["n"] and bytes.fromhex(r["offered"])[:r["n"]] == read and \
        r["id"] == "".join(B62[b % 62] for b in reversed(read))


def wall_ms(r):
    return r["sec"] * 1000 + r["nsec"] // 1000000 - REF_MS


def oracle_cuid_shape(r):
    if len(r["id"]) != 11:
        return "CUID returned %d characters, not 11" % len(r["id"])
    if any(c not in B62SET for c in r["id"]):
        return "CUID returned a character outside the base-62 alphabet"
    return None


def oracle_cuid_sequences(recs):
    """Uniqueness within each run (calls following each other in one process
    without the state being set), while the clock does not step backwards and
    stays in one 2^40 ms epoch; order across all calls of one epoch."""
    bad = []
    out_of_scope = []
    runs = {}
    for i, r in enumerate(recs):
        runs.setdefault(r["run"], []).append(i)
    for run, idx in runs.items():
        ms = [wall_ms(recs[i]) for i in idx]
        in_scope = all(a <= b for a, b in zip(ms, ms[1:])) and len({m // EPOCH for m in ms}) == 1
        seen = {}
        for i in idx:
            ident = recs[i]["id"]
            if ident in seen:
                if in_scope:
                    bad.append((i, "CUID returned %r twice in one process (calls %d and %d of the recording) while the clock did not step back" % (ident, seen[ident], i), [seen[ident], i]))
                else:
                    out_of_scope.append({"id": ident, "calls": [seen[ident], i], "ms": [wall_ms(recs[seen[ident]]), wall_ms(recs[i])],
                                         "why": "the clock stepped back to a used millisecond or left the epoch"})
            else:
                seen[ident] = i
    # order: a strictly later millisecond of the same epoch sorts after
    groups = {}
    for i, r in enumerate(recs):
        groups.setdefault(wall_ms(r), []).append(i)
    best = {}  # epoch -> (ms, largest id so far, index), over strictly earlier milliseconds
    compared = 0
    for m in sorted(groups):
        e = m // EPOCH
        if e in best:
            for i in groups[m]:
                compared += 1
                if not best[e][1] < recs[i]["id"]:
                    bad.append((i, "CUID %r of millisecond %d does not sort after %r of the earlier millisecond %d" % (recs[i]["id"], m, best[e][1], best[e][0]), [best[e][2], i]))
        top = max(groups[m], key=lambda i: recs[i]["id"])
        if e not in best or recs[top]["id"] > best[e][1]:
            best[e] = (m, recs[top]["id"], top)
    return bad, out_of_scope, compared


def oracle_conc(r):
    ids = r["ids"]
    if len(ids) != r["goroutines"] * r["per_caller"]:
        return "expected %d IDs, got %d" % (r["goroutines"] * r["per_caller"], len(ids))
    if len(set(ids)) != len(ids):
        dup = sorted(x for x in set(ids) if ids.count(x) > 1)[:3]
        return "CUID returned the same value twice under %d concurrent callers (%s clock): %s" % (r["goroutines"], r["kind"], dup)
    for x in ids:
        if len(x) != 11 or any(c not in B62SET for c in x):
            return "malformed CUID %r under concurrent callers" % x
    return None


def stats_tests(rec):
    """Supporting tests on IDs drawn through the real crypto/rand. Returns
    (list of failures, summary)."""
    n = rec["n"]
    fails = []
    sd = math.sqrt(n * 0.25)
    zbits = [(c - n / 2) / sd for c in rec["bit_ones"]]
    worst_bit = max(range(128), key=lambda i: abs(zbits[i]))
    if abs(zbits[worst_bit]) > ZMAX:
        fails.append("bit %d of session IDs is set in %d of %d IDs (z = %.1f)" % (worst_bit, rec["bit_ones"][worst_bit], n, zbits[worst_bit]))
    total = n * rec["rid_len"]
    zsym = {}
    for i, s in enumerate(B62):
        p = (5 if i < 256 % 62 else 4) / 256.0
        c = rec["rid_symbols"].get(s, 0)
        zsym[s] = (c - total * p) / math.sqrt(total * p * (1 - p))
    worst_sym = max(B62, key=lambda s: abs(zsym[s]))
    if abs(zsym[worst_sym]) > ZMAX:
        fails.append("RandomID symbol %r occurs %d times in %d characters (z = %.1f against b mod 62 of uniform bytes)" % (worst_sym, rec["rid_symbols"].get(worst_sym, 0), total, zsym[worst_sym]))
    extra = [s for s in rec["rid_symbols"] if s not in B62SET]
    if extra:
        fails.append("RandomID produced symbols outside the alphabet: %r" % extra[:5])
    unused = [s for s in B62 if rec["rid_symbols"].get(s, 0) == 0]
    if unused and total >= 100000:
        fails.append("RandomID never produced %r in %d characters" % (unused[:5], total))
    for k, what in (("sid_duplicates", "session IDs"), ("rid_duplicates", "RandomID(%d) values" % rec["rid_len"]), ("cuid_duplicates", "CUIDs")):
        if rec[k]:
            fails.append("%d duplicates among %d %s" % (rec[k], n, what))
    for k in ("sid_malformed", "rid_malformed", "cuid_malformed", "cuid_unordered"):
        if rec[k]:
            fails.append("%s = %d" % (k, rec[k]))
    summary = {"ids_per_kind": n, "max_abs_z_bit": round(abs(zbits[worst_bit]), 2), "max_abs_z_symbol": round(abs(zsym[worst_sym]), 2),
               "z_limit": ZMAX, "sid_duplicates": rec["sid_duplicates"], "rid_duplicates": rec["rid_duplicates"],
               "cuid_duplicates": rec["cuid_duplicates"], "cuid_unordered": rec["cuid_unordered"],
               "label": "supporting statistical tests on IDs from the real crypto/rand; not part of the proof"}
    return fails, summary


# ------------------------------------------------------------------- the run

def plan(chk):
    t = chk.tier == "thorough"
    s = chk.seed
    jobs = {
        "sid": [("sid", s, 5000 if t else 600, "")],
        "cookie": [("cookie", s, 6000 if t else 1000, "")],
        "rid": [("rid", s, 400 if t else 120, "mode=spread")],
        "cuid": [("cuid", s, 8000 if t else 1600, "burst=%d burstcoq=1" % (70000 if t else 600))] +
                ([] if t else [("cuid", s, 0, "only=burst burst=70000 burstcoq=0")]),
        "cuidconc": [("cuidconc", s, 1, "mode=frozen per=40 ks=%s" % ("all" if t else "some")),
                     ("cuidconc", s + 1, 1, "mode=real per=%d ks=%s" % (2000 if t else 300, "all" if t else "some"))],
        "idstats": [("idstats", s, 3000000 if t else 200000, "ridlen=22")],
    }
    if t:
        for lo in range(0, 4097, 512):
            jobs["rid"].append(("rid", s + 1 + lo, 0, "mode=all lo=%d hi=%d coqmax=512" % (lo, min(4096, lo + 511))))
    return jobs


def run(chk):
    import time
    thorough = chk.tier == "thorough"
    timings = {}
    t0 = time.time()
    ok, out = vlib.standard_proof_stage(chk, "C19", THEOREMS)
    # further statement files Properties/C19?.v (C19K: CUID under K concurrent callers,
    # with the source pin over the regenerated Gen/CuidPos.v)
    from checks import hist_common
    extra = hist_common.extra_suffixes("C19")
    for sfx in extra:
        kok, kout = vlib.standard_proof_stage(chk, "C19" + sfx, hist_common.theorem_names("C19" + sfx))
        ok, out = ok and kok, out + kout
    proof_ok = ok
    timings["proof_stage_s"] = round(time.time() - t0, 1)
    t0 = time.time()
    binary, blog = vlib.build_harness()
    timings["harness_build_s"] = round(time.time() - t0, 1)
    chk.oblige("harness builds against the current tree", binary is not None)
    if binary is None:
        chk.violation({"property": "C19", "no_longer_checks": "harness build", "log": blog[-3000:]}, no_input=True)
        return chk.finish()

    jobs = plan(chk)
    flat = [(fam, j) for fam, js in jobs.items() for j in js]
    t0 = time.time()
    with ThreadPoolExecutor(8) as ex:
        results = list(ex.map(lambda fj: harness(binary, *fj[1]), flat))
    timings["harness_runs_s"] = round(time.time() - t0, 1)
    t0 = time.time()
    data = {}
    for (fam, j), (recs, rc, hout, rerun) in zip(flat, results):
        if rc != 0:
            chk.violation({"property": "C19", "detail": "harness family %s failed (panic or fatal error in the library?)" % fam,
                           "log": hout[-3000:], "rerun": rerun}, no_input="panic" not in hout and "fatal" not in hout)
            return chk.finish()
        for r in recs:
            r["_rerun"] = rerun
        data.setdefault(fam, []).extend(recs)

    violations = []   # (family, index, message, extra)

    # --- session IDs
    sid = data["sid"]
    for i, r in enumerate(sid):
        msg = oracle_sid(r)
        if msg:
            violations.append(("sid", i, msg, None))

    # --- RandomID
    rid = data["rid"]
    used = set()
    for i, r in enumerate(rid):
        msg = oracle_rid(r)
        if msg:
            violations.append(("rid", i, msg, None))
        if r["kind"] == "sweep" and r["pattern"] in ("sweep", "sweepdown"):
            used |= set(r["id"])
    missing = [c for c in B62 if c not in used]
    if missing:
        i = next(i for i, r in enumerate(rid) if r["kind"] == "sweep")
        violations.append(("rid", i, "RandomID does not use every symbol: %r never results from any of the 256 byte values" % "".join(missing), None))

    # --- CUID
    cuid = data["cuid"]
    for i, r in enumerate(cuid):
        msg = oracle_cuid_shape(r)
        if msg:
            violations.append(("cuid", i, msg, None))
    seq_bad, out_of_scope, compared = oracle_cuid_sequences(cuid)
    for i, msg, involved in seq_bad:
        violations.append(("cuid", i, msg, involved))
    conc = data["cuidconc"]
    for i, r in enumerate(conc):
        msg = oracle_conc(r)
        if msg:
            violations.append(("cuidconc", i, msg, None))
    try:
        mismatches, counts = coq_eval_all({"sid": (sid, 200), "cookie": (data["cookie"], 300), "rid": (rid, 30),
                                           "cuid": (cuid, 2000 if thorough else 250), "cuidconc": (conc, 1)})
    except vlib.Machinery as e:
        if proof_ok:
            raise
        # the development does not build against this tree (e.g. the translator
        # rejects it): the model cannot be evaluated; the oracles still judge
        # every observation of the real code
        mismatches, counts = {k: [] for k in ("sid", "cookie", "rid", "cuid", "cuidconc")}, {}
        chk.coverage["model_not_evaluable"] = str(e)[-600:]
    ref_bad = [i for i, r in enumerate(rid) if not rid_reference(r)]
    mismatches["rid"] = sorted(set(mismatches["rid"]) | set(ref_bad))

    timings["model_and_oracles_s"] = round(time.time() - t0, 1)

    # --- thorough: the concurrent callers again under the race detector
    race_report = None
    if thorough:
        t0 = time.time()
        rbin, rlog = vlib.build_harness(race=True)
        if rbin is None:
            raise vlib.Machinery("race build of the harness failed: " + rlog[-1500:])
        for args in ("mode=real per=300 ks=some", "mode=frozen per=20 ks=some"):
            recs, rc, hout, rerun = harness(rbin, "cuidconc", chk.seed + 2, 1, args)
            if rc != 0:
                race_report = {"rerun": dict(rerun, race_detector=True), "log": hout[-4000:]}
                break
            for i, r in enumerate(recs):
                msg = oracle_conc(r)
                if msg:
                    r["_rerun"] = dict(rerun, race_detector=True)
                    data["cuidconc"].append(r)
                    violations.append(("cuidconc", len(data["cuidconc"]) - 1, msg, None))
        chk.oblige("concurrent CUID callers under the race detector: no report", race_report is None)
        timings["race_runs_s"] = round(time.time() - t0, 1)
        if race_report:
            chk.violation({"property": "C19", "family": "cuidconc", "violation": "data race or failure among concurrent CUID callers (go test -race)", **race_report},
                          no_input="DATA RACE" not in race_report["log"])

    # --- thorough: coqchk over the closure of the property file
    if thorough and proof_ok:
        t0 = time.time()
        with vlib.lock("coq"):
            rc, cout = vlib.sh(["timeout", "1500", "coqchk", "-silent", "-o", "-Q", ".", "Sessions", "Sessions.Properties.C19"], cwd=vlib.COQ)
        chk_ok = rc == 0 and "* Axioms: <none>" in cout
        chk.oblige("coqchk re-checks the .vo closure of Properties/C19 with no axioms", chk_ok)
        chk.coverage["coqchk_summary"] = cout[-700:]
        for sfx in extra:
            with vlib.lock("coq"):
                rc, cout = vlib.sh(["timeout", "1500", "coqchk", "-silent", "-o", "-Q", ".", "Sessions", "Sessions.Properties.C19" + sfx], cwd=vlib.COQ)
            ok2 = rc == 0 and "* Axioms: <none>" in cout
            chk.oblige("coqchk re-checks the .vo closure of Properties/C19%s with no axioms" % sfx, ok2)
            chk_ok = chk_ok and ok2
        timings["coqchk_s"] = round(time.time() - t0, 1)
        proof_ok = proof_ok and chk_ok

    # --- supporting statistics
    stat_fails, stat_summary = stats_tests(data["idstats"][0])

    # --- evidence
    total = sum(len(v) for k, v in data.items() if k != "idstats")
    spills = sum(1 for r in cuid if (r["lc2"] >> 8) != 0)
    counter_kinds = {"reset": sum(1 for r in cuid if r["lc2"] == 0), "increment": sum(1 for r in cuid if r["lc2"] != 0),
                     "spill_nonzero": spills, "wrap_to_zero_from_max": sum(1 for r in cuid if r["lc"] == 2**64 - 1 and r["lc2"] == 0 and r["lt"] == r["lt2"]),
                     "before_2017": sum(1 for r in cuid if wall_ms(r) < 0), "beyond_first_epoch": sum(1 for r in cuid if wall_ms(r) >= EPOCH)}
    chk.coverage.update({
        "evaluations": total,
        "distinct_nontrivial": len({r["read"] for r in sid}) + len({(r["n"], r["read"]) for r in rid if r["n"] > 0}) +
        len({(r["mac"], r["lt"], r["lc"], r["sec"], r["nsec"]) for r in cuid}) + len(conc) + len({r["value"] for r in data["cookie"]}),
        "rule": "one evaluation = one observed call (or one batch of concurrent calls) of the real code compared with the model and judged by the oracle; distinct = distinct (input bytes | n, bytes | state, time, address | value)",
        "cases": {k: len(v) for k, v in data.items() if k != "idstats"},
        "model_evaluated_by_vm_compute": counts,
        "sid_kinds": hist(sid, "kind"), "sid_reader_chunks": hist(sid, "chunk"), "sid_patterns": hist(sid, "pattern"),
        "cookie_kinds": hist(data["cookie"], "kind"), "cookie_found": hist(data["cookie"], "found"),
        "rid_kinds": hist(rid, "kind"), "rid_n_values": len({r["n"] for r in rid}), "rid_n_max": max(r["n"] for r in rid),
        "rid_all_n_0_4096": thorough and {r["n"] for r in rid if r["kind"] == "plain"} >= set(range(4097)),
        "rid_symbols_from_byte_sweep": len(used),
        "cuid_kinds": hist(cuid, "kind"), "cuid_branches": counter_kinds, "cuid_runs": len({r["run"] for r in cuid}),
        "cuid_order_comparisons": compared, "cuid_out_of_scope_duplicates_observed": out_of_scope[:3],
        "conc": [{"kind": r["kind"], "goroutines": r["goroutines"], "per_caller": r["per_caller"], "ids": len(r["ids"])} for r in conc],
        "model_impl_mismatches": {k: len(v) for k, v in mismatches.items()},
        "oracle_evaluations_on_impl": total,
        "supporting_statistics": stat_summary,
        "timings": timings,
        "samples": [{k: v for k, v in r.items() if k not in ("coq", "_rerun", "offered")} for r in (sid[:2] + rid[5:7] + cuid[60:63])],
    })
    for fam in ("sid", "cookie", "rid", "cuid", "cuidconc"):
        chk.oblige("model = implementation on %d observed %s cases" % (len(data[fam]), fam), not mismatches[fam])
    chk.oblige("oracle (shape, injective image of the bytes read, cookie round trip, uniqueness, order) holds on all %d observations" % total, not violations)
    chk.oblige("supporting frequency/birthday tests on %d real IDs of each kind" % stat_summary["ids_per_kind"], not stat_fails)

    # --- verdict
    shown = 0
    seen_msgs = set()
    for fam, i, msg, involved in violations:
        # one replay per family and kind of failure (the first words, without the quoted values)
        key = (fam, " ".join(w for w in msg.split()[:6] if not w[:1] in "'\"0123456789(")[:40])
        if key in seen_msgs or shown >= 4:
            continue
        seen_msgs.add(key)
        shown += 1
        r = data[fam][i]
        rep = {"property": "C19", "family": fam, "index": i, "violation": msg, "rerun": r["_rerun"],
               "observation": {k: v for k, v in r.items() if k not in ("coq", "_rerun")}}
        if involved:
            rep["involved_calls"] = [{k: v for k, v in data[fam][j].items() if k not in ("coq", "_rerun")} for j in involved]
            lo = min(involved)
            rep["run_prefix"] = [{k: data[fam][j][k] for k in ("kind", "lt", "lc", "sec", "nsec", "id", "mac")} for j in range(max(0, lo - 2), min(len(data[fam]), max(involved) + 1))][:400]
        chk.violation(rep)
    if stat_fails and not violations:
        chk.violation({"property": "C19", "family": "idstats", "violation": stat_fails, "observation": data["idstats"][0]["_rerun"],
                       "counts": {k: v for k, v in data["idstats"][0].items() if k != "_rerun"},
                       "note": "input: IDs drawn through the real crypto/rand; rerun the family to draw again"})
    anym = [(fam, m[0]) for fam, m in mismatches.items() if m]
    if not violations and not stat_fails and anym:
        fam, i = anym[0]
        r = data[fam][i]
        chk.violation({"property": "C19", "no_longer_checks": "correspondence %s (model vs implementation)" % MISMATCH_FN[fam][1],
                       "family": fam, "index": i, "rerun": r["_rerun"],
                       "first_mismatch": {k: v for k, v in r.items() if k != "_rerun"},
                       "mismatch_counts": {k: len(v) for k, v in mismatches.items()}}, no_input=True)
    if not violations and not stat_fails and not anym and not proof_ok:
        chk.violation({"property": "C19", "no_longer_checks": "theorems of Properties/C19.v (or the Gen/Consts.v constants they are proved over)",
                       "obligations": chk.obligations, "log": out[-3000:]}, no_input=True)
    return chk.finish(
        checker_cmd="translator /repo coq/Gen; coq_makefile -f _CoqProject -o Makefile && make -j16 Properties/C19.vo (coqc 8.16.1); Print Assumptions per theorem; coqc on generated cases files (vm_compute of *_mismatches)" + ("; coqchk -silent -o -Q . Sessions Sessions.Properties.C19" if thorough else ""),
        trusted_base=["Gallina transcriptions of encoding/base64 (standard alphabet, padding) and of net/http's cookie-value rules (validCookieValueByte, quoting), compared with the real libraries on every run",
                      "the oracle in checks/c19.py (Python base64, reference byte->symbol map, uniqueness/order rules) used to turn mismatches into violations",
                      "CUID atomicity under concurrent callers: a syntactic lock-discipline fact from the translator plus concurrent runs (testing); full lockset treatment is C15's"],
        extra_assumptions=["crypto/rand delivers independent uniform bytes (no theorem can show that; the check shows IDs are an injective image of exactly the bytes read, and runs frequency tests as supporting evidence)",
                           "the process's MAC address does not change between CUID calls",
                           "CUID uniqueness: calls of one masked millisecond are consecutive (true while the wall clock does not step back within a 2^40 ms epoch) and at most 2^24 per millisecond; outside that, duplicates exist (C19_cuid_clock_back_refuted, C19_cuid_burst_refuted)"])


# ----------------------------------------------------------------- replaying

def replay(chk, path):
    rep = json.load(open(path))
    print(json.dumps({k: v for k, v in rep.items() if k not in ("run_prefix",)}, indent=1)[:6000])
    rr = rep.get("rerun")
    if not rr or "family" not in rep or rep["family"] == "idstats":
        return 0
    binary, blog = vlib.build_harness()
    if binary is None:
        print("harness does not build:\n" + blog[-2000:])
        return 1
    recs, rc, hout, _ = harness(binary, rr["family"], rr["seed"], rr["n"], rr["args"])
    if rc != 0:
        print("harness run failed:\n" + hout[-2000:])
        return 1
    fam = rep["family"]
    msgs = []
    if fam == "sid":
        msgs = [m for m in map(oracle_sid, recs) if m]
    elif fam == "rid":
        msgs = [m for m in map(oracle_rid, recs) if m]
        used = set()
        for r in recs:
            if r["kind"] == "sweep" and r["pattern"] in ("sweep", "sweepdown"):
                used |= set(r["id"])
        if len(used) != 62:
            msgs.append("RandomID does not use every symbol")
    elif fam == "cuid":
        msgs = [m for m in map(oracle_cuid_shape, recs) if m] + [m for _, m, _ in oracle_cuid_sequences(recs)[0]]
    elif fam == "cuidconc":
        msgs = [m for m in map(oracle_conc, recs) if m]
    if rep.get("no_longer_checks"):
        mism, _ = coq_eval(fam, recs, 500)
        print("replayed %d cases: %d model/implementation mismatches" % (len(recs), len(mism)))
        return 1 if mism else 0
    print("replayed %d cases: %d oracle failures" % (len(recs), len(msgs)))
    for m in msgs[:5]:
        print("  " + m)
    return 1 if msgs else 0
