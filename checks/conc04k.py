"""C04, K goroutines on one due ID: the real order of the critical sections against
the model's serial execution in that order (Properties/C04K.v).

The harness family `conc04k` (harness/conc04k_test.go) is conc04 with the order
of the K critical sections recorded (hooks NewSessionCookie and the entropy
source, both called by Start only between Lock(id) and the deferred Unlock(id))
and, per goroutine, what its Start returned. This stage

  1. judges the real observations by the conclusions of C04K_serial_order /
     C04K_one_new_id: every goroutine is served exactly once; exactly one ID is
     drawn, by the goroutine served FIRST; every goroutine gets a session under
     that one new ID, its only Set-Cookie is that ID, the data is the data
     written before;
  2. evaluates `serial` of Model/StartConc.v (Hist.step folded over the K
     requests in the OBSERVED order, on the model world built by the same
     set-up history under the same configuration) by vm_compute and compares,
     goroutine by goroutine, draws / ID / cookies / result class with what the
     real goroutine got.

A failure of 1 is a concrete violation (the case reproduces it up to the Go
scheduler's choice); a difference in 2 while 1 holds is reported with
no_input=True.

stage(chk) -> True/False; to be called from checks/c04.py after conc(chk)."""
import os

import vlib

SIZES = {"quick": 32, "thorough": 300}

PRELUDE = """From Sessions Require Import Model.Base Model.Sess Model.Hist Model.Mutex Model.StartConc.
Local Open Scope N_scope.
Definition addr0 : addr := V4 10 0 0 1 1000.
Fixpoint after (w : world) (hs : list hop) : world :=
  match hs with [] => w | h :: t => after (fst (Hist.step w h)) t end.
Definition kcode (k : key) : N := match k with KGen n => n + 10 | KJunk _ => 8 end.
Definition ccode (c : cval) : N := match c with CKey k => kcode k | _ => 9 end.
Definition per (go : nat * obs) : list N :=
  let o := snd go in
  [N.of_nat (fst go); count_draws (ob_evs o);
   match ob_start o with Some (k, _) => kcode k | None => 9 end;
   N.of_nat (length (ob_cookies o));
   match ob_cookies o with CkLive k :: _ => kcode k | _ => 9 end;
   match ob_res o with RSess => 1 | _ => 0 end;
   match ob_start o with Some (_, r) => match r_data r with Some [(1, 42)] => 1 | _ => 0 end | None => 0 end].
Definition mkcase (c : cfg) (pre : nat) (pushout : bool) (K : nat) (order : list nat) : list N :=
  let h0 := HReq (mkReqStep 1 PJar true addr0 0 [SSet 1 42] [] [] None) in
  let rot := [HWait 11000000000; HReq (mkReqStep 1 PJar false addr0 0 [] [] [] None)] in
  let push := if pushout then [HReq (mkReqStep 2 PJar true addr0 0 [] [] [] None);
                               HReq (mkReqStep 3 PJar true addr0 0 [] [] [] None)] else [] in
  let w := after (mkWorld (init_st c) []) (h0 :: concat (repeat rot pre) ++ [HWait 11000000000] ++ push) in
  let ck := jar_of (w_jars w) 1 in
  let reqs := repeat (mkReqStep 9 (PForge ck) false addr0 0 [] [] [] None) K in
  let res := rev (snd (serial reqs w (rev (map AReq order)))) in
  [supply (w_st w); ccode ck] ++ flat_map per res.
"""
PER = 7   # numbers per served goroutine


def case_text(r):
    c = r["case"]
    cfg = "(mkCfg max64 10000000000 %d max64 (%d) 1 true %s)" % (c["grace"], c["maxcache"], "true" if c["json"] else "false")
    order = "[" + "; ".join("%d%%nat" % g for g in r["order"]) + "]"
    return "(mkcase %s %d%%nat %s %d%%nat %s)" % (cfg, c["pre_rotations"], "true" if c["maxcache"] in (1, 2) else "false", c["k"], order)


def cases_text(recs):
    text = PRELUDE
    text += "Definition cases : list (list N) := [\n" + ";\n".join(case_text(r) for r in recs) + "].\n"
    text += "Definition M := Eval vm_compute in flat_map (fun l => N.of_nat (length l) :: l) cases.\nPrint M.\n"
    return text


def model_rows(recs, shard=8, prefix="conc04k"):
    """per record: (supply before, code of the presented cookie, [rows of PER numbers in serving order])"""
    jobs = []
    for j in range(0, len(recs), shard):
        jobs.append(("%s_%d_%d" % (prefix, os.getpid(), j), cases_text(recs[j:j + shard])))
    out = []
    for (rc, text) in vlib.coq_run_many(jobs):
        flat = vlib.parse_printed_list(text, "M") if rc == 0 else None
        if flat is None:
            raise vlib.Machinery("conc04k: model evaluation failed: %s" % text[-3000:])
        i = 0
        while i < len(flat):
            n = flat[i]
            body = flat[i + 1:i + 1 + n]
            if len(body) != n or n < 2 or (n - 2) % PER:
                raise vlib.Machinery("conc04k: malformed model output")
            out.append((body[0], body[1], [body[2 + k:2 + k + PER] for k in range(0, n - 2, PER)]))
            i += 1 + n
    if len(out) != len(recs):
        raise vlib.Machinery("conc04k: %d model results for %d cases" % (len(out), len(recs)))
    return out


def real_rows(r):
    rows = []
    for g in r["order"]:
        cks = r["cookies"][g]
        rows.append([g, r["drew"][g], r["ids"][g] + 10 if r["ids"][g] >= 0 else (9 if r["ids"][g] == -1 else 8),
                     len(cks), (cks[0] + 10 if cks[0] >= 0 else 9) if cks else 9,
                     1 if r["res"][g] == "sess" else 0, 1 if r["data"][g] == "v42" else 0])
    return rows


def oracle(r):
    """The conclusions of C04K_one_new_id / C04K_serial_order on the real observations; None or what is wrong."""
    c, k, n = r["case"], r["case"]["k"], r["before"]
    if r.get("panics"):
        return "panic in concurrent Start: %s" % r["panics"][0]
    if r["draws"] != 1:
        return "%d IDs were minted by %d concurrent requests on one due ID (exactly one is drawn in every schedule: C04K_one_new_id)" % (r["draws"], k)
    bad = [g for g in range(k) if r["res"][g] != "sess"]
    if bad:
        return "goroutine %d of %d concurrent requests on one due ID got %s instead of the session" % (bad[0], k, r["res"][bad[0]])
    if set(r["ids"]) != {n}:
        return "concurrent requests on one due ID ended on different IDs or not on the new one (ordinals %s, new ID %d)" % (sorted(set(r["ids"])), n)
    if any(ck != [n] for ck in r["cookies"]):
        return "a concurrent request's Set-Cookie is not exactly the one new ID (%s, new ID %d)" % ([ck for ck in r["cookies"] if ck != [n]][:2], n)
    if set(r["data"]) != {"v42"}:
        return "a concurrent request saw other data than was written before the ID change (%s)" % sorted(set(r["data"]))
    return None


def stage(chk):
    """Returns True when the K-goroutine clause is shown to hold on the current tree."""
    cov = chk.coverage.setdefault("conc04k", {})
    ok_model, log_, _ = vlib.coq_build(["Model/StartConc"])
    if not os.path.exists(os.path.join(vlib.COQ, "Model", "StartConc.vo")):
        raise vlib.Machinery("Model/StartConc.v does not compile: " + log_[-3000:])
    binary, blog = vlib.build_harness()
    if binary is None:
        chk.oblige("K goroutines on one due ID: real critical-section order against the model's serial execution (family conc04k)", False)
        cov["harness_failed"] = (blog or "")[-1500:]
        return False
    p = os.path.join(vlib.BUILD, "conc04k-%d.jsonl" % os.getpid())
    rc, out = vlib.run_harness(binary, "conc04k", p, seed=chk.seed, n=SIZES.get(chk.tier, 32))
    if rc != 0:
        raise vlib.Machinery("conc04k: " + out[-2000:])
    recs = vlib.read_jsonl(p)
    os.remove(p)
    if not recs:
        raise vlib.Machinery("family conc04k produced no cases")
    concrete, instr, usable = [], [], []
    hist, orders, first_is_last = {}, set(), 0
    for r in recs:
        c = r["case"]
        key = "K=%d cache=%d %s" % (c["k"], c["maxcache"], "json" if c["json"] else "gob")
        hist[key] = hist.get(key, 0) + 1
        if r.get("error"):
            concrete.append((r, "the real code crashed or deadlocked: " + r["error"][-600:]))
            continue
        what = oracle(r)
        if what:
            concrete.append((r, what))
            continue
        k = c["k"]
        if sorted(r["order"]) != list(range(k)) or any(x != 1 for x in r["calls"]):
            instr.append((r, "the critical sections could not be ordered: NewSessionCookie calls per goroutine %s, order %s" % (r["calls"], r["order"])))
            continue
        if r["drew"][r["order"][0]] != 1 or sum(r["drew"]) != 1:
            concrete.append((r, "the one new ID was not drawn by the goroutine whose critical section came first (order %s, draws per goroutine %s): the K critical sections did not take place one after the other" % (r["order"], r["drew"])))
            continue
        usable.append(r)
        orders.add((k, tuple(r["order"])))
        first_is_last += 1 if r["order"][0] == k - 1 else 0
    diffs = []
    if usable:
        for r, (n_m, ck_m, rows_m) in zip(usable, model_rows(usable)):
            rows_r = real_rows(r)
            if n_m != r["before"] or ck_m != r["cookie"] + 10:
                diffs.append((r, "the model's set-up differs from the real one: %d IDs drawn before (real %d), presented ID code %d (real %d)" % (n_m, r["before"], ck_m, r["cookie"] + 10), None))
            elif rows_m != rows_r:
                pos = next(i for i, (a, b) in enumerate(zip(rows_m + [None], rows_r + [None])) if a != b)
                diffs.append((r, "position %d of the serving order %s: model %s, real %s (goroutine, draws, ID code, cookies, first cookie code, session returned, data as written)"
                              % (pos, r["order"], rows_m[pos] if pos < len(rows_m) else None, rows_r[pos] if pos < len(rows_r) else None), pos))
    cov.update({
        "cases": len(recs), "cases_compared_with_model": len(usable), "distinct_nontrivial": len(orders),
        "rule": "one case = K goroutines (2..16) on one due ID under a cache size / codec / grace period / number of earlier rotations; non-trivial = distinct (K, observed order of the critical sections)",
        "case_histogram": hist, "orders_with_last_started_goroutine_first": first_is_last,
        "goroutine_results_compared": sum(r["case"]["k"] for r in usable),
        "oracle_failures": len(concrete), "unordered_cases": len(instr), "model_differences": len(diffs),
        "samples": [{"case": r["case"], "ids_before": r["before"], "order": r["order"], "drew": r["drew"], "ids": r["ids"], "cookies": r["cookies"]} for r in recs[:3]],
    })
    ok = not concrete and not instr and not diffs
    chk.oblige("K goroutines on one due ID (%d real runs, %d goroutines): served once each, one ID drawn by the goroutine served first, all on it; per goroutine = Model/StartConc.v's serial execution in the observed order"
               % (len(recs), cov["goroutine_results_compared"]), ok)
    replay = "harness family conc04k with VERIF_SEED=%d; the case's seed field reproduces the IDs, the schedule is the Go scheduler's" % chk.seed
    for r, what in concrete[:2]:
        chk.violation({"property": "C04", "what": what, "case": r["case"], "observed": {k: v for k, v in r.items() if k != "case"}, "replay": replay})
    if not concrete:
        for r, what in instr[:1]:
            chk.violation({"property": "C04", "no_longer_checks": "checks/conc04k.py: " + what + "; every goroutine's results satisfy the conclusions of C04K_one_new_id",
                           "case": r["case"], "observed": {k: v for k, v in r.items() if k != "case"}, "replay": replay}, no_input=True)
        for r, what, _ in diffs[:2]:
            chk.violation({"property": "C04", "no_longer_checks": "Model/StartConc.v (serial execution in the observed order) against the real goroutines: " + what + "; the real results satisfy the conclusions of C04K_one_new_id",
                           "case": r["case"], "observed": {k: v for k, v in r.items() if k != "case"}, "replay": replay}, no_input=True)
    return ok
