"""C09 — see DESIGN.md §5. Shared machinery: checks/hist_common.py, checks/oracles.py.
The codec the session model assumes is the codec the codec model proves
(Model/CodecBridge.v, Properties/C09B.v): checks/codec_bridge.py evaluates the
modelled round trip on every record the real store is seen to hold."""
import json

from checks import codec_bridge, hist_common


def run(chk):
    codec_bridge.stage(chk)
    return hist_common.run_property(chk, "C09")


def replay(chk, path):
    if "codec_bridge" in json.load(open(path)):
        return codec_bridge.replay(chk, path)
    return hist_common.replay_property(chk, "C09", path)
