"""Shared by the session-history properties (C01-C12, C18): run a history
family on the real code, evaluate the model on the same histories in Coq,
compare, evaluate oracles."""
import json
import os

import vlib

FIELD_NAMES = {0: "number of steps", 1: "result", 2: "session returned by Start", 3: "cookies", 4: "script results",
               5: "session after script", 6: "persistence calls", 7: "cache", 8: "store", 9: "jar", 10: "clock", 11: "ids drawn", 12: "Expired() of stored records"}


def run_family(binary, family, seed, n, args="", tag=""):
    p = os.path.join(vlib.BUILD, "%s-%s-%d.jsonl" % (family, tag, os.getpid()))
    rc, out = vlib.run_harness(binary, family, p, seed=seed, n=n, args=args)
    if rc != 0:
        raise vlib.Machinery("harness family %s failed: %s" % (family, out[-3000:]))
    recs = vlib.read_jsonl(p)
    os.remove(p)
    return recs


def cases_text(recs, expr="flat_diffs (case_diffs cases 0)"):
    text = "From Sessions Require Import Model.Base Model.Sess Model.Hist Model.Corr.\n"
    text += "Local Open Scope N_scope.\n"
    text += "Definition cases : list hcase := [\n" + ";\n".join(r["coq"] for r in recs) + "].\n"
    text += "Definition M := Eval vm_compute in %s.\nPrint M.\n" % expr
    return text


def model_diffs(recs, shard=40, prefix="hist"):
    """Returns list of (record index, step, [field numbers])."""
    usable = [(i, r) for i, r in enumerate(recs) if r.get("coq")]
    jobs, maps = [], []
    for j in range(0, len(usable), shard):
        part = usable[j:j + shard]
        jobs.append(("%s_%d_%d" % (prefix, os.getpid(), j), cases_text([r for _, r in part])))
        maps.append([i for i, _ in part])
    results = vlib.coq_run_many(jobs)
    diffs = []
    for (rc, out), idx in zip(results, maps):
        flat = vlib.parse_printed_list(out, "M") if rc == 0 else None
        if flat is None:
            raise vlib.Machinery("model evaluation failed: %s" % out[-3000:])
        k = 0
        while k < len(flat):
            case, step, nf = flat[k], flat[k + 1], flat[k + 2]
            diffs.append((idx[case], step, flat[k + 3:k + 3 + nf]))
            k += 3 + nf
    return diffs


def model_obs(rec, step):
    """Human-readable dump of the model's observation at a step (diagnostics)."""
    text = "From Sessions Require Import Model.Base Model.Sess Model.Hist Model.Corr.\n"
    text += "Local Open Scope N_scope.\n"
    text += "Definition c : hcase := %s.\n" % rec["coq"]
    text += "Eval vm_compute in (let '(cf, h, o) := c in nth_error (run cf h) %d%%nat).\n" % step
    rc, out = vlib.coq_run("dump_%d" % os.getpid(), text)
    return out
