"""Shared by the session-history properties (C01-C12, C18): run a history
family on the real code, evaluate the model on the same histories in Coq,
compare, evaluate oracles."""
import json
import os

import vlib

FIELD_NAMES = {0: "number of steps", 1: "result", 2: "session returned by Start", 3: "cookies", 4: "script results",
               5: "session after script", 6: "persistence calls", 7: "cache", 8: "store", 9: "jar", 10: "clock", 11: "ids drawn", 12: "Expired() of stored records"}


def run_family(binary, family, seed, n, args="", tag=""):
    p = os.path.join(vlib.BUILD, "%s-%s-%d.jsonl" % (family, tag, os.getpid()))
    rc, out = vlib.run_harness(binary, family, p, seed=seed, n=n, args=args)
    if rc != 0:
        raise vlib.Machinery("harness family %s failed: %s" % (family, out[-3000:]))
    recs = vlib.read_jsonl(p)
    os.remove(p)
    return recs


def cases_text(recs, expr="flat_diffs (case_diffs cases 0)"):
    text = "From Sessions Require Import Model.Base Model.Sess Model.Hist Model.Corr.\n"
    text += "Local Open Scope N_scope.\n"
    text += "Definition cases : list hcase := [\n" + ";\n".join(r["coq"] for r in recs) + "].\n"
    text += "Definition M := Eval vm_compute in %s.\nPrint M.\n" % expr
    return text


def model_diffs(recs, shard=40, prefix="hist"):
    """Returns list of (record index, step, [field numbers])."""
    usable = [(i, r) for i, r in enumerate(recs) if r.get("coq")]
    jobs, maps = [], []
    for j in range(0, len(usable), shard):
        part = usable[j:j + shard]
        jobs.append(("%s_%d_%d" % (prefix, os.getpid(), j), cases_text([r for _, r in part])))
        maps.append([i for i, _ in part])
    results = vlib.coq_run_many(jobs)
    diffs = []
    for (rc, out), idx in zip(results, maps):
        flat = vlib.parse_printed_list(out, "M") if rc == 0 else None
        if flat is None:
            raise vlib.Machinery("model evaluation failed: %s" % out[-3000:])
        k = 0
        while k < len(flat):
            case, step, nf = flat[k], flat[k + 1], flat[k + 2]
            diffs.append((idx[case], step, flat[k + 3:k + 3 + nf]))
            k += 3 + nf
    return diffs


def model_obs(rec, step):
    """Human-readable dump of the model's observation at a step (diagnostics)."""
    text = "From Sessions Require Import Model.Base Model.Sess Model.Hist Model.Corr.\n"
    text += "Local Open Scope N_scope.\n"
    text += "Definition c : hcase := %s.\n" % rec["coq"]
    text += "Eval vm_compute in (let '(cf, h, o) := c in nth_error (run cf h) %d%%nat).\n" % step
    rc, out = vlib.coq_run("dump_%d" % os.getpid(), text)
    return out


# ---------------------------------------------------------------- bundles

import contextlib
import gzip
import hashlib
import re
import time

from checks import oracles

SIZES = {
    "quick": {"hist": 220, "faultenum": (6, "doubles=1 max=500 tail=3"), "crashenum": (8, "max=240")},
    "thorough": {"hist": 4000, "faultenum": (40, "doubles=2 max=9000 tail=5"), "crashenum": (80, "max=5000")},
}


def bundle(tier, seed):
    """Traces of the three history families on the current tree plus the
    model's disagreements, shared by the thirteen session properties (cached
    by tree hash, harness/model hash, seed and tier)."""
    binary, blog = vlib.build_harness()
    if binary is None:
        return {"harness_failed": blog[-4000:]}
    key = vlib.file_hash([binary] + [os.path.join(vlib.COQ, "Model", f) for f in ("Base.v", "Sess.v", "Hist.v", "Corr.v")]
                         + [os.path.join(vlib.ROOT, "checks", "hist_common.py")]
                         + sorted(__import__("glob").glob(os.path.join(vlib.ROOT, "corpus", "defects", "*.json"))))
    name = "bundle-%s-%s-%s-%d.json.gz" % (vlib.repo_hash(), key, tier, seed)
    d = os.path.join(vlib.BUILD, "bundles")
    os.makedirs(d, exist_ok=True)
    path = os.path.join(d, name)
    with vlib.lock("bundle-%s-%d" % (tier, seed)):
        if os.path.exists(path):
            with gzip.open(path, "rt") as f:
                return json.load(f)
        for old in os.listdir(d):
            if time.time() - os.path.getmtime(os.path.join(d, old)) > 3 * 3600:
                os.remove(os.path.join(d, old))
        # the model must be compiled before cases can be evaluated
        ok, out, _ = vlib.coq_build(["Model/Corr"])
        if not ok:
            raise vlib.Machinery("model does not compile: " + out[-3000:])
        t0 = time.time()
        b = {"families": {}, "diffs": {}, "timing": {}}
        sz = SIZES[tier]
        for fam in ("corpus", "hist", "faultenum", "crashenum"):
            t1 = time.time()
            if fam == "corpus":
                # minimised regressions of the defects found so far run first
                hs = []
                import glob as _glob
                for fpath in sorted(_glob.glob(os.path.join(vlib.ROOT, "corpus", "defects", "*.json"))):
                    hs.append(json.load(open(fpath))["history"])
                recs = rerun(binary, hs, "corpus") if hs else []
            else:
                n, args = (sz[fam], "") if fam == "hist" else sz[fam]
                recs = run_family(binary, fam, seed, n, args, tag=tier)
            b["timing"][fam + "_run_s"] = round(time.time() - t1, 1)
            t1 = time.time()
            diffs = model_diffs(recs, prefix=fam)
            b["timing"][fam + "_model_s"] = round(time.time() - t1, 1)
            for r in recs:
                r.pop("coq", None)
            b["families"][fam] = recs
            b["diffs"][fam] = diffs
        b["timing"]["total_s"] = round(time.time() - t0, 1)
        with gzip.open(path, "wt") as f:
            json.dump(b, f)
        return b


# which observation fields each property's correspondence compares
PROJECTION = {
    "C01": {0, 1, 2, 4, 5, 6, 8, 9}, "C02": {0, 1, 2, 3, 6, 8, 11}, "C03": {0, 1, 3, 6, 7, 8, 12}, "C04": {0, 1, 2, 3, 6, 9, 11},
    "C05": {0, 1, 2, 3, 6, 7, 8, 12}, "C06": {0, 1, 3, 6, 8}, "C07": {0, 1, 3, 6, 7, 8, 9}, "C08": {0, 1, 3, 4, 5, 7, 8},
    "C09": {0, 4, 5, 6, 7, 8}, "C10": {0, 1, 2, 6, 8}, "C11": {0, 1, 3, 4, 6, 7, 8}, "C12": {0, 6, 7}, "C18": {0, 3, 9},
}
FAMILIES = {"C10": ["corpus", "crashenum", "faultenum"], "C11": ["corpus", "faultenum"]}
DEFAULT_FAMILIES = ["corpus", "hist", "faultenum", "crashenum"]


def theorem_names(prop):
    p = os.path.join(vlib.COQ, "Properties", prop + ".v")
    if not os.path.exists(p):
        return None
    text = open(p).read()
    text = re.sub(r"\(\*.*?\*\)", "", text, flags=re.S)
    return re.findall(r"^\s*(?:Theorem|Lemma|Corollary)\s+(\w+)", text, flags=re.M)


def replay_record(prop, rec, finding):
    h = rec["history"]
    return {"property": prop, "what": finding["what"], "step": finding["step"], "signature": finding.get("signature"),
            "history": h, "observations": rec["obs"][:finding["step"] + 1][-3:],
            "replay": "./check %s --replay <this file>   (runs the history against /repo through harness family 'replay')" % prop}


def eval_oracle(prop, recs):
    """Returns list of (record index, finding)."""
    res = []
    f = oracles.ORACLES[prop]
    for i, r in enumerate(recs):
        if not r.get("obs"):
            continue
        for x in f(oracles.Trace(r)):
            res.append((i, x))
    return res


def rerun(binary, histories, tag):
    """Run the given histories again (as JSON) through the 'replay' family."""
    p = os.path.join(vlib.BUILD, "replay-%s-%d.json" % (tag, os.getpid()))
    clean = []
    for j, h in enumerate(histories):
        h = json.loads(json.dumps(h))
        h["id"] = j
        for s in h["steps"]:
            s.pop("tb", None)
            s.pop("present", None)
        clean.append(h)
    with open(p, "w") as f:
        json.dump(clean, f)
    try:
        return run_family(binary, "replay", 0, len(clean), "file=" + p, tag=tag)
    finally:
        os.remove(p)


def shrink(binary, prop, rec, finding, rounds=12):
    """Delete steps (and script operations) while the oracle still reports
    the same kind of finding."""
    sig = finding.get("signature")
    what0 = finding["what"].split(":")[0][:40]

    def still(r):
        if not r.get("obs"):
            return None
        for x in oracles.ORACLES[prop](oracles.Trace(r)):
            if x.get("signature") == sig and x["what"].split(":")[0][:40] == what0:
                return x
        return None
    cur, curf = rec, finding
    for _ in range(rounds):
        h = cur["history"]
        cands = []
        n = len(h["steps"])
        # drop everything after the failing step, then single steps, then script ops
        if curf["step"] + 1 < n:
            h2 = dict(h, steps=h["steps"][:curf["step"] + 1])
            cands.append(h2)
        for j in range(min(n, curf["step"] + 1)):
            cands.append(dict(h, steps=h["steps"][:j] + h["steps"][j + 1:]))
        for j in range(min(n, curf["step"] + 1)):
            sc = h["steps"][j].get("script") or []
            for q in range(len(sc)):
                st2 = dict(h["steps"][j], script=sc[:q] + sc[q + 1:])
                cands.append(dict(h, steps=h["steps"][:j] + [st2] + h["steps"][j + 1:]))
        if not cands:
            break
        out = rerun(binary, cands[:200], "shrink")
        nxt = None
        for r in out:
            x = still(r)
            if x is not None:
                nxt = (r, x)
                break
        if nxt is None:
            break
        cur, curf = nxt
    return cur, curf


def idlock_obligation(chk, prop):
    """Start and LogIn take the per-ID lock for the presented ID and release it
    by defer, and nothing else uses the lock manager (Gen/SessShape.v,
    regenerated from the source). Returns True if the obligation holds."""
    ok, log_, _ = vlib.coq_build(["Properties/Shape"])
    names = ["idlock_uses_pinned", "lock_events_pinned", "start_lock_precedes_get", "login_lock_brackets_regenerate"]
    res = vlib.print_assumptions("Properties.Shape", names)[0] if ok else None
    closed = lambda n: bool(res) and res.get(n) == "Closed under the global context"
    texts = {
        "idlock_uses_pinned": "Start and LogIn lock the session ID and unlock by defer; no other use of the per-ID lock (Gen/SessShape.v)",
        "lock_events_pinned": "the ordered lock/table/call events of Start and LogIn are those the model was written against (Gen/LockPos.v)",
        "start_lock_precedes_get": "in Start, Lock(id) and its deferred Unlock(id) immediately precede the first sessions.Get(id), in one block, with nothing but inert statements before",
        "login_lock_brackets_regenerate": "in LogIn, Lock(id) and its deferred Unlock(id) immediately precede RegenerateID",
    }
    good = True
    for n in names:
        chk.oblige("%s: %s" % (n, texts[n]), closed(n))
        good = good and closed(n)
    if not good:
        uses = ""
        for f, d in (("SessShape.v", "Definition idlock_uses"), ("LockPos.v", "Definition lock_events")):
            try:
                gen = open(os.path.join(vlib.COQ, "Gen", f)).read()
                uses += gen[gen.index(d):][:1500] + "\n"
            except (OSError, ValueError):
                pass
        chk.violation({"property": prop, "no_longer_checks": "Properties/Shape.v: idlock_uses_pinned / lock_events_pinned / start_lock_precedes_get / login_lock_brackets_regenerate - the per-ID lock is no longer taken (and released by defer) immediately before Start's lookup-validate-rotate step and LogIn's ID change, which is what reduces concurrent requests on one ID to the serial compositions the theorems are about",
                       "current_uses": uses, "log": log_[-1500:]}, no_input=True)
    return good


def granularity_obligation(chk, prop):
    """cache_ops_atomic / cache_ops_covered over Gen/Access.v plus the probe on
    the real code (family gran). For checks outside run_property."""
    gok, glog, _ = vlib.coq_build(["Properties/Granularity"])
    gres = vlib.print_assumptions("Properties.Granularity", ["cache_ops_atomic", "cache_ops_covered"])[0] if gok else None
    good = True
    for tname in ("cache_ops_atomic", "cache_ops_covered"):
        g = bool(gres) and gres.get(tname) == "Closed under the global context"
        chk.oblige("granularity: " + tname, g)
        good = good and g
    binary, _ = vlib.build_harness()
    if binary:
        gp = os.path.join(vlib.BUILD, "gran-%s-%d.jsonl" % (prop, os.getpid()))
        grc, gout = vlib.run_harness(binary, "gran", gp, seed=chk.seed, n=1)
        grecs = vlib.read_jsonl(gp) if grc == 0 else []
        with contextlib.suppress(OSError):
            os.remove(gp)
        gbad = [r for r in grecs if r.get("unlocked") or r.get("violations") or r.get("error")]
        chk.oblige("granularity probe on the real code (%d scenarios)" % len(grecs), grc == 0 and not gbad)
        for r in gbad[:1]:
            cons = r.get("violations") or []
            chk.violation({"property": prop, "what": (cons[0] if cons else "a persistence call inside a cache operation is made while the cache mutex is free") + " - " + "; ".join((r.get("unlocked") or [])[:3]),
                           "scenario": r["case"], "unlocked_calls": r.get("unlocked"), "consequences": cons, "replay": "harness family gran"})
            return False
    if not good:
        chk.violation({"property": prop, "no_longer_checks": "Properties/Granularity.v: cache_ops_atomic over the regenerated Gen/Access.v", "log": glog[-1500:]}, no_input=True)
    return good


def extra_suffixes(prop):
    import glob, re
    out = []
    for f in sorted(glob.glob(os.path.join(vlib.COQ, "Properties", prop + "?.v"))):
        m = re.match(r"^%s([A-Z])\.v$" % prop, os.path.basename(f))
        if m:
            out.append(m.group(1))
    return out


# statement files of another property whose theorems this property's decision
# rules rest on as well (C03P: the time and user-agent rules translated from
# the Go AST - rotation and backstop are C04's and C05's, staleness is C01's;
# C06P: the remote-address block and the look-up guard len(id) == 24, C02's).
# Since the text pin sess_shape_pinned lists these conditions as placeholders
# (DESIGN 9.11), their meaning is an obligation of every check that runs the pin.
SHARED_STATEMENTS = {p: [m for m in ("C03P", "C06P") if not m.startswith(p)]
                     for p in ("C01", "C02", "C03", "C04", "C05", "C06", "C07", "C08", "C09", "C10", "C11", "C12", "C18")}


def run_property(chk, prop, note=None):
    t0 = time.time()
    thorough = chk.tier == "thorough"
    names = theorem_names(prop)
    proof_ok, plog = True, ""
    if names:
        proof_ok, plog = vlib.standard_proof_stage(chk, prop, names)
        # further statement files: Properties/<prop>H.v (history-level lifts),
        # <prop>L.v (liveness), and any other Properties/<prop><LETTER>.v
        for smod in [prop + x for x in extra_suffixes(prop)] + SHARED_STATEMENTS.get(prop, []):
            hnames = theorem_names(smod)
            if not hnames:
                continue
            first = dict(chk.coverage)
            hok, hlog = vlib.standard_proof_stage(chk, smod, hnames)
            for key in ("assumptions_printed", "coq_files_in_closure"):
                merged = first.get(key)
                if isinstance(merged, dict):
                    merged = dict(merged, **(chk.coverage.get(key) or {}))
                elif isinstance(merged, list):
                    merged = sorted(set(merged) | set(chk.coverage.get(key) or []))
                chk.coverage[key] = merged
            proof_ok, plog = proof_ok and hok, plog + hlog
    else:
        chk.coverage["theorems"] = "Properties/%s.v not present: no theorem is claimed by this run" % prop
    if thorough and names and proof_ok:
        for mod in [prop] + [prop + x for x in extra_suffixes(prop)]:
            if not theorem_names(mod):
                continue
            cok, csum = vlib.coqchk(mod)
            chk.oblige("coqchk re-checks the .vo closure of Properties/%s with no axioms" % mod, cok)
            chk.coverage.setdefault("coqchk_summary", {})[mod] = csum[-300:]
            proof_ok = proof_ok and cok
    # The model treats every cache operation as atomic (request granularity).
    # That is adequate for concurrent use only while every persistence call
    # made inside cache.Get/Set/Delete/compact/PurgeSessions happens under the
    # cache mutex: an obligation over Gen/Access.v, regenerated from the source.
    gran_ok = True
    gok, glog, _ = vlib.coq_build(["Properties/Granularity"])
    gres = None
    if gok:
        gres, graw = vlib.print_assumptions("Properties.Granularity", ["cache_ops_atomic", "cache_ops_covered"])
    for tname in ("cache_ops_atomic", "cache_ops_covered"):
        good = bool(gres) and gres.get(tname) == "Closed under the global context"
        chk.oblige("granularity: " + tname + " (cache operations are atomic under the cache mutex; Gen/Access.v)", good)
        gran_ok = gran_ok and good
    # The decision logic of the modelled functions (if/for conditions, boolean
    # returns of session.go and cache.go outside the codecs) is what the model
    # was written against: Gen/SessShape.v, regenerated on every run, equals the
    # pinned copy.
    sok, slog, _ = vlib.coq_build(["Properties/Shape"])
    sres = vlib.print_assumptions("Properties.Shape", ["sess_shape_pinned"])[0] if sok else None
    shape_ok = bool(sres) and sres.get("sess_shape_pinned") == "Closed under the global context"
    chk.oblige("shape: sess_shape_pinned (conditions of the modelled functions equal those the model was written against; Gen/SessShape.v)", shape_ok)
    b = bundle(chk.tier, chk.seed)
    if "harness_failed" in b:
        chk.oblige("harness builds against the current tree", False)
        chk.violation({"property": prop, "no_longer_checks": "harness build", "log": b["harness_failed"]}, no_input=True)
        return chk.finish()
    chk.oblige("harness builds against the current tree", True)
    binary, _ = vlib.build_harness()
    # the granularity assumption probed on the real code (family gran): every
    # persistence call made inside a cache operation finds the cache mutex held
    gp = os.path.join(vlib.BUILD, "gran-%s-%d.jsonl" % (prop, os.getpid()))
    grc, gout = vlib.run_harness(binary, "gran", gp, seed=chk.seed, n=1)
    grecs = vlib.read_jsonl(gp) if grc == 0 else []
    with contextlib.suppress(OSError):
        os.remove(gp)
    gbad = [r for r in grecs if r.get("unlocked") or r.get("violations") or r.get("error")]
    chk.oblige("granularity probe: no persistence call inside a cache operation finds the cache mutex free (%d scenarios on the real code)" % len(grecs), grc == 0 and not gbad)
    chk.coverage["granularity_probe_scenarios"] = len(grecs)
    gran_violations = 0
    for r in gbad[:1]:
        cons = (r.get("violations") or [])
        chk.violation({"property": prop, "what": (cons[0] if cons else "a persistence call inside a cache operation is made while the cache mutex is free, so concurrent requests can interleave inside it")
                       + " - " + "; ".join((r.get("unlocked") or [])[:3]),
                       "scenario": r["case"], "unlocked_calls": r.get("unlocked"), "consequences": cons, "error": r.get("error"),
                       "replay": "harness family gran (VERIF_FAMILY=gran): create, purge, reload with a Destroy completing inside the load; Destroy with a look-up inside the delete; PurgeSessions with a look-up inside the flush"})
        gran_violations += 1
    fams = FAMILIES.get(prop, DEFAULT_FAMILIES)
    proj = PROJECTION[prop]
    total_h = total_s = 0
    counters = {}
    child_errors = []
    rel_diffs = []
    findings = []
    for fam in fams:
        recs = b["families"][fam]
        total_h += len(recs)
        for r in recs:
            total_s += len(r.get("obs") or [])
            if r.get("error"):
                child_errors.append((fam, r))
            elif r.get("obs"):
                for k, v in oracles.branch_counters(oracles.Trace(r)).items():
                    counters[k] = counters.get(k, 0) + v
        for (ri, step, fields) in b["diffs"][fam]:
            if set(fields) & proj:
                rel_diffs.append((fam, ri, step, fields))
        for ri, x in eval_oracle(prop, recs):
            findings.append((fam, ri, x))
    # a child that died (deadlock, runtime crash, panic outside a call) is a failure of the real code
    for fam, r in child_errors[:3]:
        chk.violation({"property": prop, "what": "the real code crashed or deadlocked while executing a history", "history": r["history"],
                       "detail": r["error"][-3000:]})
    distinct = len({json.dumps(r["history"]["steps"], sort_keys=True) for fam in fams for r in b["families"][fam] if len(r.get("obs") or []) > 3})
    chk.coverage.update({
        "evaluations": total_h, "distinct_nontrivial": distinct,
        "rule": "generated histories (families %s); non-trivial = more than three executed steps; distinct by step list" % ", ".join(fams),
        "histories": total_h, "steps": total_s, "branch_counters": counters,
        "model_impl_mismatches": len(rel_diffs), "projection_fields": sorted(FIELD_NAMES[f] for f in proj),
        "oracle_evaluations_on_impl": total_h, "oracle_findings": len(findings),
        "bundle_timing": b.get("timing"),
        "samples": [{"cfg": r["history"]["cfg"], "steps": r["history"]["steps"][:6]} for r in b["families"][fams[1]][:2]],
    })
    # generator self-test: the branches this property depends on must be exercised
    needed = {"C01": ["start:plain", "start:rotate"], "C02": ["lookup:miss", "present:forged-other"], "C03": ["start:stale", "start:plain"],
              "C04": ["start:rotate", "op:regen:ok"], "C05": ["start:redirect"], "C06": ["start:ip-anomaly", "start:ua-anomaly"],
              "C07": ["op:destroy:ok", "start:stale"], "C08": ["op:login:ok", "step:logoutuser", "step:refreshuser"],
              "C09": ["op:set:ok", "step:drop"], "C10": ["res:crashed"], "C11": ["ev:save:cacheset:failed", "ev:load:failed"],
              "C12": ["ev:save:compact", "step:purge"], "C18": ["cookie:live", "cookie:delete"]}[prop]
    missing = [x for x in needed if not counters.get(x)]
    if missing:
        raise vlib.Machinery("generator self-test: branches never exercised: %s" % missing)
    chk.oblige("model = implementation on the %s projection of %d histories / %d steps" % (prop, total_h, total_s), not rel_diffs)

    reported = set()
    nviol = 0
    for fam, ri, x in findings:
        rec = b["families"][fam][ri]
        sigkey = (x.get("signature"), x["what"].split(":")[0][:40])
        if sigkey in reported:
            continue
        reported.add(sigkey)
        known = x.get("signature") and any(f.get("kind") == "known" and f.get("signature") == x["signature"] for f in chk.findings)
        if known:
            chk.violation(replay_record(prop, rec, x), signature=x["signature"], what=x["what"])
            continue
        if nviol >= 3:
            continue
        nviol += 1
        try:
            rec2, x2 = shrink(binary, prop, rec, x)
        except vlib.Machinery:
            rec2, x2 = rec, x
        chk.violation(replay_record(prop, rec2, x2), signature=x2.get("signature"), what=x2["what"])
    nviol += gran_violations
    chk.coverage["oracle_holds_on_impl"] = nviol == 0

    if nviol == 0 and rel_diffs:
        # model and code differ on this property's projection but no oracle
        # failure so far: spend a search budget on more histories
        sfam = fams[1]
        extra = run_family(binary, sfam, chk.seed + 7919, SIZES[chk.tier]["hist"] if sfam == "hist" else 10,
                           "" if sfam == "hist" else SIZES[chk.tier][sfam][1], tag="search")
        more = eval_oracle(prop, extra)
        more = [(ri, x) for ri, x in more if not (x.get("signature") and any(f.get("kind") == "known" and f.get("signature") == x["signature"] for f in chk.findings))]
        chk.coverage["search_histories"] = len(extra)
        if more:
            ri, x = more[0]
            rec2, x2 = shrink(binary, prop, extra[ri], x)
            chk.violation(replay_record(prop, rec2, x2), signature=x2.get("signature"), what=x2["what"])
        else:
            fam, ri, step, fields = rel_diffs[0]
            rec = b["families"][fam][ri]
            chk.violation({"property": prop, "no_longer_checks": "correspondence between Model/Sess.v and the implementation on the %s projection" % prop,
                           "first_difference": {"step": step, "fields": [FIELD_NAMES[f] for f in fields]},
                           "history": rec["history"], "observations": rec["obs"][max(0, step - 1):step + 1]}, no_input=True)
    elif nviol == 0 and not proof_ok:
        chk.violation({"property": prop, "no_longer_checks": "theorems of Properties/%s.v" % prop,
                       "obligations": chk.obligations, "log": plog[-3000:]}, no_input=True)
    elif nviol == 0 and not shape_ok:
        diff = ""
        try:
            gen = open(os.path.join(vlib.COQ, "Gen", "SessShape.v")).read().split("\n")
            pin = open(os.path.join(vlib.COQ, "Proofs", "ShapePinned.v")).read().split("\n")
            import difflib
            diff = "\n".join(l for l in difflib.unified_diff(pin, gen, "pinned", "current source", lineterm="", n=0) if l[:1] in "+-")[:2500]
        except OSError:
            pass
        chk.violation({"property": prop, "no_longer_checks": "Properties/Shape.v: sess_shape_pinned - a condition of a modelled function of session.go/cache.go differs from the one Model/Sess.v was written against; the histories explored show no failure of %s" % prop,
                       "changed_conditions": diff, "log": slog[-1500:]}, no_input=True)
    elif nviol == 0 and not gran_ok:
        chk.violation({"property": prop, "no_longer_checks": "Properties/Granularity.v: cache_ops_atomic over the regenerated Gen/Access.v - a persistence call inside a cache operation is no longer made under the cache mutex, so the request-granularity model (and every theorem about it) no longer covers concurrent requests; the request-granularity histories explored show no failure",
                       "log": glog[-2500:]}, no_input=True)
    return chk.finish(
        level="proof" if names else "translation_validation",
        trusted_base=["Python oracles (checks/oracles.py) that turn real traces into violations; they state the property on observables and are not part of any proof"],
        extra_assumptions=([note] if note else []) + [
            "theorems are about Model/Sess.v + Model/Hist.v; the tie to session.go/cache.go is the differential comparison of this run, the regenerated Gen/SessShape.v and Gen/Access.v obligations, and nothing else",
            "request granularity: whole API calls are atomic in the model (adequate for concurrent requests only under cache_ops_atomic, C13 and C15)",
            "generated IDs never collide with each other or with a presented value that was not issued (2^-128 per pair)",
            "net/http cookie handling, encoding/gob|json, time, regexp on well-formed host:port strings, hash/fnv as specified in DESIGN.md 9.13",
            "properties that do not quantify over store failures or crashes are judged on the fault-free, crash-free prefix of each history",
        ])


def replay_property(chk, prop, path):
    rep = json.load(open(path))
    binary, blog = vlib.build_harness()
    if binary is None:
        print(blog[-2000:])
        return 2
    if "history" not in rep:
        print(json.dumps(rep, indent=1)[:4000])
        return 0
    out = rerun(binary, [rep["history"]], "replay")
    fs = eval_oracle(prop, out)
    for ri, x in fs:
        print("step %d: %s%s" % (x["step"], x["what"], " [%s]" % x["signature"] if x.get("signature") else ""))
    d = model_diffs(out, prefix="replay") if out and out[0].get("coq") else []
    for i, step, f in d:
        print("model/implementation differ at step %d in %s" % (step, [FIELD_NAMES[z] for z in f]))
    if fs:
        print("VIOLATION property=%s replay=%s" % (prop, path))
        return 1
    print("no violation on the current tree")
    return 0
