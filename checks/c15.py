"""C15 — concurrent use of sessions is data-race free and each operation is
atomic (DESIGN.md §5, C15).

(a) lockset discipline: `lockset_sound` proved once; the obligations
    C15_table / C15_calls / C15_single_section are re-checked over the table
    the translator regenerates from the Go source on every run. When one
    fails, the Go race detector searches for a concrete schedule.
(b) no panics (and no request that never returns) in concurrent workloads.
(c) linearizability: proved for the interleaving semantics; recorded
    call/return histories of the real methods are judged by the Gallina
    checker `lin_check` (proved sound) under vm_compute.
"""
import json
import os
import re
import time
from concurrent.futures import ThreadPoolExecutor

import vlib

THEOREMS = ["C15_lockset_sound", "C15_lockset_race_free", "C15_table_discipline", "C15_linearizable",
            "C15_history_linearizable", "C15_atomic_runs_are_sequential", "C15_response_is_linearized_result",
            "C15_getdel_once", "C15_lin_check_sound"]
TABLE_THEOREMS = ["C15_table", "C15_calls", "C15_single_section", "C15_table_covers"]
KV_METHODS = ["Session.Set", "Session.Get", "Session.Delete", "Session.GetAndDelete"]

ROW_RE = re.compile(r'^\s*mkRow "([^"]*)" "([^"]*)" (\d+)%N "((?:[^"]|"")*)" "([^"]*)" "([^"]*)" (Rd|Wr) (\[.*?\]) (true|false) (true|false) (true|false) (\d+)%N (true|false) (true|false) (true|false);?\s*$')
CALL_RE = re.compile(r'^\s*mkCall "([^"]*)" "([^"]*)" (\d+)%N "([^"]*)" "((?:[^"]|"")*)" (\[.*?\]) (\d+)%N (true|false) (true|false);?\s*$')


def read_table():
    """The generated table, parsed from Gen/Access.v (one row per line)."""
    rows, calls = [], []
    path = os.path.join(vlib.COQ, "Gen", "Access.v")
    try:
        text = open(path).read()
    except OSError:
        return None, None
    for line in text.split("\n"):
        if line.lstrip().startswith("mkRow "):
            m = ROW_RE.match(line)
            if not m:
                raise vlib.Machinery("cannot parse table row: " + line)
            g = m.groups()
            rows.append({"func": g[0], "file": g[1], "line": int(g[2]), "recv": g[3].replace('""', '"'), "struct": g[4], "field": g[5],
                         "rw": g[6], "held": g[7], "lit": g[8] == "true", "decode": g[9] == "true", "fresh": g[10] == "true",
                         "go": int(g[11]), "onrecv": g[12] == "true", "loop": g[13] == "true", "init": g[14] == "true"})
        elif line.lstrip().startswith("mkCall "):
            m = CALL_RE.match(line)
            if not m:
                raise vlib.Machinery("cannot parse call row: " + line)
            g = m.groups()
            calls.append({"func": g[0], "file": g[1], "line": int(g[2]), "callee": g[3], "recv": g[4], "held": g[5]})
    return rows, calls


def failing_obligations(chk):
    """Indices of the rows / calls / methods on which the table obligations
    fail, computed by vm_compute over the generated table."""
    text = ("From Sessions Require Import Model.Base Model.Lockset Gen.Access.\n"
            "Definition FR := Eval vm_compute in failing access_ok table 0%N.\nPrint FR.\n"
            "Definition FC := Eval vm_compute in failing call_ok calls 0%N.\nPrint FC.\n"
            "Definition FS := Eval vm_compute in failing (fun p => single_section_fn table (fst p) (snd p)) kv_methods 0%N.\nPrint FS.\n"
            "Definition FV := Eval vm_compute in failing (fun f => mem_str f functions) required_functions 0%N.\nPrint FV.\n")
    rc, out = vlib.coq_run("c15_rows_%d" % os.getpid(), text)
    if rc != 0:
        return None, out
    fr, fc, fs, fv = (vlib.parse_printed_list(out, n) for n in ("FR", "FC", "FS", "FV"))
    if fr is None or fc is None or fs is None or fv is None:
        return None, out
    return (fr, fc, fs, fv), out


def table_stage(chk):
    """Build Properties/C15Table.vo over the regenerated table. When it does
    not build, the obligations are judged one by one by evaluating them.
    Returns (ok, log, failing or None)."""
    ok, out, gen_ok = vlib.coq_build(["Properties/C15Table"])
    chk.coverage["gen_tables_ok"] = gen_ok
    if ok:
        res, raw = vlib.print_assumptions("Properties.C15Table", TABLE_THEOREMS)
        if res is None:
            for t in TABLE_THEOREMS:
                chk.oblige(t, False)
            return False, raw, None
        chk.coverage["assumptions_printed"] = dict(chk.coverage.get("assumptions_printed") or {}, **res)
        allok = True
        for t in TABLE_THEOREMS:
            closed = res.get(t, "") == "Closed under the global context"
            chk.oblige(t, closed)
            allok = allok and closed
        return allok, out, None
    res = None
    if read_table()[0]:
        res, raw = failing_obligations(chk)
        if res is None:
            chk.coverage["table_evaluation_error"] = raw[-1500:]
    for i, t in enumerate(TABLE_THEOREMS):
        chk.oblige(t, res is not None and not res[i])
    return False, out, res


# ---------------------------------------------------------------- race reports

FRAME_RE = re.compile(r"^\s+(\S.*)\([^()\n]*\)\n\s+(\S+?):(\d+)(?: \+0x[0-9a-f]+)?\s*$", re.M)


def parse_race_reports(out, repo):
    """Returns a list of reports; each has the two accesses with the first
    stack frame that lies in the package's source (not the hooks file)."""
    repo = os.path.abspath(repo) + "/"
    reports = []
    for block in out.split("=================="):
        if "WARNING: DATA RACE" not in block:
            continue
        accesses = []
        for para in re.split(r"\n\s*\n", block):
            para = para.replace("WARNING: DATA RACE\n", "")
            m = re.match(r"\s*((?:Previous )?(?:atomic )?(?:[Rr]ead|[Ww]rite)) at (0x[0-9a-f]+) by (?:main )?goroutine (\d+)", para)
            if not m:
                continue
            acc = {"kind": m.group(1).lower().replace("previous ", ""), "goroutine": int(m.group(3)), "site": None, "stack": []}
            for fm in FRAME_RE.finditer(para):
                fn, file, line = fm.group(1), fm.group(2), int(fm.group(3))
                acc["stack"].append("%s %s:%d" % (fn, file, line))
                if acc["site"] is None and file.startswith(repo) and not file.endswith("verif_hooks.go"):
                    acc["site"] = {"func": fn.split("/")[-1], "file": file[len(repo):], "line": line}
            acc["stack"] = acc["stack"][:8]
            accesses.append(acc)
        if len(accesses) >= 2:
            reports.append({"a": accesses[0], "b": accesses[1]})
    return reports


def report_key(r):
    def site(a):
        s = a["site"]
        return "%s:%d" % (s["file"], s["line"]) if s else "?"
    return " <-> ".join(sorted([site(r["a"]) + " (" + r["a"]["kind"] + ")", site(r["b"]) + " (" + r["b"]["kind"] + ")"]))


def in_package(r):
    return r["a"]["site"] is not None and r["b"]["site"] is not None


# ------------------------------------------------------------------- workloads

def race_configs(chk, thorough):
    """(name, args, seed, n): sharing through a large cache, tiny caches with
    constant eviction, and a cache that expires entries after 1 ms."""
    base = chk.seed * 1000
    n = 30000 if thorough else 3000
    cfgs = [("shared", "cache=64 cacheexp_ms=3600000", base + 1, n),
            ("tiny", "cache=%d cacheexp_ms=3600000 clients=4" % (1 + chk.seed % 3), base + 2, n),
            ("expiring", "cache=8 cacheexp_ms=1", base + 3, n),
            ("unlimited", "cache=-1 cacheexp_ms=3600000 clients=2 inflight=5", base + 4, n)]
    if thorough:
        for k in range(8):
            cfgs.append(("shared%d" % k, "cache=%d cacheexp_ms=3600000 inflight=%d grace_ms=%d" % (16 + 8 * k, 2 + k % 4, 20 + 40 * k), base + 10 + k, n))
            cfgs.append(("tiny%d" % k, "cache=%d cacheexp_ms=%d clients=%d" % (k % 4, [3600000, 1][k % 2], 2 + k % 3), base + 30 + k, n))
    return cfgs


def run_family(binary, family, seed, n, args, tag, timeout=240):
    t0 = time.time()
    out_path = os.path.join(vlib.BUILD, "c15-%s-%d-%s.jsonl" % (family, os.getpid(), tag))
    rc, out = vlib.run_harness(binary, family, out_path, seed=seed, n=n, args=args, timeout=timeout)
    recs = []
    if os.path.exists(out_path):
        try:
            recs = vlib.read_jsonl(out_path)
        except ValueError:
            recs = []
        os.remove(out_path)
    vlib.log("c15: %s/%s rc=%d %.1fs" % (family, tag, rc, time.time() - t0))
    return {"family": family, "seed": seed, "n": n, "args": args, "tag": tag, "rc": rc, "out": out, "recs": recs}


def replay_cmd(binary, w):
    return "VERIF_FAMILY=%s VERIF_SEED=%d VERIF_N=%d VERIF_ARGS='%s' VERIF_OUT=/dev/null %s -test.run '^TestFamily$'" % (
        w["family"], w["seed"], w["n"], w["args"], binary)


def crashed(w):
    """The process died other than by the race detector's exit code."""
    o = w["out"]
    return ("fatal error:" in o or "panic:" in o or w["rc"] == 124 or
            (w["rc"] not in (0, 1, 66) and not any(r.get("hang") for r in w["recs"])))


def lin_case_text(recs):
    text = "From Sessions Require Import Model.Base Model.Lockset.\n"
    text += "Definition cases : list lin_case := [\n" + ";\n".join(r["coq"] for r in recs) + "].\n"
    text += "Definition M := Eval vm_compute in lin_failures cases.\nPrint M.\n"
    return text


def eval_lin(recs, shard=200):
    jobs = []
    for i in range(0, len(recs), shard):
        jobs.append(("c15_lin_%d_%d" % (os.getpid(), i), lin_case_text(recs[i:i + shard])))
    bad = []
    for k, (rc, out) in enumerate(vlib.coq_run_many(jobs, timeout=600)):
        m = vlib.parse_printed_list(out, "M") if rc == 0 else None
        if m is None:
            raise vlib.Machinery("linearizability evaluation failed on shard %d: %s" % (k, out[-2000:]))
        bad += [k * shard + x for x in m]
    return bad


def writers_of(rows, struct, field):
    return sorted({r["func"] for r in rows if r["struct"] == struct and r["field"] == field and r["rw"] == "Wr"
                   and not (r["lit"] or r["decode"] or r["fresh"] or r["init"])})


# ------------------------------------------------------------------------- run

def run(chk):
    thorough = chk.tier == "thorough"
    cov = chk.coverage

    # 0. atomicity of the cache operations (each persistence call inside them is
    #    made under the cache mutex held for the whole function): Gen/Access.v
    #    cache_calls table + the probe on the real code
    from checks import hist_common
    hist_common.granularity_obligation(chk, "C15")
    # 1. proofs: the general theorems, then the obligations over the table
    ok_general, out_general = vlib.standard_proof_stage(chk, "C15", THEOREMS)
    ok_table, out_table, failing = table_stage(chk)
    if thorough and ok_general and ok_table:
        good = True
        for mod in ("C15", "C15Table"):
            with vlib.lock("coq"):
                try:
                    rc, cout = vlib.sh(["timeout", "1500", "coqchk", "-silent", "-o", "-Q", ".", "Sessions", "Sessions.Properties." + mod], cwd=vlib.COQ)
                except Exception as e:  # noqa: BLE001
                    rc, cout = 1, str(e)
            g = rc == 0 and "* Axioms: <none>" in cout
            chk.oblige("coqchk re-checks the .vo closure of Properties/%s.v: no axioms" % mod, g)
            cov["coqchk_tail_" + mod] = cout[-400:]
            good = good and g
        ok_general = ok_general and good
    # (gen_tables_ok is about all generators; only Gen/Access.v matters here)
    rows, calls = read_table()
    flagged, flagged_calls, flagged_sections, missing_functions = [], [], [], []
    translator_error = None
    if not rows:
        try:
            head = open(os.path.join(vlib.COQ, "Gen", "Access.v")).read(3000)
        except OSError:
            head = "Gen/Access.v was not written"
        translator_error = head
        rows, calls = [], []
    elif failing is not None:
        flagged = [rows[i] for i in failing[0]]
        flagged_calls = [calls[i] for i in failing[1]]
        flagged_sections = [KV_METHODS[i] for i in failing[2]]
        missing_functions = failing[3]
    cov["table_rows"] = len(rows)
    cov["table_calls"] = len(calls)
    cov["table_rows_by_struct"] = {}
    for r in rows:
        cov["table_rows_by_struct"][r["struct"]] = cov["table_rows_by_struct"].get(r["struct"], 0) + 1
    cov["table_rows_locked"] = sum(1 for r in rows if r["held"] != "[]")
    cov["table_rows_exempt"] = sum(1 for r in rows if r["lit"] or r["decode"] or r["fresh"] or r["init"])
    cov["flagged_rows"] = [{k: r[k] for k in ("func", "file", "line", "recv", "struct", "field", "rw", "held")} for r in flagged]
    cov["flagged_calls"] = flagged_calls
    cov["flagged_single_section"] = flagged_sections
    cov["required_functions_missing_from_table"] = len(missing_functions)
    cov["translator_error"] = translator_error

    # 2. harness
    race_bin, rlog = vlib.build_harness(race=True)
    plain_bin, plog = vlib.build_harness()
    chk.oblige("harness builds against the current tree (race detector and plain)", race_bin is not None and plain_bin is not None)
    if race_bin is None or plain_bin is None:
        chk.violation({"property": "C15", "no_longer_checks": "harness build", "log": (rlog or plog)[-3000:]}, no_input=True)
        return chk.finish(trusted_base=TRUSTED)

    # 3. workloads
    jobs = []
    for name, args, seed, n in race_configs(chk, thorough):
        jobs.append((race_bin, "race", seed, n, args, name))
    # the slower -race binary gives far more real overlap per window
    lin_rounds = 20000 if thorough else 4000
    jobs.append((race_bin, "linhist", chk.seed + 2, lin_rounds, "keys=2", "race2"))
    jobs.append((race_bin, "linhist", chk.seed + 3, lin_rounds // 2, "keys=1", "race1"))
    jobs.append((plain_bin, "linhist", chk.seed, lin_rounds, "keys=2", "plain2"))
    if thorough:
        for k in range(4):
            jobs.append((race_bin, "linhist", chk.seed + 10 + k, lin_rounds, "keys=%d" % (1 + k % 3), "race-t%d" % k))
    pairs = []
    for r in flagged:
        for w in writers_of(rows, r["struct"], r["field"]):
            if (r["func"], w) not in pairs:
                pairs.append((r["func"], w))
    for m in flagged_sections:
        for w in KV_METHODS:
            if (m, w) not in pairs:
                pairs.append((m, w))
    if pairs:
        jobs.append((race_bin, "racepair", chk.seed, 1, "iters=%d pairs=%s" % (6000 if thorough else 1500, ",".join("%s~%s" % p for p in pairs)), "pairs"))
    vlib.log("c15: proofs and builds done %.1fs; %d workloads" % (time.time() - chk.t0, len(jobs)))
    with ThreadPoolExecutor(max_workers=6 if thorough else 8) as ex:
        results = list(ex.map(lambda j: run_family(*j, timeout=2400 if thorough else 240), jobs))
    vlib.log("c15: workloads done %.1fs" % (time.time() - chk.t0))

    # 4. what the runs showed
    all_reports, panics, hangs, crashes = [], [], [], []
    op_hist, start_hist = {}, {}
    requests = objects = shared_objects = overlaps = 0
    lin_recs, lin_summaries = [], []
    pair_results = []
    for w in results:
        reps = parse_race_reports(w["out"], vlib.REPO)
        for rep in reps:
            rep["workload"] = {k: w[k] for k in ("family", "seed", "n", "args", "tag")}
        all_reports += reps
        if crashed(w):
            crashes.append({"workload": {k: w[k] for k in ("family", "seed", "n", "args", "tag")}, "rc": w["rc"], "output_tail": w["out"][-3000:]})
        for rec in w["recs"]:
            for p in rec.get("panics") or []:
                panics.append(dict(p, workload={k: w[k] for k in ("family", "seed", "n", "args", "tag")}))
            if rec.get("hang"):
                hangs.append({"workload": {k: w[k] for k in ("family", "seed", "n", "args", "tag")}, "requests_left": rec.get("requests_left"),
                              "goroutines_in_package": (rec.get("goroutines_in_package") or [])[:6]})
            if rec.get("family") == "race" and not rec.get("hang"):
                requests += rec["requests"]
                objects += rec["objects"]
                shared_objects += rec["objects_used_by_several_goroutines"]
                overlaps += rec["shared_object_overlaps"]
                for k, v in rec["counts"].items():
                    tgt = op_hist if k.startswith("op:") else start_hist
                    tgt[k] = tgt.get(k, 0) + v
            if rec.get("family") == "linhist":
                if rec.get("summary"):
                    lin_summaries.append(dict(rec, tag=w["tag"]))
                else:
                    lin_recs.append(dict(rec, workload={k: w[k] for k in ("family", "seed", "n", "args", "tag")}))
            if rec.get("family") == "racepair" and "pair" in rec:
                pair_results.append(rec)
    pkg_reports = [r for r in all_reports if in_package(r)]
    other_reports = [r for r in all_reports if not in_package(r)]
    by_key = {}
    for r in pkg_reports:
        by_key.setdefault(report_key(r), []).append(r)

    # linearizability of the recorded windows
    bad_lin = eval_lin(lin_recs) if lin_recs else []
    vlib.log("c15: %d histories evaluated %.1fs" % (len(lin_recs), time.time() - chk.t0))
    cov.update({
        "requests": requests, "operations": op_hist, "start_results": start_hist,
        "session_objects_seen": objects, "objects_used_by_several_goroutines": shared_objects,
        "handlers_overlapping_on_one_object": overlaps,
        "workloads": [{"tag": w["tag"], "family": w["family"], "args": w["args"], "seed": w["seed"], "n": w["n"], "rc": w["rc"]} for w in results],
        "race_reports": len(all_reports), "race_reports_in_package": len(pkg_reports), "distinct_race_pairs": sorted(by_key),
        "race_reports_outside_package": [report_key(r) for r in other_reports[:5]],
        "panics": len(panics), "hangs": len(hangs), "crashes": len(crashes),
        "histories": len(lin_recs), "histories_with_overlap": sum(1 for r in lin_recs if r.get("overlap")),
        "history_kinds": {k: sum(s["kinds"].get(k, 0) for s in lin_summaries) for s in lin_summaries for k in s["kinds"]},
        "oracle_evaluations_on_impl": len(lin_recs), "non_linearizable_histories": len(bad_lin),
        "targeted_pairs": [r["pair"] for r in pair_results],
        "evaluations": requests + len(lin_recs),
        "distinct_nontrivial": len({r["coq"] for r in lin_recs if r.get("overlap")}) + shared_objects,
        "rule": "evaluations = concurrent requests + recorded key/value windows; non-trivial = distinct windows (as Coq terms) in which operations really overlapped + session objects used by several goroutines",
        "samples": [{"mode": r["mode"], "threads": r["threads"], "init": r["init"], "events": r["events"], "final": r["final"]}
                    for r in ([x for x in lin_recs if x.get("overlap")] or lin_recs)[:3]],
    })
    chk.oblige("race detector silent on %d concurrent requests and %d targeted pairs" % (requests, len(pair_results)), not pkg_reports and not other_reports)
    chk.oblige("no panic, no request that never returns, no crash", not panics and not hangs and not crashes)
    chk.oblige("lin_check = true on %d recorded histories (%d with real overlap)" % (len(lin_recs), cov["histories_with_overlap"]), not bad_lin)
    # the workload must have exercised what it claims (self-test of the generator)
    exercised = requests > 0 and shared_objects > 0 and cov["histories_with_overlap"] > 0 and \
        all(op_hist.get("op:" + o, 0) > 0 for o in ("Set", "Get", "Delete", "GetAndDelete", "LogIn", "LogOut", "RegenerateID", "User", "LastAccess", "Expired", "GobEncode", "MarshalJSON", "CUID"))
    if not (crashes or hangs):
        chk.oblige("workloads exercised every operation, shared objects and overlapping windows", exercised)
        if not exercised and not (pkg_reports or panics or bad_lin):
            raise vlib.Machinery("workloads did not exercise what they claim: %s" % json.dumps({"ops": op_hist, "shared": shared_objects, "overlap": cov["histories_with_overlap"]}))

    # 5. verdicts
    if pkg_reports:
        confirmed = []
        for r in flagged:
            hits = [k for k, reps in by_key.items() if any(
                a["site"]["file"] == r["file"] and a["site"]["line"] == r["line"] for rep in reps for a in (rep["a"], rep["b"]))]
            confirmed.append({"row": {k: r[k] for k in ("func", "file", "line", "recv", "field", "rw", "held")}, "race_pairs": hits})
        races = []
        for k in sorted(by_key):
            rep = by_key[k][0]
            races.append({"pair": k, "reports": len(by_key[k]),
                          "access_1": dict(rep["a"]["site"], kind=rep["a"]["kind"]), "access_2": dict(rep["b"]["site"], kind=rep["b"]["kind"]),
                          "stack_1": rep["a"]["stack"], "stack_2": rep["b"]["stack"],
                          "workload": rep["workload"], "replay_cmd": replay_cmd(race_bin, rep["workload"])})
        chk.violation({"property": "C15", "kind": "data race (Go race detector)", "races": races,
                       "table_rows_failing_C15_table": confirmed, "seed": chk.seed,
                       "replay": "./check C15 --replay <this file> re-runs the first workload under the race detector"})
    if other_reports and not pkg_reports:
        # a race whose stacks do not reach the package: the harness itself
        raise vlib.Machinery("race report outside the package (harness bug): " + report_key(other_reports[0]))
    for p in panics[:2]:
        chk.violation({"property": "C15", "kind": "panic in a concurrent workload", "panic": p["panic"], "where": p["where"],
                       "stack": p["stack"][:4000], "workload": p["workload"], "replay_cmd": replay_cmd(race_bin, p["workload"])})
    for h in hangs[:1]:
        chk.violation({"property": "C15", "kind": "a request never returned (workload made no progress)", "detail": h,
                       "replay_cmd": replay_cmd(race_bin, h["workload"])})
    for c in crashes[:1]:
        if not hangs:
            chk.violation({"property": "C15", "kind": "harness process died (fatal error / unrecovered panic / timeout)", "detail": c,
                           "replay_cmd": replay_cmd(race_bin, c["workload"])})
    for i in bad_lin[:2]:
        r = lin_recs[i]
        chk.violation({"property": "C15", "kind": "history of key/value operations on one session is not linearizable (lin_check = false)",
                       "initial_data": r["init"], "events": r["events"], "final_data": r["final"], "mode": r["mode"], "threads": r["threads"],
                       "coq_case": r["coq"], "workload": r["workload"],
                       "replay_cmd": replay_cmd(plain_bin if r["workload"]["tag"].startswith("plain") else race_bin, r["workload"])})
    if not chk.violations:
        if translator_error is not None:
            chk.violation({"property": "C15", "no_longer_checks": "translator rejects the tree (Gen/Access.v)", "log": translator_error}, no_input=True)
        elif not ok_table:
            chk.violation({"property": "C15", "no_longer_checks": "obligations of Properties/C15Table.v over the regenerated Gen/Access.v",
                           "C15_table_failing_rows": cov["flagged_rows"], "C15_calls_failing": flagged_calls,
                           "C15_single_section_failing_methods": flagged_sections,
                           "searched": {"requests": requests, "targeted_pairs": cov["targeted_pairs"], "histories": len(lin_recs)},
                           "log": out_table[-1500:] if not (flagged or flagged_calls or flagged_sections) else ""}, no_input=True)
        elif not ok_general:
            chk.violation({"property": "C15", "no_longer_checks": "theorems of Properties/C15.v", "obligations": chk.obligations,
                           "log": out_general[-3000:]}, no_input=True)
    return chk.finish(trusted_base=TRUSTED, extra_assumptions=ASSUMPTIONS,
                      checker_cmd="translator /repo coq/Gen (Gen/Access.v); coq_makefile -f _CoqProject -o Makefile && make -j16 Properties/C15.vo Properties/C15Table.vo (coqc 8.16.1); "
                                  "Print Assumptions per theorem; coqc on generated cases files (Eval vm_compute in lin_failures cases); "
                                  "go1.26.8 test -c -race -tags verif (harness), race reports parsed from its output"
                                  + ("; coqchk -silent -o -Q . Sessions Sessions.Properties.C15 / C15Table" if thorough else ""))


TRUSTED = [
    "translator/access.go: its reading of the Go syntax (which expressions access which field, which sync locks are held where); types resolved by go/types without loading imports",
    "sync.Mutex / sync.RWMutex behave as Model/Lockset.v's wf_locks says; the Go memory model's happens-before is at least Model/Lockset.v's hb",
    "the Go race detector (go1.26.8 -race) and the workloads of harness/race_test.go for the search for concrete schedules",
]
ASSUMPTIONS = [
    "table_discipline's hypotheses: rows describe the dynamic accesses (READING), caller-holds helpers are entered with the lock held (HELPER, checked at call sites by C15_calls), the embedded mutex belongs to the receiver object / lastMutex is one lock / an item belongs to the table whose itemsMutex is held (IDENTITY), mutexItem.locks is touched by one manager goroutine per table (CONFINED), literal/decode/fresh/init-time accesses precede publication (UNPUBLISHED), objects reach other goroutines through synchronisation (PUBLICATION)",
    "GobDecode/UnmarshalJSON are called on objects that are not yet shared (they are constructors)",
    "package-level configuration variables and the fields of ExtendablePersistenceLayer are set before the package is used concurrently",
    "atomicity is claimed for the in-memory key/value operations; the save that Set/Delete issue after unlocking is outside the model",
    "recorded histories take the call timestamp before and the return timestamp after the real call: a linearizable behaviour is never rejected, a violation may be missed",
]


def replay(chk, path):
    d = json.load(open(path))
    print(json.dumps(d, indent=1)[:6000])
    w = None
    if d.get("races"):
        w = d["races"][0]["workload"]
    elif d.get("workload"):
        w = d["workload"]
    elif d.get("detail", {}).get("workload"):
        w = d["detail"]["workload"]
    if not w:
        return 0
    plain = w["family"] == "linhist" and str(w.get("tag", "")).startswith("plain")
    binary, log = vlib.build_harness(race=not plain)
    if binary is None:
        print(log[-2000:])
        return 1
    res = run_family(binary, w["family"], w["seed"], w["n"], w["args"], "replay")
    reps = [r for r in parse_race_reports(res["out"], vlib.REPO) if in_package(r)]
    keys = sorted({report_key(r) for r in reps})
    print("replay: rc=%d, %d race reports in the package" % (res["rc"], len(reps)))
    for k in keys:
        print("  race:", k)
    bad = []
    lin = [r for r in res["recs"] if r.get("family") == "linhist" and not r.get("summary")]
    if lin:
        bad = eval_lin(lin)
        print("replay: %d of %d recorded histories are not linearizable" % (len(bad), len(lin)))
        for i in bad[:2]:
            print(json.dumps({k: lin[i][k] for k in ("init", "events", "final")}))
    pan = [p for r in res["recs"] for p in (r.get("panics") or [])]
    hang = any(r.get("hang") for r in res["recs"])
    if pan:
        print("replay: panic:", pan[0]["panic"])
    if hang:
        print("replay: the workload made no progress (a request never returned)")
    return 1 if (reps or bad or pan or hang or crashed(res)) else 0
