package harness

// Generators of histories: structured, mostly valid histories (clients that
// follow their cookies, waits placed at thresholds +-1 ns, configurations
// drawn from {0, small, finite, forever}) plus a malformed stream (forged
// cookie values of every length class, formerly valid IDs replayed).

import (
	"math"
	"math/rand/v2"
	"strings"
	"testing"
	"time"
)

const forever = math.MaxInt64

func pickDur(g *rand.Rand, opts ...int64) int64 { return opts[g.IntN(len(opts))] }

var sec = int64(time.Second)

func genCfg(g *rand.Rand) Cfg {
	c := Cfg{
		Expiry:      pickDur(g, 10*sec, 60*sec, 3600*sec, forever, forever, 0),
		IDExpiry:    pickDur(g, 0, 5*sec, 30*sec, 3600*sec, forever),
		Grace:       pickDur(g, 0, 2*sec, 20*sec, 300*sec, 300*sec),
		CacheExpiry: pickDur(g, 0, 3*sec, 3600*sec, forever),
		MaxCache:    []int{-1, 0, 1, 2, 3, 100, 100}[g.IntN(7)],
		AcceptIP:    1 + g.IntN(5),
		AcceptUA:    g.IntN(3) == 0,
		JSON:        g.IntN(2) == 0,
	}
	if g.IntN(12) == 0 {
		c.Grace = forever
	}
	if g.IntN(3) != 0 {
		c.AcceptIP = 1
	}
	if c.Expiry == 0 && g.IntN(3) != 0 {
		c.Expiry = 60 * sec
	}
	return c
}

// Forged values: every length class, the marker, values net/http rejects.
var forgePool = []string{
	"deleted", "", "x", strings.Repeat("a", 23), strings.Repeat("b", 24), strings.Repeat("c", 25),
	strings.Repeat("Z", 4096), `"` + strings.Repeat("q", 24) + `"`, "has space in it and is long", "semi;colon",
	"AAAAAAAAAAAAAAAAAAAAAA==", "aGVsbG8gd29ybGQhISEhISEh", "\x7f\x01bad", strings.Repeat("=", 24),
}

type genState struct {
	g      *rand.Rand
	cfg    Cfg
	client int
	addrs  map[int]Addr
	agents map[int]int
}

func (s *genState) wait() Hop {
	g := s.g
	var ts []int64
	for _, t := range []int64{s.cfg.Expiry, s.cfg.IDExpiry, s.cfg.Grace, s.cfg.CacheExpiry} {
		if t > 0 && t < forever {
			ts = append(ts, t)
		}
	}
	d := int64(1 + g.IntN(3_000_000_000))
	if len(ts) > 0 && g.IntN(3) != 0 {
		t := ts[g.IntN(len(ts))]
		switch g.IntN(7) {
		case 0:
			d = t - 1
		case 1:
			d = t
		case 2:
			d = t + 1
		case 3:
			d = t / 2
		case 4:
			d = 2 * t
		case 5:
			d = t - sec
		default:
			d = t + sec
		}
	}
	if g.IntN(10) == 0 {
		d = 1
	}
	if d <= 0 {
		d = 1
	}
	return Hop{Kind: "wait", D: d}
}

func (s *genState) script() []Sop {
	g := s.g
	var ops []Sop
	for n := g.IntN(4); n > 0; n-- {
		switch g.IntN(16) {
		case 0, 1, 2, 3:
			ops = append(ops, Sop{Op: "set", K: g.IntN(3), V: g.IntN(50)})
		case 4:
			ops = append(ops, Sop{Op: "del", K: g.IntN(3)})
		case 5, 6:
			ops = append(ops, Sop{Op: "get", K: g.IntN(3)})
		case 7:
			ops = append(ops, Sop{Op: "getdel", K: g.IntN(3)})
		case 8, 9:
			ops = append(ops, Sop{Op: "login", U: 1 + g.IntN(3), Ver: g.IntN(3), Excl: g.IntN(2) == 0})
		case 10:
			ops = append(ops, Sop{Op: "logout"})
		case 11, 12:
			ops = append(ops, Sop{Op: "regen"})
		case 13:
			if g.IntN(3) == 0 {
				ops = append(ops, Sop{Op: "destroy"})
				return ops
			}
		default:
			ops = append(ops, Sop{Op: "get", K: g.IntN(3)})
		}
	}
	return ops
}

func (s *genState) addrFor(c int) Addr {
	g := s.g
	a, ok := s.addrs[c]
	if !ok {
		a = Addr{V4: true, A: 10, B: c, C: 1, D: 1 + g.IntN(200), P: 1024 + g.IntN(60000)}
		if g.IntN(8) == 0 {
			a = Addr{N: 1 + g.IntN(5)}
		}
		s.addrs[c] = a
	}
	// legitimate and illegitimate changes
	if g.IntN(5) == 0 && a.V4 {
		switch g.IntN(6) {
		case 0:
			a.P = 1024 + g.IntN(60000)
		case 1:
			a.D = 1 + g.IntN(200)
		case 2:
			a.C = 1 + g.IntN(3)
		case 3:
			a.B = 50 + g.IntN(3)
		case 4:
			a.A = 11 + g.IntN(2)
		default:
			a = Addr{N: g.IntN(4)}
		}
		if g.IntN(2) == 0 {
			s.addrs[c] = a
		}
	}
	return a
}

func (s *genState) agentFor(c int) int {
	g := s.g
	a, ok := s.agents[c]
	if !ok {
		a = 1 + g.IntN(len(agentPool)-1)
		if g.IntN(10) == 0 {
			a = 0
		}
		s.agents[c] = a
	}
	if g.IntN(12) == 0 {
		a = g.IntN(len(agentPool))
	}
	return a
}

func (s *genState) request() Hop {
	g := s.g
	c := g.IntN(1 + g.IntN(4))
	h := Hop{Kind: "req", Client: c, Create: g.IntN(5) != 0, Addr: s.addrFor(c), Agent: s.agentFor(c)}
	if g.IntN(9) == 0 {
		// forged presentation
		if g.IntN(2) == 0 {
			raw := forgePool[g.IntN(len(forgePool))]
			h.ForgeRaw = &raw
		} else {
			k := Key{Gen: true, N: g.IntN(10)}
			h.ForgeKey = &k
		}
		h.Create = g.IntN(2) == 0
		// a stolen or replayed cookie often comes from elsewhere
		switch g.IntN(4) {
		case 0:
			h.Addr = Addr{V4: true, A: 99, B: g.IntN(3), C: 1, D: 1 + g.IntN(200), P: 1024 + g.IntN(60000)}
		case 1:
			h.Addr = s.addrFor(g.IntN(4))
		}
	}
	h.Script = s.script()
	return h
}

// steadyHistory: a client that keeps using its session at intervals shorter
// than SessionExpiry for longer than SessionExpiry (and than the ID's
// lifetime), mostly reading, while the session is evicted, purged and reloaded
// in between and other clients come and go.
func steadyHistory(g *rand.Rand, s *genState, h *History) {
	e := pickDur(g, 10*sec, 60*sec, 3600*sec)
	s.cfg.Expiry = e
	if g.IntN(2) == 0 {
		s.cfg.MaxCache = []int{-1, 1, 2, 100}[g.IntN(4)]
	}
	h.Cfg = s.cfg
	rounds := 5 + g.IntN(10)
	addr, agent := s.addrFor(0), s.agentFor(0)
	h.Steps = append(h.Steps, Hop{Kind: "req", Client: 0, Create: true, Addr: addr, Agent: agent, Script: []Sop{{Op: "set", K: 0, V: 7}}})
	for i := 0; i < rounds; i++ {
		frac := int64(30 + g.IntN(65))
		d := e / 100 * frac
		h.Steps = append(h.Steps, Hop{Kind: "wait", D: d})
		switch g.IntN(8) {
		case 0, 1:
			h.Steps = append(h.Steps, Hop{Kind: "purge"})
		case 2:
			c := 1 + g.IntN(3)
			h.Steps = append(h.Steps, Hop{Kind: "req", Client: c, Create: true, Addr: s.addrFor(c), Agent: s.agentFor(c), Script: s.script()})
		case 3:
			c := 1 + g.IntN(3)
			h.Steps = append(h.Steps, Hop{Kind: "req", Client: c, Create: true, Addr: s.addrFor(c), Agent: s.agentFor(c)})
			c = 1 + g.IntN(3)
			h.Steps = append(h.Steps, Hop{Kind: "req", Client: c, Create: true, Addr: s.addrFor(c), Agent: s.agentFor(c)})
		case 4:
			if g.IntN(3) == 0 {
				h.Steps = append(h.Steps, Hop{Kind: "restart"})
			}
		}
		var script []Sop
		switch g.IntN(6) {
		case 0:
			script = []Sop{{Op: "set", K: g.IntN(3), V: g.IntN(50)}}
		case 1:
			script = []Sop{{Op: "get", K: 0}, {Op: "get", K: 1}}
		case 2:
			script = []Sop{{Op: "get", K: 0}}
		}
		h.Steps = append(h.Steps, Hop{Kind: "req", Client: 0, Create: g.IntN(4) == 0, Addr: addr, Agent: agent, Script: script})
	}
}

// refHistory: C05's own quantifier - chains of 1..4 ID changes inside one grace
// period (explicit RegenerateID, LogIn, automatic rotation), then every
// generation of the ID presented on both sides of the grace boundary and of
// the backstop SessionIDExpiry+grace, with and without a restart (which loses
// the pending clean-ups) or a purge (which pushes the records out of memory)
// in between.
func refHistory(g *rand.Rand, s *genState, h *History) {
	s.cfg.Grace = pickDur(g, 2*sec, 20*sec, 300*sec)
	s.cfg.IDExpiry = pickDur(g, 5*sec, 30*sec, 3600*sec, forever)
	if g.IntN(3) != 0 {
		s.cfg.Expiry = forever
	}
	s.cfg.AcceptIP, s.cfg.AcceptUA = 1, true
	h.Cfg = s.cfg
	addr, agent := s.addrFor(0), s.agentFor(0)
	h.Steps = append(h.Steps, Hop{Kind: "req", Client: 0, Create: true, Addr: addr, Agent: agent, Script: []Sop{{Op: "set", K: 1, V: 9}}})
	changes := 1 + g.IntN(4)
	for i := 0; i < changes; i++ {
		h.Steps = append(h.Steps, Hop{Kind: "wait", D: int64(1 + g.IntN(int(s.cfg.Grace/int64(2*changes))))})
		op := []Sop{{Op: "regen"}}
		if g.IntN(3) == 0 {
			op = []Sop{{Op: "login", U: 1, Ver: 1, Excl: g.IntN(2) == 0}}
		}
		h.Steps = append(h.Steps, Hop{Kind: "req", Client: 0, Addr: addr, Agent: agent, Script: op})
	}
	switch g.IntN(4) {
	case 0:
		h.Steps = append(h.Steps, Hop{Kind: "restart"})
	case 1:
		h.Steps = append(h.Steps, Hop{Kind: "purge"})
	}
	// where to look: inside grace, at its end, between grace and backstop, at the backstop
	var d int64
	switch g.IntN(6) {
	case 0:
		d = s.cfg.Grace / 4
	case 1:
		d = s.cfg.Grace - 1
	case 2:
		d = s.cfg.Grace + 1
	case 3:
		d = s.cfg.Grace + sec
	case 4:
		if s.cfg.IDExpiry < forever {
			d = s.cfg.IDExpiry + s.cfg.Grace + 1
		} else {
			d = 2 * s.cfg.Grace
		}
	default:
		if s.cfg.IDExpiry < forever {
			d = s.cfg.IDExpiry + s.cfg.Grace - sec
		} else {
			d = s.cfg.Grace / 2
		}
	}
	if d <= 0 {
		d = 1
	}
	h.Steps = append(h.Steps, Hop{Kind: "wait", D: d})
	for n := 0; n <= changes; n++ {
		k := Key{Gen: true, N: n}
		h.Steps = append(h.Steps, Hop{Kind: "req", Client: 5 + n, ForgeKey: &k, Addr: addr, Agent: agent, Script: []Sop{{Op: "get", K: 1}}})
	}
	h.Steps = append(h.Steps, Hop{Kind: "req", Client: 0, Addr: addr, Agent: agent, Script: []Sop{{Op: "get", K: 1}}})
}

func genHistory(g *rand.Rand, id int, seed uint64, family string) History {
	s := &genState{g: g, cfg: genCfg(g), addrs: map[int]Addr{}, agents: map[int]int{}}
	h := History{ID: id, Family: family, Seed: seed, Cfg: s.cfg, Tmpl: g.IntN(1728)}
	if family == "hist" && g.IntN(4) == 0 {
		steadyHistory(g, s, &h)
		return h
	}
	if family == "hist" && g.IntN(6) == 0 {
		refHistory(g, s, &h)
		return h
	}
	n := 5 + g.IntN(36)
	for i := 0; i < n; i++ {
		switch x := g.IntN(100); {
		case x < 60:
			h.Steps = append(h.Steps, s.request())
		case x < 82:
			h.Steps = append(h.Steps, s.wait())
		case x < 86:
			h.Steps = append(h.Steps, Hop{Kind: "purge"})
		case x < 89:
			h.Steps = append(h.Steps, Hop{Kind: "drop"})
		case x < 91:
			h.Steps = append(h.Steps, Hop{Kind: "restart"})
		case x < 94:
			h.Steps = append(h.Steps, Hop{Kind: "logoutuser", U: 1 + g.IntN(3)})
		case x < 97:
			h.Steps = append(h.Steps, Hop{Kind: "refreshuser", U: 1 + g.IntN(3), Ver: 1 + g.IntN(5)})
		default:
			c := s.cfg
			c.MaxCache = []int{-1, 0, 1, 2, 3, 100}[g.IntN(6)]
			if g.IntN(2) == 0 {
				c.CacheExpiry = pickDur(g, 0, 3*sec, 3600*sec, forever)
			}
			s.cfg = c
			h.Steps = append(h.Steps, Hop{Kind: "setcfg", Cfg: &c})
		}
	}
	return h
}

func init() {
	families["hist"] = func(t *testing.T, r *run) {
		var hs []History
		for i := 0; i < r.n; i++ {
			seed := r.seed*1_000_003 + uint64(i)
			g := rand.New(rand.NewPCG(seed, 0xabcdef))
			hs = append(hs, genHistory(g, i, seed, "hist"))
		}
		runHistories(t, r, hs)
	}
}
