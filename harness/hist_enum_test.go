package harness

// Families that enumerate fault placements (C11) and crash points (C10) over
// the persistence calls of base histories: the base history is executed once
// to learn how many persistence calls each step makes, then one variant per
// placement is executed.

import (
	"math/rand/v2"
	"os"
	"path/filepath"
	"testing"
)

func persOps(o Obs) int {
	n := 0
	for _, e := range o.Evs {
		if e.Op != "draw" {
			n++
		}
	}
	return n
}

func hasDraw(o Obs) bool {
	for _, e := range o.Evs {
		if e.Op == "draw" {
			return true
		}
	}
	return false
}

func cloneSteps(steps []Hop) []Hop {
	out := make([]Hop, len(steps))
	for i, s := range steps {
		s.TB, s.Present = nil, nil
		s.Plan = append([]bool(nil), s.Plan...)
		out[i] = s
	}
	return out
}

func planAt(idx ...int) []bool {
	max := 0
	for _, i := range idx {
		if i > max {
			max = i
		}
	}
	p := make([]bool, max+1)
	for _, i := range idx {
		p[i] = true
	}
	return p
}

func init() {
	// faultenum: every single-fault placement of every step of each base
	// history, and sampled (thorough: all) double placements.
	families["faultenum"] = func(t *testing.T, r *run) {
		scratch, err := os.MkdirTemp(filepath.Dir(os.Getenv("VERIF_OUT")), "fe-")
		if err != nil {
			t.Fatal(err)
		}
		defer os.RemoveAll(scratch)
		doubles := r.argInt("doubles", 1) // 0 none, 1 sampled, 2 all
		maxVariants := r.argInt("max", 1<<30)
		var variants []History
		id := 0
		scen := userScenarios(r.seed)
		for b := 0; b < r.n+len(scen) && len(variants) < maxVariants; b++ {
			seed := r.seed*1_000_003 + uint64(b) + 500_000
			g := rand.New(rand.NewPCG(seed, 0xfa017))
			var base History
			if b < len(scen) {
				base = scen[b]
				base.ID, base.Seed = b, seed
			} else {
				base = genHistory(g, b, seed, "faultenum-base")
			}
			// no restarts in fault histories (keeps the variants short)
			if len(base.Steps) > 18 {
				base.Steps = base.Steps[:18]
			}
			rec := runHistory(base, scratch)
			if rec.Error != "" || rec.Halt != "" {
				r.emit(rec)
				continue
			}
			for s, o := range rec.Obs {
				m := persOps(o)
				kind := base.Steps[s].Kind
				if m == 0 || kind == "wait" || kind == "restart" || kind == "drop" || kind == "setcfg" {
					continue
				}
				var plans [][]bool
				for i := 0; i < m; i++ {
					plans = append(plans, planAt(i))
				}
				if doubles > 0 {
					for i := 0; i < m+2; i++ {
						for j := i + 1; j < m+3; j++ {
							if doubles == 2 || g.IntN(6) == 0 {
								plans = append(plans, planAt(i, j))
							}
						}
					}
				}
				for _, p := range plans {
					v := base
					v.ID = id
					id++
					v.Family = "faultenum"
					// The faulted step's observation (results, cookies, every
					// persistence call, cache, store, the handler's session)
					// shows what the fault left behind; `tail` further steps of
					// the base history are executed on that state and compared
					// with the model (the oracles of properties that do not
					// quantify over failures do not judge them).
					end := s + 1 + r.argInt("tail", 0)
					if end > len(base.Steps) {
						end = len(base.Steps)
					}
					v.Steps = cloneSteps(base.Steps[:end])
					v.Steps[s].Plan = p
					variants = append(variants, v)
				}
			}
		}
		if len(variants) > maxVariants {
			variants = variants[:maxVariants]
		}
		runHistories(t, r, variants)
	}

	// crashenum: every persistence-call boundary of every step that changes an
	// ID, followed (after the restart the crash implies) by requests with the
	// old ID, the new ID and the client's own jar.
	families["crashenum"] = func(t *testing.T, r *run) {
		scratch, err := os.MkdirTemp(filepath.Dir(os.Getenv("VERIF_OUT")), "ce-")
		if err != nil {
			t.Fatal(err)
		}
		defer os.RemoveAll(scratch)
		maxVariants := r.argInt("max", 1<<30)
		var variants []History
		id := 0
		for b := 0; b < r.n && len(variants) < maxVariants; b++ {
			seed := r.seed*1_000_003 + uint64(b) + 900_000
			g := rand.New(rand.NewPCG(seed, 0xc4a5))
			base := genHistory(g, b, seed, "crashenum-base")
			// ID changes should be frequent here
			if g.IntN(2) == 0 {
				base.Cfg.IDExpiry = pickDur(g, 0, 5*sec)
			}
			if base.Cfg.Grace == 0 {
				base.Cfg.Grace = 20 * sec
			}
			// after a restart the bookkeeping of the latest requests may be
			// lost; keep the probes from being judged against older peers
			base.Cfg.AcceptIP, base.Cfg.AcceptUA, base.Cfg.Expiry = 1, true, forever
			for i := range base.Steps {
				if c := base.Steps[i].Cfg; c != nil {
					c2 := *c
					c2.IDExpiry, c2.Grace = base.Cfg.IDExpiry, base.Cfg.Grace
					c2.AcceptIP, c2.AcceptUA, c2.Expiry = 1, true, forever
					base.Steps[i].Cfg = &c2
				}
			}
			if len(base.Steps) > 16 {
				base.Steps = base.Steps[:16]
			}
			rec := runHistory(base, scratch)
			if rec.Error != "" || rec.Halt != "" {
				r.emit(rec)
				continue
			}
			for s, o := range rec.Obs {
				st := base.Steps[s]
				if st.Kind != "req" || !hasDraw(o) {
					continue
				}
				m := persOps(o)
				// the ID the client presented, and the IDs drawn in the step
				var probes []Hop
				if s > 0 {
					if j := jarBefore(rec, s, st.Client); j != nil {
						probes = append(probes, Hop{Kind: "req", Client: 90, ForgeKey: j, Addr: st.Addr, Agent: st.Agent})
					}
				}
				for _, e := range o.Evs {
					if e.Op == "draw" {
						k := e.Key
						probes = append(probes, Hop{Kind: "req", Client: 91, ForgeKey: &k, Addr: st.Addr, Agent: st.Agent})
					}
				}
				for k := 0; k <= m; k++ {
					v := base
					v.ID = id
					id++
					v.Family = "crashenum"
					v.Steps = cloneSteps(base.Steps[:s+1])
					kk := k
					v.Steps[s].Crash = &kk
					v.Steps = append(v.Steps, probes...)
					v.Steps = append(v.Steps, Hop{Kind: "req", Client: st.Client, Addr: st.Addr, Agent: st.Agent, Script: []Sop{{Op: "get", K: 0}, {Op: "get", K: 1}, {Op: "get", K: 2}}})
					variants = append(variants, v)
				}
			}
		}
		if len(variants) > maxVariants {
			variants = variants[:maxVariants]
		}
		runHistories(t, r, variants)
	}
}

// jarBefore returns the ID client c held before step s (nil if none).
func jarBefore(rec histRec, s int, c int) *Key {
	for i := s - 1; i >= 0; i-- {
		st := rec.History.Steps[i]
		if st.Kind == "req" && st.Client == c && st.ForgeRaw == nil && st.ForgeKey == nil {
			j := rec.Obs[i].Jar
			if j.Kind == "key" {
				k := j.Key
				return &k
			}
			return nil
		}
	}
	return nil
}


// userScenarios: fixed base histories in which a user is logged into several
// sessions and a user-wide call (LogOut(userID), RefreshUser, exclusive LogIn)
// then works through them - with the sessions cached, evicted, and partly
// deleted - so that every fault placement inside those loops is enumerated.
func userScenarios(seed uint64) []History {
	a := func(c int) Addr { return Addr{V4: true, A: 10, B: c, C: 1, D: 1, P: 5000 + c} }
	login := func(c int, excl bool) Hop {
		return Hop{Kind: "req", Client: c, Create: true, Addr: a(c), Agent: 1, Script: []Sop{{Op: "login", U: 1, Ver: 1, Excl: excl}, {Op: "set", K: 0, V: 10 + c}}}
	}
	var out []History
	for i, mc := range []int{100, 1, 0, -1} {
		cfg := Cfg{Expiry: forever, IDExpiry: forever, Grace: 300 * sec, CacheExpiry: forever, MaxCache: mc, AcceptIP: 1, AcceptUA: true, JSON: i%2 == 1}
		var last Hop
		switch i % 3 {
		case 0:
			last = Hop{Kind: "logoutuser", U: 1}
		case 1:
			last = Hop{Kind: "refreshuser", U: 1, Ver: 5}
		default:
			last = login(3, true)
		}
		steps := []Hop{login(0, false), {Kind: "wait", D: sec}, login(1, false), {Kind: "wait", D: sec}, login(2, false), {Kind: "wait", D: sec}}
		if i >= 2 {
			steps = append(steps, Hop{Kind: "purge"})
		}
		if i == 3 {
			// one listed session is destroyed before the user-wide call
			steps = append(steps, Hop{Kind: "req", Client: 1, Addr: a(1), Agent: 1, Script: []Sop{{Op: "destroy"}}})
		}
		steps = append(steps, last)
		for c := 0; c < 3; c++ {
			steps = append(steps, Hop{Kind: "req", Client: c, Addr: a(c), Agent: 1, Script: []Sop{{Op: "get", K: 0}}})
		}
		out = append(out, History{Family: "faultenum-scenario", Cfg: cfg, Tmpl: int(seed%7) + i, Steps: steps})
	}
	// GetAndDelete of a present key: its write-through save is enumerated too
	for i, mc := range []int{100, 0} {
		cfg := Cfg{Expiry: forever, IDExpiry: forever, Grace: 300 * sec, CacheExpiry: forever, MaxCache: mc, AcceptIP: 1, AcceptUA: true, JSON: i == 0}
		steps := []Hop{
			{Kind: "req", Client: 0, Create: true, Addr: a(0), Agent: 1, Script: []Sop{{Op: "set", K: 0, V: 3}}},
			{Kind: "wait", D: sec},
			{Kind: "req", Client: 0, Addr: a(0), Agent: 1, Script: []Sop{{Op: "getdel", K: 0}}},
			{Kind: "drop"},
			{Kind: "req", Client: 0, Addr: a(0), Agent: 1, Script: []Sop{{Op: "get", K: 0}}},
		}
		out = append(out, History{Family: "faultenum-scenario", Cfg: cfg, Tmpl: int(seed%7) + 20 + i, Steps: steps})
	}
	// a replaced ID presented within grace after both records left the cache:
	// Start makes two loads (the placeholder, then the hop to the live session)
	for i, mc := range []int{100, 0} {
		cfg := Cfg{Expiry: forever, IDExpiry: forever, Grace: 300 * sec, CacheExpiry: forever, MaxCache: mc, AcceptIP: 1, AcceptUA: true, JSON: i == 1}
		old := Key{Gen: true, N: 0}
		steps := []Hop{
			{Kind: "req", Client: 0, Create: true, Addr: a(0), Agent: 1, Script: []Sop{{Op: "set", K: 0, V: 3}, {Op: "regen"}}},
			{Kind: "wait", D: sec}, {Kind: "purge"},
			{Kind: "req", Client: 7, ForgeKey: &old, Addr: a(0), Agent: 1, Script: []Sop{{Op: "get", K: 0}}},
		}
		out = append(out, History{Family: "faultenum-scenario", Cfg: cfg, Tmpl: int(seed%7) + 10 + i, Steps: steps})
	}
	return out
}

// cacheenum: every sequence of cache-relevant operations up to a length bound
// over a universe of three sessions, for N in {-1,0,1,2,3} x SessionCacheExpiry
// in {short, long, forever} (C12's own quantifier). Operations are spaced in
// virtual time so that recency ties do not arise.
func init() {
	families["cacheenum"] = func(t *testing.T, r *run) {
		maxLen := r.argInt("len", 3)
		stride := r.argInt("stride", 1) // emit every stride-th sequence (sampling for the model side)
		a := func(c int) Addr { return Addr{V4: true, A: 10, B: c, C: 1, D: 1, P: 6000 + c} }
		req := func(c int, script ...Sop) Hop {
			return Hop{Kind: "req", Client: c, Create: true, Addr: a(c), Agent: 1, Script: script}
		}
		type sym struct {
			name string
			hops func(cfg Cfg) []Hop
		}
		tick := Hop{Kind: "wait", D: 1_000_000} // 1 ms between operations
		alphabet := []sym{
			{"R0", func(Cfg) []Hop { return []Hop{req(0), tick} }},
			{"R1", func(Cfg) []Hop { return []Hop{req(1), tick} }},
			{"R2", func(Cfg) []Hop { return []Hop{req(2, Sop{Op: "set", K: 0, V: 5}), tick} }},
			{"G0", func(Cfg) []Hop { return []Hop{req(0, Sop{Op: "regen"}), tick} }},
			{"D1", func(Cfg) []Hop { return []Hop{req(1, Sop{Op: "destroy"}), tick} }},
			{"WL", func(Cfg) []Hop { return []Hop{{Kind: "wait", D: 5 * sec}} }},
			{"P", func(Cfg) []Hop { return []Hop{{Kind: "purge"}, tick} }},
			{"N1", func(c Cfg) []Hop { c2 := c; c2.MaxCache = 1; return []Hop{{Kind: "setcfg", Cfg: &c2}, tick} }},
		}
		var hs []History
		id, count := 0, 0
		ns, ces := []int{-1, 0, 1, 2, 3}, []int64{2 * sec, 3600 * sec, forever}
		if r.arg("cfgs", "all") == "small" {
			ns, ces = []int{-1, 0, 1, 2}, []int64{2 * sec, forever}
		}
		for _, n := range ns {
			for _, ce := range ces {
				cfg := Cfg{Expiry: forever, IDExpiry: forever, Grace: 3 * sec, CacheExpiry: ce, MaxCache: n, AcceptIP: 1, AcceptUA: true, JSON: (n+int(ce%3))%2 == 0}
				var rec func(prefix []int)
				rec = func(prefix []int) {
					if len(prefix) > 0 {
						count++
						if count%stride == 0 {
							h := History{ID: id, Family: "cacheenum", Seed: r.seed + uint64(id), Cfg: cfg, Tmpl: id % 1728}
							id++
							c := cfg
							for _, s := range prefix {
								hops := alphabet[s].hops(c)
								for _, hp := range hops {
									if hp.Kind == "setcfg" {
										c = *hp.Cfg
									}
								}
								h.Steps = append(h.Steps, hops...)
							}
							hs = append(hs, h)
						}
					}
					if len(prefix) == maxLen {
						return
					}
					for s := range alphabet {
						rec(append(append([]int(nil), prefix...), s))
					}
				}
				rec(nil)
			}
		}
		runHistories(t, r, hs)
	}
}
