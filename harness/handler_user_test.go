package harness

// Family handleruser (C08; round 4 R1 = audit task B1): user-wide calls made
// from inside a handler. Each case is a short history whose distinguished step
// is a composite request: Start; a script prefix on the session Start returned;
// sessions.LogOut(userID) or sessions.RefreshUser(user) while the handler still
// holds that *Session; a script suffix on the same *Session. Around it: requests
// that create the sessions and log users in, waits, and afterwards a cache drop
// and one plain request per browser. Cache sizes -1, 0, 1, 2, 10, both codecs,
// several script shapes. Executed on the real package inside a synctest bubble
// (one child process per case) with the executor of the history families.
// Model/HandlerUser.v (hu_run) is evaluated on the same cases by
// checks/handler_user.py and compared observation by observation, including the
// handle as the handler sees it right after the call. With cache sizes 0 and 1
// the user is expected to come back (Properties/C08U.v: C08U_logout_refuted_0/1):
// those outcomes are compared with the model like all others.
//
// VERIF_N: number of cases. VERIF_ARGS: only=<case id> (replay).

import (
	"crypto/rand"
	"encoding/json"
	"fmt"
	mrand "math/rand/v2"
	"net/http"
	"net/http/httptest"
	"os"
	osexec "os/exec"
	"path/filepath"
	"runtime"
	"strings"
	"sync"
	"syscall"
	"testing"
	"testing/synctest"

	"github.com/rivo/sessions"
)

func init() {
	families["handleruser"] = handlerUserFamily
}

// huHop: a step of Hop (Call == ""), or the composite request: Hop (kind req,
// Script = the prefix), then Call(CU[, CVer]), then Post on the same session.
type huHop struct {
	Hop
	Call string `json:"call,omitempty"` // logoutuser | refreshuser
	CU   int    `json:"cu,omitempty"`
	CVer int    `json:"cver,omitempty"`
	Post []Sop  `json:"post,omitempty"`
}

func (h huHop) Coq() string {
	if h.Call == "" {
		return "(HPlain " + h.Hop.Coq() + ")"
	}
	inner := h.Hop.Coq() // (HReq (mkReqStep ...))
	inner = strings.TrimSuffix(strings.TrimPrefix(inner, "(HReq "), ")")
	call := fmt.Sprintf("(ULogout %d)", h.CU)
	if h.Call == "refreshuser" {
		call = fmt.Sprintf("(URefresh (%d, %d))", h.CU, h.CVer)
	}
	post := make([]string, len(h.Post))
	for i, s := range h.Post {
		post[i] = s.Coq()
	}
	return "(HUser " + inner + " " + call + " " + coqList(post) + ")"
}

type huCase struct {
	ID    int     `json:"id"`
	Seed  uint64  `json:"seed"`
	Cfg   Cfg     `json:"cfg"`
	Tmpl  int     `json:"tmpl"`
	Setup string  `json:"setup"`
	Pre   string  `json:"pre"`
	PostS string  `json:"post"`
	At    int     `json:"at"` // index of the composite step
	Steps []huHop `json:"steps"`
}

type huObs struct {
	Obs
	Mid *KeyRec `json:"mid,omitempty"` // the handler's session right after the user-wide call
}

type huRec struct {
	Case  huCase  `json:"case"`
	Obs   []huObs `json:"obs"`
	Halt  string  `json:"halt,omitempty"`
	Coq   string  `json:"coq"`
	Error string  `json:"error,omitempty"`
}

type huChildOut struct {
	Steps []huHop `json:"steps"`
	Obs   []huObs `json:"obs"`
	Halt  string  `json:"halt,omitempty"`
}

func coqHUCase(c huCase, obs []huObs) string {
	steps := make([]string, len(c.Steps))
	for i, s := range c.Steps {
		steps[i] = s.Coq()
	}
	os_ := make([]string, len(obs))
	for i, o := range obs {
		os_[i] = "(" + o.Obs.Coq() + ",\n    " + coqOptKeyRec(o.Mid) + ")"
	}
	return "(" + c.Cfg.Coq() + ",\n  [" + strings.Join(steps, ";\n   ") + "],\n  [" + strings.Join(os_, ";\n   ") + "])"
}

// ---- generation ----

const huSec = int64(1000000000)

func huReq(client int, script ...Sop) huHop {
	return huHop{Hop: Hop{Kind: "req", Client: client, Create: true, Addr: Addr{V4: true, A: 10, B: 0, C: 0, D: client, P: 4000 + client}, Agent: 1, Script: script}}
}

func huPlain(kind string) huHop { return huHop{Hop: Hop{Kind: kind}} }

func huWait(d int64) huHop { return huHop{Hop: Hop{Kind: "wait", D: d}} }

var huSetups = []string{"second", "first", "three-middle", "mixed-users", "stale-index", "other-user", "alone"}
var huPres = []string{"none", "set", "set-get", "regen", "login", "logout-login"}
var huPosts = []string{"none", "set", "set-get-del", "getdel-set", "logout", "login", "set-set"}
var huCacheSizes = []int{-1, 0, 1, 2, 10}

func genHUCase(id int, rng *mrand.Rand, seed uint64) huCase {
	c := huCase{ID: id, Seed: seed ^ uint64(id)*0x9e3779b97f4a7c15, Tmpl: rng.IntN(1728)}
	c.Cfg = Cfg{Expiry: 3600 * huSec, IDExpiry: 600 * huSec, Grace: 60 * huSec, CacheExpiry: 1000 * huSec,
		MaxCache: huCacheSizes[id%len(huCacheSizes)], AcceptIP: 1, AcceptUA: true, JSON: (id/len(huCacheSizes))%2 == 1}
	if rng.IntN(6) == 0 {
		c.Cfg.CacheExpiry = 2 * huSec // the idle sweep of compact takes part
	}
	c.Setup = huSetups[rng.IntN(len(huSetups))]
	c.Pre = huPres[rng.IntN(len(huPres))]
	c.PostS = huPosts[rng.IntN(len(huPosts))]
	login := func(u int) Sop { return Sop{Op: "login", U: u, Ver: 1} }
	gap := func() {
		if d := rng.IntN(4); d > 0 {
			c.Steps = append(c.Steps, huWait(int64(d)*huSec))
		}
	}
	handler := 2
	switch c.Setup {
	case "second":
		c.Steps = append(c.Steps, huReq(1, login(5)))
		gap()
		c.Steps = append(c.Steps, huReq(2, login(5)))
	case "first":
		c.Steps = append(c.Steps, huReq(1, login(5)))
		gap()
		c.Steps = append(c.Steps, huReq(2, login(5)))
		handler = 1
	case "three-middle":
		c.Steps = append(c.Steps, huReq(1, login(5)))
		gap()
		c.Steps = append(c.Steps, huReq(2, login(5)))
		gap()
		c.Steps = append(c.Steps, huReq(3, login(5)))
	case "mixed-users":
		c.Steps = append(c.Steps, huReq(1, login(5)))
		c.Steps = append(c.Steps, huReq(3, login(6)))
		gap()
		c.Steps = append(c.Steps, huReq(2, login(5)))
	case "stale-index":
		c.Steps = append(c.Steps, huReq(1, login(5), Sop{Op: "destroy"}))
		gap()
		c.Steps = append(c.Steps, huReq(2, login(5)))
	case "other-user":
		c.Steps = append(c.Steps, huReq(1, login(5)))
		gap()
		c.Steps = append(c.Steps, huReq(2, login(6)))
	case "alone":
		c.Steps = append(c.Steps, huReq(2, login(5)))
	}
	gap()
	comp := huReq(handler)
	switch c.Pre {
	case "set":
		comp.Script = []Sop{{Op: "set", K: 1, V: 1}}
	case "set-get":
		comp.Script = []Sop{{Op: "set", K: 1, V: 1}, {Op: "get", K: 1}}
	case "regen":
		comp.Script = []Sop{{Op: "regen"}}
	case "login":
		comp.Script = []Sop{{Op: "login", U: 5, Ver: 3}}
	case "logout-login":
		comp.Script = []Sop{{Op: "logout"}, {Op: "login", U: 5, Ver: 4, Excl: true}}
	}
	comp.Call, comp.CU = "logoutuser", 5
	switch rng.IntN(5) {
	case 0, 1:
		comp.Call, comp.CVer = "refreshuser", 9
	case 2:
		if rng.IntN(2) == 0 {
			comp.CU = 7 // a user without sessions
		}
	}
	switch c.PostS {
	case "set":
		comp.Post = []Sop{{Op: "set", K: 2, V: 2}}
	case "set-get-del":
		comp.Post = []Sop{{Op: "set", K: 2, V: 2}, {Op: "get", K: 2}, {Op: "del", K: 1}}
	case "getdel-set":
		comp.Post = []Sop{{Op: "getdel", K: 1}, {Op: "set", K: 3, V: 3}}
	case "logout":
		comp.Post = []Sop{{Op: "logout"}}
	case "login":
		comp.Post = []Sop{{Op: "login", U: 5, Ver: 2}}
	case "set-set":
		comp.Post = []Sop{{Op: "set", K: 2, V: 2}, {Op: "set", K: 2, V: 4}}
	}
	c.At = len(c.Steps)
	c.Steps = append(c.Steps, comp)
	// what is stored: drop the cache, every browser comes back
	if rng.IntN(3) > 0 {
		c.Steps = append(c.Steps, huPlain("drop"))
	}
	for _, cl := range []int{1, 2, 3} {
		r := huReq(cl)
		r.Create = false
		c.Steps = append(c.Steps, r)
	}
	if rng.IntN(2) == 0 {
		c.Steps = append(c.Steps, huHop{Hop: Hop{Kind: "logoutuser", U: 5}})
	}
	return c
}

// ---- execution (child process, inside a bubble) ----

func (x *executor) huOp(sess *sessions.Session, op Sop, w http.ResponseWriter, req *http.Request) (r SRes, crashed bool) {
	switch op.Op {
	case "set":
		r, crashed = x.call(func() error { return sess.Set(fmt.Sprintf("k%d", op.K), fmt.Sprintf("v%d", op.V)) })
	case "del":
		r, crashed = x.call(func() error { return sess.Delete(fmt.Sprintf("k%d", op.K)) })
	case "get", "getdel":
		var val interface{}
		r, crashed = x.call(func() error {
			if op.Op == "get" {
				val = sess.Get(fmt.Sprintf("k%d", op.K), nil)
			} else {
				val = sess.GetAndDelete(fmt.Sprintf("k%d", op.K), nil)
			}
			return nil
		})
		if r.Kind == "ok" {
			r = SRes{Kind: "val"}
			if s, ok := val.(string); ok {
				r.Has = true
				fmt.Sscanf(s, "v%d", &r.V)
			} else if val != nil {
				r.Has, r.V = true, -1
			}
		}
	case "login":
		r, crashed = x.call(func() error { return sess.LogIn(hUser{op.U, op.Ver}, op.Excl, w) })
	case "logout":
		r, crashed = x.call(func() error { return sess.LogOut() })
	case "regen":
		r, crashed = x.call(func() error { return sess.RegenerateID(w) })
	case "destroy":
		r, crashed = x.call(func() error { return sess.Destroy(w, req) })
	}
	return
}

// huStep executes the composite request.
func (x *executor) huStep(h *huHop) (o huObs, halt string) {
	name, _ := cookieTemplate(x.tmpl)
	x.beginStep(&h.Hop)
	jar, ok := x.st.Jars[h.Client]
	if !ok {
		jar = CVal{Kind: "none"}
	}
	o.Jar = jar
	req := httptest.NewRequest("GET", "/", nil)
	req.RemoteAddr = h.Addr.String()
	if h.Agent != 0 {
		req.Header.Set("User-Agent", agentPool[h.Agent%len(agentPool)])
	} else {
		req.Header.Del("User-Agent")
	}
	if rawVal, has := x.raw(jar); has {
		req.Header.Set("Cookie", name+"="+rawVal)
	}
	w := httptest.NewRecorder()
	var sess *sessions.Session
	res, _ := x.call(func() error {
		var err error
		sess, err = sessions.Start(w, req, h.Create)
		return err
	})
	synctest.Wait()
	switch {
	case res.Kind == "err":
		o.Res, o.Site, o.Text = "err", res.Site, res.Text
	case res.Kind == "panic":
		o.Res, o.Site, o.Text = "panic", "EGet", res.Text
		halt = "panic in Start: " + res.Text
	case sess == nil:
		o.Res = "none"
	default:
		o.Res = "sess"
		v := sessions.VerifView(sess)
		o.Start = &KeyRec{Key: x.keyOf(v.ID), Rec: x.recOf(v)}
		stopped := false
		runOps := func(ops []Sop) {
			for _, op := range ops {
				r, _ := x.huOp(sess, op, w, req)
				synctest.Wait()
				o.Script = append(o.Script, r)
				if r.Kind == "panic" {
					halt = "panic in " + op.Op + ": " + r.Text
					stopped = true
					return
				}
				if op.Op == "destroy" {
					stopped = true
					return
				}
			}
		}
		runOps(h.Script)
		if !stopped {
			// the user-wide call, the handler still holding sess
			r, _ := x.call(func() error {
				if h.Call == "logoutuser" {
					return sessions.LogOut(h.CU)
				}
				return sessions.RefreshUser(hUser{h.CU, h.CVer})
			})
			synctest.Wait()
			o.Script = append(o.Script, r)
			mv := sessions.VerifView(sess)
			o.Mid = &KeyRec{Key: x.keyOf(mv.ID), Rec: x.recOf(mv)}
			if r.Kind == "panic" {
				halt = "panic in " + h.Call + ": " + r.Text
			} else {
				runOps(h.Post)
			}
		}
		if halt == "" {
			v := sessions.VerifView(sess)
			o.Final = &KeyRec{Key: x.keyOf(v.ID), Rec: x.recOf(v)}
		}
	}
	o.Cookies = x.cookiesOf(w.Header())
	for _, c := range o.Cookies {
		switch c.Kind {
		case "live":
			jar = CVal{Kind: "key", Key: c.Key}
		case "delete":
			jar = CVal{Kind: "none"}
		}
	}
	x.st.Jars[h.Client] = jar
	o.Jar = jar
	x.fillTB(&h.Hop)
	if halt == "" {
		x.snapshot(&o.Obs)
	} else {
		o.Evs = x.events
	}
	return o, halt
}

func huRunCase(c huCase) huChildOut {
	x := &executor{data: map[string][]byte{}, tmpl: c.Tmpl, seed: c.Seed}
	x.st = State{Jars: map[int]CVal{}}
	x.applyCfg(c.Cfg)
	name, tmpl := cookieTemplate(c.Tmpl)
	sessions.SessionCookie = name
	sessions.NewSessionCookie = func() *http.Cookie { t := tmpl; return &t }
	sessions.Persistence = sessions.ExtendablePersistenceLayer{
		LoadSessionFunc: x.LoadSession, SaveSessionFunc: x.SaveSession, DeleteSessionFunc: x.DeleteSession,
		UserSessionsFunc: x.UserSessions, LoadUserFunc: x.LoadUser,
	}
	rand.Reader = recorder{x}
	sessions.VerifReset()
	var out huChildOut
	for i := range c.Steps {
		step := c.Steps[i]
		var o huObs
		var halt string
		if step.Call == "" {
			var stop bool
			o.Obs, stop, halt = x.doStep(&step.Hop)
			if stop && halt == "" {
				halt = "segment ended by step kind " + step.Kind
			}
		} else {
			o, halt = x.huStep(&step)
		}
		out.Steps = append(out.Steps, step)
		out.Obs = append(out.Obs, o)
		if halt != "" {
			out.Halt = halt
			break
		}
	}
	return out
}

// TestHandlerUserChild executes one case: VERIF_HU_IN -> VERIF_HU_OUT.
func TestHandlerUserChild(t *testing.T) {
	inPath, outPath := os.Getenv("VERIF_HU_IN"), os.Getenv("VERIF_HU_OUT")
	if inPath == "" {
		t.Skip("not a child")
	}
	runtime.GOMAXPROCS(1)
	raw, err := os.ReadFile(inPath)
	if err != nil {
		t.Fatal(err)
	}
	var c huCase
	if err := json.Unmarshal(raw, &c); err != nil {
		t.Fatal(err)
	}
	synctest.Test(t, func(t *testing.T) {
		out := huRunCase(c)
		b, err := json.Marshal(out)
		if err != nil {
			panic(err)
		}
		if err := os.WriteFile(outPath, b, 0o644); err != nil {
			panic(err)
		}
		// the lock manager's goroutines never exit: leave from inside the bubble
		syscall.Exit(0)
	})
}

// ---- parent ----

func huMix(z uint64) uint64 {
	z = (z ^ (z >> 30)) * 0xbf58476d1ce4e5b9
	z = (z ^ (z >> 27)) * 0x94d049bb133111eb
	return z ^ (z >> 31)
}

func runHUCase(c huCase, scratch string) huRec {
	inPath := filepath.Join(scratch, fmt.Sprintf("hu%d.in", c.ID))
	outPath := filepath.Join(scratch, fmt.Sprintf("hu%d.out", c.ID))
	b, _ := json.Marshal(c)
	if err := os.WriteFile(inPath, b, 0o644); err != nil {
		return huRec{Case: c, Error: err.Error()}
	}
	cmd := osexec.Command(os.Args[0], "-test.run", "^TestHandlerUserChild$", "-test.timeout", "120s")
	cmd.Env = append(os.Environ(), "VERIF_HU_IN="+inPath, "VERIF_HU_OUT="+outPath, "VERIF_FAMILY=", "VERIF_CHILD_IN=")
	outb, err := cmd.CombinedOutput()
	raw, rerr := os.ReadFile(outPath)
	os.Remove(inPath)
	os.Remove(outPath)
	if rerr != nil {
		msg := string(outb)
		if len(msg) > 3000 {
			msg = msg[:1500] + "\n...\n" + msg[len(msg)-1500:]
		}
		return huRec{Case: c, Error: fmt.Sprintf("child failed: %v\n%s", err, msg)}
	}
	var out huChildOut
	if err := json.Unmarshal(raw, &out); err != nil {
		return huRec{Case: c, Error: err.Error()}
	}
	c.Steps = out.Steps // as executed (tie-breaks filled in); truncated after a halt
	return huRec{Case: c, Obs: out.Obs, Halt: out.Halt, Coq: coqHUCase(c, out.Obs)}
}

func handlerUserFamily(t *testing.T, r *run) {
	scratch, err := os.MkdirTemp(filepath.Dir(os.Getenv("VERIF_OUT")), "hu-")
	if err != nil {
		t.Fatal(err)
	}
	defer os.RemoveAll(scratch)
	only := r.argInt("only", -1)
	var cases []huCase
	for i := 0; i < r.n; i++ {
		// every case has its own generator: case i is the same whatever n is
		rng := mrand.New(mrand.NewPCG(huMix(r.seed+uint64(i)*0x9e3779b97f4a7c15), huMix(uint64(i)^0x68616e646c657275)))
		c := genHUCase(i, rng, r.seed)
		if only >= 0 && i != only {
			continue
		}
		cases = append(cases, c)
	}
	workers := r.argInt("workers", 16)
	recs := make([]huRec, len(cases))
	var wg sync.WaitGroup
	ch := make(chan int)
	for w := 0; w < workers; w++ {
		wg.Add(1)
		go func() {
			defer wg.Done()
			for i := range ch {
				recs[i] = runHUCase(cases[i], scratch)
			}
		}()
	}
	for i := range cases {
		ch <- i
	}
	close(ch)
	wg.Wait()
	for _, rec := range recs {
		r.emit(rec)
	}
}
