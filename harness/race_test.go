package harness

// Families for C15 (concurrent use is data-race free and each operation is
// atomic). They run the real package on real goroutines (no synctest bubble):
//
//   race      several clients with several in-flight requests each, sharing
//             session objects through the cache, ID rotation on every request,
//             tiny caches, a serialising in-memory store using the package's
//             own gob codec; every exported operation; CUID; panics recorded.
//   racepair  two goroutines executing two named functions of the package on
//             the same session, for every pair given in VERIF_ARGS pairs=.
//   linhist   call/return histories of Set/Get/Delete/GetAndDelete on one
//             session object with a global logical clock, cut into windows by
//             barriers, written as Coq terms for the linearizability checker.
//
// Under a -race binary the Go race detector reports on stderr; the check
// (checks/c15.py) reads the reports. Nothing here synchronises the calls into
// the package with each other beyond what is documented below, so that a
// missing lock in the package is not masked by the harness.

import (
	"encoding/json"
	"fmt"
	"math/rand/v2"
	"net/http"
	"os"
	"runtime"
	"runtime/debug"
	"sort"
	"strconv"
	"strings"
	"sync"
	"sync/atomic"
	"syscall"
	"testing"
	"time"

	"github.com/rivo/sessions"
)

func init() {
	families["race"] = raceFamily
	families["racepair"] = racePairFamily
	families["linhist"] = linHistFamily
}

// ---- environment ----

type c15User struct{ id string }

func (u *c15User) GetID() interface{} { return u.id }

type c15Rec struct {
	bytes []byte
	user  interface{}
}

// c15Store is a serialising store: it keeps only bytes produced by the
// package's own GobEncode and hands out objects built by GobDecode.
type c15Store struct {
	mu     sync.Mutex
	recs   map[string]c15Rec
	saves  int
	loads  int
	dels   int
	encErr int
}

func (st *c15Store) layer() sessions.ExtendablePersistenceLayer {
	return sessions.ExtendablePersistenceLayer{
		LoadSessionFunc: func(id string) (*sessions.Session, error) {
			st.mu.Lock()
			rec, ok := st.recs[id]
			st.loads++
			st.mu.Unlock()
			if !ok {
				return nil, nil
			}
			s := &sessions.Session{}
			if err := s.GobDecode(rec.bytes); err != nil {
				return nil, err
			}
			return s, nil
		},
		SaveSessionFunc: func(id string, s *sessions.Session) error {
			var uid interface{}
			if u := s.User(); u != nil {
				uid = u.GetID()
			}
			b, err := s.GobEncode()
			st.mu.Lock()
			defer st.mu.Unlock()
			if err != nil {
				st.encErr++
				return err
			}
			st.saves++
			st.recs[id] = c15Rec{bytes: b, user: uid}
			return nil
		},
		DeleteSessionFunc: func(id string) error {
			st.mu.Lock()
			delete(st.recs, id)
			st.dels++
			st.mu.Unlock()
			return nil
		},
		UserSessionsFunc: func(userID interface{}) ([]string, error) {
			st.mu.Lock()
			defer st.mu.Unlock()
			var ids []string
			for id, rec := range st.recs {
				if rec.user == userID {
					ids = append(ids, id)
				}
			}
			sort.Strings(ids)
			return ids, nil
		},
		LoadUserFunc: func(id interface{}) (sessions.User, error) {
			s, _ := id.(string)
			return &c15User{id: s}, nil
		},
	}
}

type c15Config struct {
	CacheSize  int   `json:"cache_size"`
	IDExpiryNs int64 `json:"id_expiry_ns"`
	GraceNs    int64 `json:"grace_ns"`
	CacheExpNs int64 `json:"cache_expiry_ns"`
	ExpiryNs   int64 `json:"expiry_ns"`
}

// c15Setup installs a fresh cache, lock manager, store and configuration. It
// must be called while no goroutine of a previous workload is still running.
func c15Setup(cfg c15Config) *c15Store {
	st := &c15Store{recs: map[string]c15Rec{}}
	sessions.Persistence = st.layer()
	sessions.SessionExpiry = time.Duration(cfg.ExpiryNs)
	sessions.SessionIDExpiry = time.Duration(cfg.IDExpiryNs)
	sessions.SessionIDGracePeriod = time.Duration(cfg.GraceNs)
	sessions.MaxSessionCacheSize = cfg.CacheSize
	sessions.SessionCacheExpiry = time.Duration(cfg.CacheExpNs)
	sessions.AcceptRemoteIP = 1
	sessions.AcceptChangingUserAgent = false
	sessions.VerifReset()
	return st
}

// c15Writer is a minimal http.ResponseWriter owned by one request.
type c15Writer struct{ h http.Header }

func newC15Writer() *c15Writer                   { return &c15Writer{h: http.Header{}} }
func (w *c15Writer) Header() http.Header         { return w.h }
func (w *c15Writer) Write(b []byte) (int, error) { return len(b), nil }
func (w *c15Writer) WriteHeader(int)             {}

// cookieFrom returns the last value the response set for the session cookie
// ("" if none; the deletion marker clears).
func (w *c15Writer) cookieFrom() (string, bool) {
	val, found := "", false
	for _, line := range w.h["Set-Cookie"] {
		part := line
		if i := strings.IndexByte(part, ';'); i >= 0 {
			part = part[:i]
		}
		if i := strings.IndexByte(part, '='); i >= 0 && part[:i] == sessions.SessionCookie {
			val, found = part[i+1:], true
		}
	}
	if val == "deleted" {
		val = ""
	}
	return val, found
}

func c15Request(cookie, addr, agent string) *http.Request {
	req := &http.Request{Header: http.Header{}, RemoteAddr: addr}
	if agent != "" {
		req.Header.Set("User-Agent", agent)
	}
	if cookie != "" {
		req.Header.Set("Cookie", sessions.SessionCookie+"="+cookie)
	}
	return req
}

// panics recorded by any goroutine of a workload
type c15Panics struct {
	mu   sync.Mutex
	list []map[string]string
}

func (p *c15Panics) guard(where string) {
	if r := recover(); r != nil {
		p.mu.Lock()
		if len(p.list) < 20 {
			p.list = append(p.list, map[string]string{"where": where, "panic": fmt.Sprint(r), "stack": string(debug.Stack())})
		}
		p.mu.Unlock()
	}
}

type c15Counts struct {
	mu sync.Mutex
	m  map[string]int
}

func (c *c15Counts) add(k string) {
	c.mu.Lock()
	c.m[k]++
	c.mu.Unlock()
}

// ---- family race ----

type c15Client struct {
	mu     sync.Mutex
	cookie string
	addr   string
	agent  string
	user   *c15User
}

func (c *c15Client) get() string {
	c.mu.Lock()
	defer c.mu.Unlock()
	return c.cookie
}

func (c *c15Client) update(w *c15Writer) {
	if v, ok := w.cookieFrom(); ok {
		c.mu.Lock()
		c.cookie = v
		c.mu.Unlock()
	}
}

var c15Ops = []string{"Set", "Get", "Delete", "GetAndDelete", "LogIn", "LogInExclusive", "LogOut", "RegenerateID",
	"User", "LastAccess", "Expired", "GobEncode", "MarshalJSON", "Destroy", "Set", "Get", "GetAndDelete", "Set"}

func c15Handler(rng *rand.Rand, cl *c15Client, s *sessions.Session, w *c15Writer, req *http.Request, counts *c15Counts, valSeq *atomic.Int64) {
	nops := 1 + rng.IntN(4)
	for i := 0; i < nops; i++ {
		op := c15Ops[rng.IntN(len(c15Ops))]
		key := "k" + strconv.Itoa(rng.IntN(3))
		if rng.IntN(4) == 0 {
			time.Sleep(time.Duration(rng.IntN(200)) * time.Microsecond) // handler think time
		}
		switch op {
		case "Set":
			if err := s.Set(key, int(valSeq.Add(1))); err != nil {
				counts.add("err:Set")
			}
		case "Get":
			s.Get(key, nil)
		case "Delete":
			if err := s.Delete(key); err != nil {
				counts.add("err:Delete")
			}
		case "GetAndDelete":
			s.GetAndDelete(key, nil)
		case "LogIn":
			if err := s.LogIn(cl.user, false, w); err != nil {
				counts.add("err:LogIn")
			}
		case "LogInExclusive":
			if rng.IntN(4) != 0 {
				op = "LogIn"
				if err := s.LogIn(cl.user, false, w); err != nil {
					counts.add("err:LogIn")
				}
			} else if err := s.LogIn(cl.user, true, w); err != nil {
				counts.add("err:LogInExclusive")
			}
		case "LogOut":
			if err := s.LogOut(); err != nil {
				counts.add("err:LogOut")
			}
		case "RegenerateID":
			if err := s.RegenerateID(w); err != nil {
				counts.add("err:RegenerateID")
			}
		case "User":
			s.User()
		case "LastAccess":
			s.LastAccess()
		case "Expired":
			s.Expired()
		case "GobEncode":
			if _, err := s.GobEncode(); err != nil {
				counts.add("err:GobEncode")
			}
		case "MarshalJSON":
			if _, err := json.Marshal(s); err != nil {
				counts.add("err:MarshalJSON")
			}
		case "Destroy":
			if rng.IntN(6) != 0 {
				op = "Get"
				s.Get(key, nil)
			} else if err := s.Destroy(w, req); err != nil {
				counts.add("err:Destroy")
			}
		}
		counts.add("op:" + op)
	}
}

func raceFamily(t *testing.T, r *run) {
	clients := r.argInt("clients", 3)
	inflight := r.argInt("inflight", 3)
	cfg := c15Config{
		CacheSize:  r.argInt("cache", 1+int(r.seed%3)),
		IDExpiryNs: int64(r.argInt("idexpiry_ms", 0)) * 1e6,
		GraceNs:    int64(r.argInt("grace_ms", 150)) * 1e6,
		CacheExpNs: int64(r.argInt("cacheexp_ms", []int{3600000, 1, 3600000}[r.seed%3])) * 1e6,
		ExpiryNs:   int64(time.Hour),
	}
	st := c15Setup(cfg)
	panics := &c15Panics{}
	counts := &c15Counts{m: map[string]int{}}
	var valSeq atomic.Int64
	var remaining atomic.Int64
	remaining.Store(int64(r.n))

	// how often two requests are inside their handlers on the same object
	var overlapMu sync.Mutex
	inHandler := map[*sessions.Session]int{}
	usedBy := map[*sessions.Session]map[int]bool{}
	overlaps, maxOverlap := 0, 0

	var wg sync.WaitGroup
	stop := make(chan struct{})
	cls := make([]*c15Client, clients)
	for c := 0; c < clients; c++ {
		cls[c] = &c15Client{addr: fmt.Sprintf("10.0.%d.1:4000", c), agent: fmt.Sprintf("agent-%d", c), user: &c15User{id: fmt.Sprintf("u%d", c%2)}}
	}
	// every client first obtains its cookie, then issues its requests in parallel
	for _, cl := range cls {
		w := newC15Writer()
		if _, err := sessions.Start(w, c15Request("", cl.addr, cl.agent), true); err != nil {
			t.Fatalf("race: cannot create a session: %v", err)
		}
		cl.update(w)
	}
	for c := 0; c < clients; c++ {
		for f := 0; f < inflight; f++ {
			wg.Add(1)
			rng := rand.New(rand.NewPCG(r.seed, uint64(1000*c+f+1)))
			gid := inflight*c + f
			go func(cl *c15Client, rng *rand.Rand) {
				defer wg.Done()
				for remaining.Add(-1) >= 0 {
					func() {
						defer panics.guard("request")
						w := newC15Writer()
						req := c15Request(cl.get(), cl.addr, cl.agent)
						s, err := sessions.Start(w, req, true)
						cl.update(w)
						switch {
						case err != nil:
							counts.add("start:error")
							return
						case s == nil:
							counts.add("start:nil")
							return
						}
						counts.add("start:session")
						for _, line := range w.h["Set-Cookie"] {
							if strings.HasPrefix(line, sessions.SessionCookie+"=deleted") {
								counts.add("start:presented_id_unknown")
							}
						}
						if req.Header.Get("Cookie") == "" {
							counts.add("start:no_cookie")
						}
						overlapMu.Lock()
						inHandler[s]++
						if usedBy[s] == nil {
							usedBy[s] = map[int]bool{}
						}
						usedBy[s][gid] = true
						if n := inHandler[s]; n > 1 {
							overlaps++
							if n > maxOverlap {
								maxOverlap = n
							}
						}
						overlapMu.Unlock()
						c15Handler(rng, cl, s, w, req, counts, &valSeq)
						overlapMu.Lock()
						inHandler[s]--
						if inHandler[s] == 0 {
							delete(inHandler, s)
						}
						overlapMu.Unlock()
						cl.update(w)
					}()
				}
			}(cls[c], rng)
		}
	}
	// package-level operations running beside the requests
	wg.Add(1)
	go func() {
		defer wg.Done()
		rng := rand.New(rand.NewPCG(r.seed, 777))
		seen := map[string]bool{}
		for i := 0; ; i++ {
			select {
			case <-stop:
				return
			default:
			}
			func() {
				defer panics.guard("background")
				switch []int{0, 0, 0, 0, 0, 0, 0, 0, 0, 0, 0, 0, 4, 4, 4, 6, 6, 6, 6, 6, 3, 5}[rng.IntN(22)] {
				case 0:
					id := sessions.CUID()
					if len(id) != 11 {
						counts.add("cuid:badlength")
					}
					if seen[id] {
						counts.add("cuid:duplicate")
					}
					seen[id] = true
					counts.add("op:CUID")
				case 3:
					if rng.IntN(4) == 0 {
						sessions.PurgeSessions()
						counts.add("op:PurgeSessions")
					}
				case 4:
					if err := sessions.RefreshUser(&c15User{id: "u" + strconv.Itoa(rng.IntN(2))}); err != nil {
						counts.add("err:RefreshUser")
					}
					counts.add("op:RefreshUser")
				case 5:
					if err := sessions.LogOut("u" + strconv.Itoa(rng.IntN(2))); err != nil {
						counts.add("err:LogOutUser")
					}
					counts.add("op:LogOutUser")
				case 6:
					time.Sleep(100 * time.Microsecond)
				}
			}()
			if i%8 == 0 {
				runtime.Gosched()
			}
		}
	}()
	// a second CUID caller so that CUID runs against itself
	wg.Add(1)
	go func() {
		defer wg.Done()
		for {
			select {
			case <-stop:
				return
			default:
			}
			sessions.CUID()
			runtime.Gosched()
		}
	}()
	// Watchdog: a request that never returns (a keyed lock that is never
	// released, a lock cycle) is reported with the stacks of all goroutines.
	workersDone := make(chan struct{})
	go func() {
		last, lastChange := remaining.Load(), time.Now()
		for {
			select {
			case <-workersDone:
				return
			case <-time.After(50 * time.Millisecond):
			}
			if now := remaining.Load(); now != last {
				last, lastChange = now, time.Now()
			} else if time.Since(lastChange) > time.Duration(r.argInt("hang_s", 8))*time.Second {
				buf := make([]byte, 1<<20)
				buf = buf[:runtime.Stack(buf, true)]
				var blocked []string
				for _, g := range strings.Split(string(buf), "\n\n") {
					if strings.Contains(g, "rivo/sessions.") && !strings.Contains(g, "newMutexes.func") {
						blocked = append(blocked, g)
					}
				}
				r.emit(map[string]interface{}{"family": "race", "hang": true, "seed": r.seed, "config": cfg,
					"requests_left": last, "counts": counts.m, "panics": panics.list, "goroutines_in_package": blocked})
				r.close()
				syscall.Exit(3)
			}
		}
	}()
	go func() {
		for remaining.Load() > 0 {
			time.Sleep(time.Millisecond)
		}
		close(stop)
	}()
	wg.Wait()
	close(workersDone)
	// let the clean-up goroutines of the last ID changes finish
	time.Sleep(time.Duration(cfg.GraceNs) + 20*time.Millisecond)
	st.mu.Lock()
	saves, loads, dels, stored := st.saves, st.loads, st.dels, len(st.recs)
	st.mu.Unlock()
	sharedObjects := 0
	for _, g := range usedBy {
		if len(g) > 1 {
			sharedObjects++
		}
	}
	r.emit(map[string]interface{}{
		"objects": len(usedBy), "objects_used_by_several_goroutines": sharedObjects,
		"family": "race", "seed": r.seed, "requests": r.n, "clients": clients, "inflight": inflight, "config": cfg,
		"counts": counts.m, "panics": panics.list, "shared_object_overlaps": overlaps, "max_handlers_on_one_object": maxOverlap,
		"store":      map[string]int{"saves": saves, "loads": loads, "deletes": dels, "stored_at_end": stored},
		"gomaxprocs": runtime.GOMAXPROCS(0),
	})
}

// ---- family racepair ----

type pairCtx struct {
	s      *sessions.Session
	user   *c15User
	addr   string
	agent  string
	cookie func() string
}

// c15Drivers: one call (or a short fixed sequence) of a function of the
// package, by the name the access table uses.
var c15Drivers = map[string]func(p *pairCtx, i int){
	"Start": func(p *pairCtx, i int) {
		w := newC15Writer()
		sessions.Start(w, c15Request(p.cookie(), p.addr, p.agent), false)
	},
	"Session.RegenerateID": func(p *pairCtx, i int) { p.s.RegenerateID(newC15Writer()) },
	"Session.Destroy": func(p *pairCtx, i int) {
		p.s.Destroy(newC15Writer(), c15Request(p.cookie(), p.addr, p.agent))
	},
	"Session.LogIn": func(p *pairCtx, i int) { p.s.LogIn(p.user, false, newC15Writer()) },
	"Session.LogOut": func(p *pairCtx, i int) {
		p.s.LogIn(p.user, false, newC15Writer())
		p.s.LogOut()
	},
	"Session.Set":          func(p *pairCtx, i int) { p.s.Set("k", i) },
	"Session.Get":          func(p *pairCtx, i int) { p.s.Get("k", nil) },
	"Session.Delete":       func(p *pairCtx, i int) { p.s.Delete("k") },
	"Session.GetAndDelete": func(p *pairCtx, i int) { p.s.GetAndDelete("k", nil) },
	"Session.User":         func(p *pairCtx, i int) { p.s.User() },
	"Session.LastAccess":   func(p *pairCtx, i int) { p.s.LastAccess() },
	"Session.Expired":      func(p *pairCtx, i int) { p.s.Expired() },
	"Session.GobEncode":    func(p *pairCtx, i int) { p.s.GobEncode() },
	"Session.MarshalJSON":  func(p *pairCtx, i int) { json.Marshal(p.s) },
	"cache.Set":            func(p *pairCtx, i int) { sessions.VerifCacheSet(p.s) },
	"cache.Get":            func(p *pairCtx, i int) { sessions.VerifCacheGet(p.cookie()) },
	"cache.Delete":         func(p *pairCtx, i int) { sessions.VerifCacheDelete("no-such-session-id-000000") },
	// compact runs inside cache.Set: creating sessions in a small cache makes
	// it look for the oldest entry
	"cache.compact": func(p *pairCtx, i int) {
		sessions.Start(newC15Writer(), c15Request("", "10.9.9.9:1", "other"), true)
	},
	"PurgeSessions": func(p *pairCtx, i int) { sessions.PurgeSessions() },
	"LogOut":        func(p *pairCtx, i int) { sessions.LogOut(p.user.id) },
	"RefreshUser":   func(p *pairCtx, i int) { sessions.RefreshUser(p.user) },
	"CUID":          func(p *pairCtx, i int) { sessions.CUID() },
}

func racePairFamily(t *testing.T, r *run) {
	iters := r.argInt("iters", 200)
	var pairs [][2]string
	for _, p := range strings.Split(r.arg("pairs", ""), ",") {
		if a := strings.SplitN(p, "~", 2); len(a) == 2 {
			pairs = append(pairs, [2]string{a[0], a[1]})
		}
	}
	panics := &c15Panics{}
	// The configuration is written once: goroutines the package starts read it
	// (RegenerateID's clean-up reads the grace period when it starts). The
	// grace period is long, so those goroutines sleep beyond the end of the
	// process and never meet a later pair's fresh cache.
	base := c15Config{CacheSize: 100, IDExpiryNs: int64(time.Hour), GraceNs: int64(time.Hour), CacheExpNs: int64(time.Hour), ExpiryNs: int64(time.Hour)}
	realStore := c15Setup(base).layer()
	for _, pr := range pairs {
		da, okA := c15Drivers[pr[0]]
		db, okB := c15Drivers[pr[1]]
		if !okA || !okB {
			r.emit(map[string]interface{}{"family": "racepair", "pair": pr, "unsupported": true})
			continue
		}
		cache := 100
		if pr[0] == "cache.compact" || pr[1] == "cache.compact" {
			cache = 2
		}
		sessions.MaxSessionCacheSize = cache
		sessions.VerifReset()
		if cache == 2 {
			sessions.Persistence = realStore
		} else {
			// no store at all: the only synchronisation between the two
			// goroutines is the package's own
			sessions.Persistence = sessions.ExtendablePersistenceLayer{}
		}
		ctx := &pairCtx{user: &c15User{id: "u0"}, addr: "10.0.0.1:4000", agent: "agent"}
		w := newC15Writer()
		s, err := sessions.Start(w, c15Request("", ctx.addr, ctx.agent), true)
		if err != nil || s == nil {
			t.Fatalf("racepair: cannot create a session: %v", err)
		}
		ctx.s = s
		ctx.cookie = func() string { return sessions.VerifView(s).ID }
		s.Set("k", 0)
		if pr[0] == "Start" && pr[1] == "Start" {
			// Two requests presenting the same ID are serialised by the
			// package's per-ID lock. The second goroutine therefore presents
			// the session's previous ID, which refers to the same object.
			oldID := sessions.VerifView(s).ID
			s.RegenerateID(newC15Writer())
			db = func(p *pairCtx, i int) {
				sessions.Start(newC15Writer(), c15Request(oldID, p.addr, p.agent), false)
			}
		}
		// marker for the check: race reports that follow belong to this pair
		fmt.Fprintf(os.Stderr, "C15PAIR %s %s\n", pr[0], pr[1])
		var wg sync.WaitGroup
		var start atomic.Int32
		for g, d := range []func(p *pairCtx, i int){da, db} {
			wg.Add(1)
			go func(g int, d func(p *pairCtx, i int)) {
				defer wg.Done()
				start.Add(1)
				for start.Load() < 2 {
					runtime.Gosched()
				}
				for i := 0; i < iters; i++ {
					func() {
						defer panics.guard(pr[g])
						d(ctx, i)
					}()
				}
			}(g, d)
		}
		wg.Wait()
		fmt.Fprintf(os.Stderr, "C15PAIREND %s %s\n", pr[0], pr[1])
		r.emit(map[string]interface{}{"family": "racepair", "pair": pr, "iters": iters})
	}
	r.emit(map[string]interface{}{"family": "racepair", "panics": panics.list})
}

// ---- family linhist ----

type linEvent struct {
	ts     int64
	thread int
	inv    bool
	op     string
	key    int
	val    int // Set: value written
	found  bool
	res    int
}

func coqOp(e linEvent) string {
	switch e.op {
	case "Set":
		return fmt.Sprintf("(OSet %d %d)", e.key, e.val)
	case "Get":
		return fmt.Sprintf("(OGet %d)", e.key)
	case "Delete":
		return fmt.Sprintf("(ODel %d)", e.key)
	}
	return fmt.Sprintf("(OGetDel %d)", e.key)
}

func coqKV(m map[int]int) string {
	var keys []int
	for k := range m {
		keys = append(keys, k)
	}
	sort.Ints(keys)
	items := make([]string, len(keys))
	for i, k := range keys {
		items[i] = fmt.Sprintf("(%d, %d)", k, m[k])
	}
	return coqList(items)
}

func linSnapshot(s *sessions.Session, nkeys int) (map[int]int, bool) {
	v := sessions.VerifView(s)
	m := map[int]int{}
	for k := 0; k < nkeys; k++ {
		if x, ok := v.Data["k"+strconv.Itoa(k)]; ok {
			n, isInt := x.(int)
			if !isInt {
				return nil, false
			}
			m[k] = n
		}
	}
	return m, true
}

func linHistFamily(t *testing.T, r *run) {
	nkeys := r.argInt("keys", 2)
	c15Setup(c15Config{CacheSize: 10, IDExpiryNs: int64(time.Hour), GraceNs: int64(time.Second), CacheExpNs: int64(time.Hour), ExpiryNs: int64(time.Hour)})
	// saves are irrelevant here and would only slow the windows down
	sessions.Persistence = sessions.ExtendablePersistenceLayer{}
	s, err := sessions.Start(newC15Writer(), c15Request("", "10.0.0.1:4000", "agent"), true)
	if err != nil || s == nil {
		t.Fatalf("linhist: cannot create a session: %v", err)
	}
	panics := &c15Panics{}
	var clock atomic.Int64
	valSeq := 0
	kinds := map[string]int{}
	overlapping := 0
	for round := 0; round < r.n; round++ {
		mode := []string{"mixed", "contest", "mixed", "setdel"}[r.rng.IntN(4)]
		threads := []int{2, 3, 4, 8}[r.rng.IntN(4)]
		perThread := 1 + r.rng.IntN(3)
		if threads == 8 {
			perThread = 1
		}
		// plan the operations (deterministic in the seed)
		type planned struct {
			op  string
			key int
			val int
		}
		plan := make([][]planned, threads)
		contestKey := r.rng.IntN(nkeys)
		if mode == "contest" {
			valSeq++
			s.Set("k"+strconv.Itoa(contestKey), valSeq)
		}
		for g := 0; g < threads; g++ {
			for j := 0; j < perThread; j++ {
				p := planned{key: r.rng.IntN(nkeys)}
				switch mode {
				case "contest":
					p.op, p.key = "GetAndDelete", contestKey
					if j > 0 {
						p.op = []string{"Set", "GetAndDelete"}[r.rng.IntN(2)]
					}
				case "setdel":
					p.op = []string{"Set", "Delete", "Get", "Set"}[r.rng.IntN(4)]
				default:
					p.op = []string{"Set", "Get", "Delete", "GetAndDelete", "GetAndDelete", "Set"}[r.rng.IntN(6)]
				}
				if p.op == "Set" {
					valSeq++
					p.val = valSeq
				}
				plan[g] = append(plan[g], p)
			}
		}
		init, ok := linSnapshot(s, nkeys)
		if !ok {
			t.Fatalf("linhist: unexpected value type in session data")
		}
		events := make([][]linEvent, threads)
		var wg sync.WaitGroup
		var ready atomic.Int32
		for g := 0; g < threads; g++ {
			wg.Add(1)
			go func(g int) {
				defer wg.Done()
				defer panics.guard("linhist")
				ready.Add(1)
				for spins := 0; int(ready.Load()) < threads; spins++ {
					if spins%1024 == 1023 {
						runtime.Gosched() // spin: start together
					}
				}
				for _, p := range plan[g] {
					key := "k" + strconv.Itoa(p.key)
					e := linEvent{thread: g, op: p.op, key: p.key, val: p.val}
					e.inv, e.ts = true, clock.Add(1)
					events[g] = append(events[g], e)
					e.inv = false
					switch p.op {
					case "Set":
						s.Set(key, p.val)
					case "Get":
						if x := s.Get(key, nil); x != nil {
							e.found, e.res = true, x.(int)
						}
					case "Delete":
						s.Delete(key)
					case "GetAndDelete":
						if x := s.GetAndDelete(key, nil); x != nil {
							e.found, e.res = true, x.(int)
						}
					}
					e.ts = clock.Add(1)
					events[g] = append(events[g], e)
				}
			}(g)
		}
		wg.Wait()
		final, ok := linSnapshot(s, nkeys)
		if !ok {
			t.Fatalf("linhist: unexpected value type in session data")
		}
		var all []linEvent
		for _, l := range events {
			all = append(all, l...)
		}
		sort.Slice(all, func(i, j int) bool { return all[i].ts < all[j].ts })
		// Coq's nat is unary: values are renumbered per window (1, 2, ... in
		// order of first appearance) for the Coq rendering; JSON keeps them
		small := map[int]int{}
		canon := func(v int) int {
			if n, ok := small[v]; ok {
				return n
			}
			small[v] = len(small) + 1
			return small[v]
		}
		canonMap := func(m map[int]int) map[int]int {
			out := map[int]int{}
			var ks []int
			for k := range m {
				ks = append(ks, k)
			}
			sort.Ints(ks)
			for _, k := range ks {
				out[k] = canon(m[k])
			}
			return out
		}
		initC := canonMap(init)
		// measured: does any operation start before another one has returned?
		open := 0
		overlap := false
		items := make([]string, len(all))
		jsonEvents := make([]map[string]interface{}, len(all))
		for i, e := range all {
			je := map[string]interface{}{"t": e.thread, "op": e.op, "key": e.key}
			if e.inv {
				open++
				if open > 1 {
					overlap = true
				}
				ce := e
				ce.val = canon(e.val)
				items[i] = fmt.Sprintf("EInv %d %s", e.thread, coqOp(ce))
				je["ev"] = "call"
				if e.op == "Set" {
					je["val"] = e.val
				}
			} else {
				open--
				res := "None"
				if e.found {
					res = fmt.Sprintf("(Some %d)", canon(e.res))
					je["res"] = e.res
				}
				ce := e
				ce.val = canon(e.val)
				items[i] = fmt.Sprintf("ERes %d %s %s", e.thread, coqOp(ce), res)
				je["ev"] = "return"
			}
			jsonEvents[i] = je
		}
		if overlap {
			overlapping++
		}
		kinds[fmt.Sprintf("%s/%dx%d", mode, threads, perThread)]++
		var keys []string
		for k := 0; k < nkeys; k++ {
			keys = append(keys, strconv.Itoa(k))
		}
		r.emit(map[string]interface{}{
			"family": "linhist", "round": round, "mode": mode, "threads": threads, "overlap": overlap,
			"init": init, "final": final, "events": jsonEvents,
			"coq": fmt.Sprintf("mkCase %s %s %s %s", coqKV(initC), coqList(items), coqList(keys), coqKV(canonMap(final))),
		})
	}
	r.emit(map[string]interface{}{"family": "linhist", "summary": true, "rounds": r.n, "overlapping_rounds": overlapping,
		"kinds": kinds, "panics": panics.list, "gomaxprocs": runtime.GOMAXPROCS(0)})
}
