package harness

// Family "mutextimed" (C13, C14; audit task B3): the REAL keyed lock manager
// inside a testing/synctest bubble with its three tunables set through
// sessions.VerifSetMutexTunables (staleness timeout `stale` units, the real
// ticker goroutine requesting a purge every `freq` units, default table
// limit), driven by the workers of family "mutex" (mutex_test.go) with
// explicit sleeps between commands. Virtual time advances only while every
// goroutine of the bubble is blocked, so every command - and every step of
// the manager and of the workers that it causes - happens at a known instant;
// the ticker's purges happen at t0 + n*freq. After every sleep and after every
// command the script waits for quiescence and records the lock table
// (Table(): keys and lock counters), the holders and the waiters: one
// "quiescent point". Each script becomes one record whose `coq` field is a
// `tcase` of Model/MutexTimedReplay.v; there the same timed schedule is run
// with MutexTimed.trun, which decides from its own clock and lastAccess which
// entries each purge drops, and must show the same table, holders and waiters
// at every point.
//
// Nothing here keeps a script inside the proviso of C13/C14: kind "free"
// holds keys for longer than the timeout and sends spurious Unlocks of held
// keys. Two goroutines inside one key are then an observation to be compared
// with the model, not a finding. Kind "adm" keeps every hold (counted from the
// last Lock request or Unlock on the key) at most `stale` long - exactly
// `stale` is aimed at - and only there the oracle findings of mutex_test.go
// (mutual exclusion, lost wake-up, deadlock) are reported as `viol`.
//
// Fixed scenarios (always emitted first): waiter (a goroutine queued for
// longer than `stale` behind short holds), boundary (a hold of exactly `stale`
// with purges at that very instant), longhold (a hold longer than `stale`, a
// purge, a third locker let in), idle (an unlocked entry kept at lastAccess +
// stale and dropped one unit later), spurrefresh (a spurious Unlock refreshes
// lastAccess), strandedwaiter (entry dropped with a waiter queued, the waiter
// never served).
//
// VERIF_ARGS: script=<json file of one record to re-execute> rounds=<n> gmax=<n> kmax=<n>.

import (
	"encoding/json"
	"fmt"
	"os"
	"strings"
	"syscall"
	"testing"
	"testing/synctest"
	"time"

	"github.com/rivo/sessions"
)

func init() {
	families["mutextimed"] = mutexTimedFamily
}

type mtPoint struct {
	At      int64    `json:"at"`    // units since the creation of the manager
	Sleep   int64    `json:"sleep"` // units slept before the commands
	Ticks   []int64  `json:"ticks"` // instants of ticker purges during the sleep
	Cmds    []mxCmd  `json:"cmds"`  // at most one of lock unlock spur purge
	Table   [][2]int `json:"table"`
	Holders [][2]int `json:"holders"`
	Waiters [][2]int `json:"waiters"`
	Viol    []string `json:"viol,omitempty"`
}

type mtRec struct {
	ID     string         `json:"id"`
	Kind   string         `json:"kind"`
	G      int            `json:"G"`
	K      int            `json:"K"`
	Stale  int64          `json:"stale"`
	Freq   int64          `json:"freq"`
	Max    int            `json:"max"`
	Points []mtPoint      `json:"points"`
	Viol   []string       `json:"viol"`
	Counts map[string]int `json:"counts"`
	Coq    string         `json:"coq"`
}

const mtMax = 1024 * 1024

// mtScript is one timed script against one fresh manager.
type mtScript struct {
	*mxScript
	stale, freq int64
	points      []mtPoint
	coq         []string
	twoHolders  bool
	grantAt     []int64 // per goroutine: instant at which its current hold was first observed
}

func newMtScript(G, K int, stale, freq int64) *mtScript {
	sessions.VerifSetMutexTunables(mtMax, time.Duration(freq)*mxUnit, time.Duration(stale)*mxUnit)
	return &mtScript{mxScript: newMxScript(G, K, mtMax, true), stale: stale, freq: freq, grantAt: make([]int64, G)}
}

func (s *mtScript) now() int64 { return int64(time.Since(s.t0) / mxUnit) }

// step sleeps d units (if d > 0), observes; then issues the command (if any),
// observes again. Each observation is one quiescent point.
func (s *mtScript) step(d int64, c *mxCmd) {
	if d > 0 {
		s.observe(d, nil)
	}
	if c != nil {
		s.observe(0, c)
	}
}

func (s *mtScript) observe(d int64, c *mxCmd) {
	before := s.now()
	var cmds []mxCmd
	if d > 0 {
		cmds = append(cmds, mxCmd{Kind: "sleep", D: d})
	}
	if c != nil {
		cmds = append(cmds, *c)
	}
	s.round(cmds, false)
	rd := s.rounds[len(s.rounds)-1]
	at := s.now()
	p := mtPoint{At: at, Sleep: d, Ticks: []int64{}, Cmds: []mxCmd{}, Table: rd.Table, Holders: rd.Holders, Waiters: rd.Waiters, Viol: rd.Viol}
	for n := before/s.freq + 1; n*s.freq <= at; n++ {
		p.Ticks = append(p.Ticks, n*s.freq)
	}
	var coq []string
	if c != nil {
		p.Cmds = append(p.Cmds, *c)
		switch c.Kind {
		case "lock", "spur":
			coq = append(coq, fmt.Sprintf("QStart %d", c.G))
		case "unlock":
			coq = append(coq, fmt.Sprintf("QLeave %d", c.G))
		case "purge":
			coq = append(coq, "QPurge")
		}
	}
	perKey := map[int]int{}
	if n := len(s.points); n > 0 {
		for _, h := range s.points[n-1].Holders {
			perKey[-1-h[0]] = 1 // held at the previous point
		}
	}
	for _, h := range rd.Holders {
		if perKey[-1-h[0]] == 0 {
			// Lock returned at this instant (virtual time does not advance
			// between a command and the quiescence after it)
			s.grantAt[h[0]] = at
		}
		perKey[h[1]]++
		if perKey[h[1]] > 1 {
			s.twoHolders = true
		}
	}
	pairs := func(l [][2]int) string {
		items := make([]string, len(l))
		for i, q := range l {
			items[i] = fmt.Sprintf("(%d, %d)", q[0], q[1])
		}
		return coqList(items)
	}
	ticks := make([]string, len(p.Ticks))
	for i, t := range p.Ticks {
		ticks[i] = fmt.Sprintf("%d%%N", t)
	}
	s.coq = append(s.coq, fmt.Sprintf("mkQ %d%%N %s %s %s %s %s", at, coqList(ticks), coqList(coq), pairs(p.Table), pairs(p.Holders), pairs(p.Waiters)))
	s.points = append(s.points, p)
}

func (s *mtScript) lock(g, k int)   { s.step(0, &mxCmd{Kind: "lock", G: g, K: k}) }
func (s *mtScript) unlock(g, k int) { s.step(0, &mxCmd{Kind: "unlock", G: g, K: k}) }
func (s *mtScript) spur(g, k int)   { s.step(0, &mxCmd{Kind: "spur", G: g, K: k}) }
func (s *mtScript) purge()          { s.step(0, &mxCmd{Kind: "purge"}) }
func (s *mtScript) sleepTo(t int64) {
	if d := t - s.now(); d > 0 {
		s.step(d, nil)
	}
}

// unlockAll lets every holder unlock, one at a time, until nobody holds.
func (s *mtScript) unlockAll() {
	for i := 0; i < 4*s.G+4; i++ {
		g := -1
		for j := 0; j < s.G; j++ {
			if s.status[j] == wHolding {
				g = j
				break
			}
		}
		if g < 0 {
			return
		}
		s.unlock(g, s.wkey[g])
	}
}

// probeTail pins lastAccess of every remaining entry from outside: an explicit
// purge at (what the generator believes is) lastAccess + stale, which must keep
// the entry, and one unit later, which must drop it. The belief only chooses
// the instants; the judgement is the model's.
func (s *mtScript) probeTail() {
	for i := 0; i < 2*s.K+2; i++ {
		last := s.points[len(s.points)-1]
		if len(last.Table) == 0 {
			return
		}
		var target int64 = -1
		for _, e := range last.Table {
			t := int64(s.touch[e[0]].Sub(s.t0)/mxUnit) + s.stale
			if t >= s.now() && (target < 0 || t < target) {
				target = t
			}
		}
		if target < 0 {
			target = s.now()
		}
		s.sleepTo(target)
		s.purge()
		s.step(1, &mxCmd{Kind: "purge"})
	}
}

func (s *mtScript) finishTimed(r *run, id, kind string) {
	for g, w := range s.ws {
		if s.status[g] == wIdle {
			w.cmd <- mxCmd{Kind: "quit"}
		}
	}
	synctest.Wait()
	rec := mtRec{ID: id, Kind: kind, G: s.G, K: s.K, Stale: s.stale, Freq: s.freq, Max: mtMax, Points: s.points, Counts: s.counts, Viol: []string{}}
	rec.Counts["two_holders_observed"] = 0
	if s.twoHolders {
		rec.Counts["two_holders_observed"] = 1
	}
	for i, p := range s.points {
		for _, v := range p.Viol {
			rec.Viol = append(rec.Viol, fmt.Sprintf("point %d (t=%d): %s", i, p.At, v))
		}
	}
	nobody := true
	for g := 0; g < s.G; g++ {
		nobody = nobody && s.status[g] != wHolding
	}
	for g := 0; g < s.G && nobody; g++ {
		if s.status[g] != wIdle {
			rec.Viol = append(rec.Viol, fmt.Sprintf("end: deadlock: goroutine %d is still in Lock(%d) although every holder has unlocked", g, s.wkey[g]))
		}
	}
	scripts := make([]string, s.G)
	for g := range scripts {
		scripts[g] = coqList(s.ops[g])
	}
	rec.Coq = fmt.Sprintf("mkTCase %d%%N %d%%N %s\n  [%s]", s.stale, mtMax, coqList(scripts), strings.Join(s.coq, ";\n   "))
	r.emit(rec)
	// silence this manager's ticker: it reads the frequency anew after every
	// request, so one more period with the frequency set to "never" parks it
	sessions.VerifSetMutexTunables(mtMax, mxNever, time.Duration(s.stale)*mxUnit)
	time.Sleep(time.Duration(s.freq) * mxUnit)
	synctest.Wait()
}

// touchedAt: the generator's belief of lastAccess of key k, in units.
func (s *mtScript) touchedAt(k int) int64 { return int64(s.touch[k].Sub(s.t0) / mxUnit) }

// admissibleUntil: the latest instant up to which the script may sleep with
// every current hold at most stale long, counted from the return of Lock (in
// the bubble the instant of the Lock request or Unlock that led to it).
// Waiters may queue for any length of time.
func (s *mtScript) admissibleUntil() int64 {
	var lim int64 = 1 << 60
	for g := 0; g < s.G; g++ {
		if s.status[g] == wHolding {
			if t := s.grantAt[g] + s.stale; t < lim {
				lim = t
			}
		}
	}
	return lim
}

func (s *mtScript) generate(r *run, adm bool, nrounds int) {
	hot := r.rng.IntN(s.K)
	for i := 0; i < nrounds; i++ {
		// sleep
		var d int64
		switch p := r.rng.IntN(100); {
		case p < 30:
			d = 0
		case p < 55:
			// aim at lastAccess + stale (+-1) of some key
			k := r.rng.IntN(s.K)
			if s.touched[k] {
				d = s.touchedAt(k) + s.stale + int64(r.rng.IntN(3)) - 1 - s.now()
			}
		case p < 70:
			// aim at a tick of the ticker (+-1)
			d = (s.now()/s.freq+1+int64(r.rng.IntN(3)))*s.freq + int64(r.rng.IntN(3)) - 1 - s.now()
		case p < 90:
			d = 1 + int64(r.rng.IntN(int(s.stale/2)+1))
		default:
			d = s.stale + int64(r.rng.IntN(int(s.freq)+2))
		}
		if d < 0 {
			d = 0
		}
		if adm {
			if lim := s.admissibleUntil(); s.now()+d > lim {
				d = lim - s.now()
				if d < 0 {
					d = 0
				}
			}
		}
		// command
		var c *mxCmd
		g := r.rng.IntN(s.G)
		p := r.rng.IntN(100)
		switch s.status[g] {
		case wHolding:
			if p < 65 || (adm && s.now()+d >= s.grantAt[g]+s.stale) {
				c = &mxCmd{Kind: "unlock", G: g, K: s.wkey[g]}
			}
		case wIdle:
			k := r.rng.IntN(s.K)
			if r.rng.IntN(2) == 0 {
				k = hot
			}
			switch {
			case p < 10:
				c = &mxCmd{Kind: "purge"}
			case p < 22:
				if !adm || (s.holderOf(k) < 0 && s.waitersOf(k) == 0) {
					c = &mxCmd{Kind: "spur", G: g, K: k}
				}
			case p < 90:
				c = &mxCmd{Kind: "lock", G: g, K: k}
			}
		default:
			if p < 30 {
				c = &mxCmd{Kind: "purge"}
			}
		}
		if adm && c == nil && d > 0 && s.now()+d >= s.admissibleUntil() {
			// the sleep reaches the limit of some hold: its holder unlocks right there
			for h := 0; h < s.G; h++ {
				if s.status[h] == wHolding && s.grantAt[h]+s.stale <= s.now()+d {
					c = &mxCmd{Kind: "unlock", G: h, K: s.wkey[h]}
					break
				}
			}
		}
		s.step(d, c)
	}
	if adm {
		// end every hold in time: holders unlock one at a time, at once
		s.unlockAll()
	} else {
		if r.rng.IntN(2) == 0 {
			s.step(s.stale+1+int64(r.rng.IntN(int(s.freq))), nil)
		}
		s.unlockAll()
	}
	s.probeTail()
}

// ---- fixed scenarios ----

func mtScenario(name string, stale, freq int64) *mtScript {
	var s *mtScript
	switch name {
	case "waiter":
		// g2 queued for 2*stale-ish behind two holds shorter than stale
		s = newMtScript(3, 1, stale, freq)
		s.lock(0, 0)
		s.step(1, &mxCmd{Kind: "lock", G: 1, K: 0})
		s.step(1, &mxCmd{Kind: "lock", G: 2, K: 0})
		s.step(stale-10, &mxCmd{Kind: "unlock", G: 0, K: 0}) // hand-over to g1 refreshes lastAccess
		s.step(stale-3, &mxCmd{Kind: "unlock", G: 1, K: 0})  // g2 has been queued for ~2*stale
		s.step(stale, &mxCmd{Kind: "unlock", G: 2, K: 0})    // a hold of exactly stale
	case "boundary":
		// a hold of exactly stale, explicit purge at that very instant
		s = newMtScript(2, 1, stale, freq)
		s.lock(0, 0)
		s.step(stale, &mxCmd{Kind: "purge"})
		s.lock(1, 0) // must wait: the entry is still there
		s.unlock(0, 0)
		s.unlock(1, 0)
	case "longhold":
		s = newMtScript(3, 1, stale, freq)
		s.lock(0, 0)
		s.step(1, &mxCmd{Kind: "lock", G: 1, K: 0})
		s.step(stale-1, &mxCmd{Kind: "purge"})      // lastAccess 1, now stale: kept
		s.step(1, &mxCmd{Kind: "purge"})            // age exactly stale: kept
		s.step(1, &mxCmd{Kind: "purge"})            // dropped while held, with a waiter queued
		s.step(0, &mxCmd{Kind: "lock", G: 2, K: 0}) // let in: two holders
		s.unlock(0, 0)
		s.unlock(2, 0)
	case "idle":
		s = newMtScript(1, 2, stale, freq)
		s.lock(0, 0)
		s.step(3, &mxCmd{Kind: "unlock", G: 0, K: 0})
		s.step(2, &mxCmd{Kind: "lock", G: 0, K: 1})
		s.unlock(0, 1)
	case "spurrefresh":
		s = newMtScript(2, 1, stale, freq)
		s.lock(0, 0)
		s.unlock(0, 0)
		s.step(stale-1, &mxCmd{Kind: "spur", G: 1, K: 0}) // refreshes lastAccess of the idle entry
		s.step(stale, &mxCmd{Kind: "purge"})              // kept
	case "strandedwaiter":
		s = newMtScript(4, 1, stale, freq)
		s.lock(0, 0)
		s.lock(1, 0)
		s.step(stale+freq+1, nil) // the ticker drops the entry: g0 inside, g1 queued on the old channel
		s.lock(2, 0)
		s.lock(3, 0)
		s.unlock(0, 0) // counted on the new entry: hands over to g3 while g2 is inside
		s.unlockAll()
	}
	s.unlockAll()
	s.probeTail()
	return s
}

var mtScenarios = []string{"waiter", "boundary", "longhold", "idle", "spurrefresh", "strandedwaiter"}

// tunables: (stale, freq) in units
var mtTunables = [][2]int64{{100, 10}, {30, 10}, {25, 5}, {7, 3}, {60, 10}, {12, 4}}

func mutexTimedFamily(t *testing.T, r *run) {
	gmax, kmax := r.argInt("gmax", 6), r.argInt("kmax", 3)
	nrounds := r.argInt("rounds", 24)
	script := r.arg("script", "")
	synctest.Test(t, func(t *testing.T) {
		switch {
		case script != "":
			raw, err := os.ReadFile(script)
			if err != nil {
				panic(err)
			}
			var in mtRec
			if err := json.Unmarshal(raw, &in); err != nil {
				panic(err)
			}
			s := newMtScript(in.G, in.K, in.Stale, in.Freq)
			for _, p := range in.Points {
				var c *mxCmd
				if len(p.Cmds) > 0 {
					c = &p.Cmds[0]
				}
				s.observe(p.Sleep, c)
			}
			s.finishTimed(r, "replay", in.Kind)
		default:
			for i, name := range mtScenarios {
				tn := mtTunables[(i+int(r.seed))%len(mtTunables)]
				if tn[0] < 12 {
					tn = mtTunables[0]
				}
				mtScenario(name, tn[0], tn[1]).finishTimed(r, fmt.Sprintf("%s-%d", name, r.seed), name)
				mtScenario(name, 100, 10).finishTimed(r, fmt.Sprintf("%s-100-%d", name, r.seed), name)
			}
			for i := 0; i < r.n; i++ {
				tn := mtTunables[r.rng.IntN(len(mtTunables))]
				G := 1 + r.rng.IntN(gmax)
				K := 1 + r.rng.IntN(kmax)
				adm := i%2 == 0
				kind := "free"
				if adm {
					kind = "adm"
				}
				s := newMtScript(G, K, tn[0], tn[1])
				s.generate(r, adm, 6+r.rng.IntN(nrounds))
				s.finishTimed(r, fmt.Sprintf("%s-%d-%d", kind, r.seed, i), kind)
			}
		}
		r.close()
		syscall.Exit(0)
	})
}
