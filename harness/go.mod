module verif/harness

go 1.26.8

require github.com/rivo/sessions v0.0.0

replace github.com/rivo/sessions => /repo
