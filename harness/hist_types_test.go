package harness

// Data types of the history families (C01-C12, C18): histories, observations,
// their JSON form (replays, evidence) and their Coq form (Model/Hist.v).

import (
	"fmt"
	"strconv"
	"strings"
)

type Key struct {
	Gen bool `json:"gen"`
	N   int  `json:"n"`
}

func (k Key) Coq() string {
	if k.Gen {
		return fmt.Sprintf("(KGen %d)", k.N)
	}
	return fmt.Sprintf("(KJunk %d)", k.N)
}

type CVal struct {
	Kind string `json:"kind"` // none | key | other
	Key  Key    `json:"key"`
	N    int    `json:"n"`
}

func (c CVal) Coq() string {
	switch c.Kind {
	case "key":
		return "(CKey " + c.Key.Coq() + ")"
	case "other":
		return fmt.Sprintf("(COther %d)", c.N)
	}
	return "CNone"
}

type Addr struct {
	V4            bool `json:"v4"`
	A, B, C, D, P int
	N             int `json:"n"`
}

func (a Addr) Coq() string {
	if a.V4 {
		return fmt.Sprintf("(V4 %d %d %d %d %d)", a.A, a.B, a.C, a.D, a.P)
	}
	return fmt.Sprintf("(AOther %d)", a.N)
}

// String is the RemoteAddr the request carries.
func (a Addr) String() string {
	if a.V4 {
		return fmt.Sprintf("%d.%d.%d.%d:%d", a.A, a.B, a.C, a.D, a.P)
	}
	switch a.N {
	case 0:
		return ""
	default:
		return fmt.Sprintf("[2001:db8::%x]:%d", a.N, 40000+a.N)
	}
}

type Cfg struct {
	Expiry      int64 `json:"expiry"`
	IDExpiry    int64 `json:"idexpiry"`
	Grace       int64 `json:"grace"`
	CacheExpiry int64 `json:"cacheexpiry"`
	MaxCache    int   `json:"maxcache"`
	AcceptIP    int   `json:"acceptip"`
	AcceptUA    bool  `json:"acceptua"`
	JSON        bool  `json:"json"`
}

func (c Cfg) Coq() string {
	return fmt.Sprintf("(mkCfg %s %s %s %s %s %s %s %s)", coqZ(c.Expiry), coqZ(c.IDExpiry), coqZ(c.Grace),
		coqZ(c.CacheExpiry), coqZ(int64(c.MaxCache)), coqZ(int64(c.AcceptIP)), coqBool(c.AcceptUA), coqBool(c.JSON))
}

type Sop struct {
	Op   string `json:"op"` // set del get getdel login logout regen destroy
	K    int    `json:"k,omitempty"`
	V    int    `json:"v,omitempty"`
	U    int    `json:"u,omitempty"`
	Ver  int    `json:"ver,omitempty"`
	Excl bool   `json:"excl,omitempty"`
}

func (s Sop) Coq() string {
	switch s.Op {
	case "set":
		return fmt.Sprintf("(SSet %d %d)", s.K, s.V)
	case "del":
		return fmt.Sprintf("(SDel %d)", s.K)
	case "get":
		return fmt.Sprintf("(SGet %d)", s.K)
	case "getdel":
		return fmt.Sprintf("(SGetDel %d)", s.K)
	case "login":
		return fmt.Sprintf("(SLogIn (%d, %d) %s)", s.U, s.Ver, coqBool(s.Excl))
	case "logout":
		return "SLogOut"
	case "regen":
		return "SRegen"
	case "destroy":
		return "SDestroy"
	}
	panic("sop " + s.Op)
}

type Hop struct {
	Kind    string `json:"kind"` // req wait purge drop restart logoutuser refreshuser setcfg
	Client  int    `json:"client,omitempty"`
	ForgeRaw *string `json:"forge_raw,omitempty"` // present this raw cookie value instead of the jar
	ForgeKey *Key    `json:"forge_key,omitempty"` // present this (formerly) generated ID instead of the jar
	Present *CVal  `json:"present,omitempty"` // filled in: what net/http parsed of a forged value; nil: the client's jar
	Create  bool   `json:"create,omitempty"`
	Addr    Addr   `json:"addr"`
	Agent   int    `json:"agent,omitempty"` // index into the agent pool; 0 = no User-Agent
	Script  []Sop  `json:"script,omitempty"`
	TB      []Key  `json:"tb,omitempty"` // filled in from the observation
	Plan    []bool `json:"plan,omitempty"`
	Crash   *int   `json:"crash,omitempty"`
	D       int64  `json:"d,omitempty"`
	U       int    `json:"u,omitempty"`
	Ver     int    `json:"ver,omitempty"`
	Cfg     *Cfg   `json:"cfg,omitempty"`
}

func coqKeys(l []Key) string {
	items := make([]string, len(l))
	for i, k := range l {
		items[i] = k.Coq()
	}
	return coqList(items)
}

func coqBools(l []bool) string {
	items := make([]string, len(l))
	for i, b := range l {
		items[i] = coqBool(b)
	}
	return coqList(items)
}

func (h Hop) Coq() string {
	switch h.Kind {
	case "req":
		pres := "PJar"
		if h.Present != nil {
			pres = "(PForge " + h.Present.Coq() + ")"
		}
		script := make([]string, len(h.Script))
		for i, s := range h.Script {
			script[i] = s.Coq()
		}
		crash := "None"
		if h.Crash != nil {
			crash = fmt.Sprintf("(Some %d%%nat)", *h.Crash)
		}
		return fmt.Sprintf("(HReq (mkReqStep %d %s %s %s %s %s %s %s %s))", h.Client, pres, coqBool(h.Create), h.Addr.Coq(),
			coqN(agentHash(h.Agent)), coqList(script), coqKeys(h.TB), coqBools(h.Plan), crash)
	case "wait":
		return fmt.Sprintf("(HWait %s)", coqZ(h.D))
	case "purge":
		return fmt.Sprintf("(HPurge %s %s)", coqKeys(h.TB), coqBools(h.Plan))
	case "drop":
		return "HDropCache"
	case "restart":
		return "HRestart"
	case "logoutuser":
		return fmt.Sprintf("(HLogoutUser %d %s %s)", h.U, coqKeys(h.TB), coqBools(h.Plan))
	case "refreshuser":
		return fmt.Sprintf("(HRefreshUser (%d, %d) %s %s)", h.U, h.Ver, coqKeys(h.TB), coqBools(h.Plan))
	case "setcfg":
		return "(HSetCfg " + h.Cfg.Coq() + ")"
	}
	panic("hop " + h.Kind)
}

// Rec mirrors Model/Sess.v rec. Instants are nanoseconds since the epoch of
// the virtual clock.
type Rec struct {
	Created int64    `json:"created"`
	Access  int64    `json:"access"`
	IP      Addr     `json:"ip"`
	UA      uint64   `json:"ua"`
	Ref     *Key     `json:"ref,omitempty"`
	User    *[2]int  `json:"user,omitempty"`
	DataNil bool     `json:"datanil,omitempty"`
	Data    [][2]int `json:"data,omitempty"` // sorted by key
}

func (r Rec) Coq() string {
	ref := "None"
	if r.Ref != nil {
		ref = "(Some " + r.Ref.Coq() + ")"
	}
	user := "None"
	if r.User != nil {
		user = fmt.Sprintf("(Some (%d, %d))", r.User[0], r.User[1])
	}
	data := "None"
	if !r.DataNil {
		items := make([]string, len(r.Data))
		for i, kv := range r.Data {
			items[i] = fmt.Sprintf("(%d, %d)", kv[0], kv[1])
		}
		data = "(Some " + coqList(items) + ")"
	}
	return fmt.Sprintf("(mkRec %s %s %s %s %s %s %s)", coqZ(r.Created), coqZ(r.Access), r.IP.Coq(), coqN(r.UA), ref, user, data)
}

type KeyRec struct {
	Key Key `json:"key"`
	Rec Rec `json:"rec"`
}

func (k KeyRec) Coq() string { return "(" + k.Key.Coq() + ", " + k.Rec.Coq() + ")" }

func coqOptKeyRec(k *KeyRec) string {
	if k == nil {
		return "None"
	}
	return "(Some " + k.Coq() + ")"
}

type CacheEnt struct {
	Key   Key `json:"key"`   // the ID it is cached under
	ObjID Key `json:"objid"` // the object's own id field
	Rec   Rec `json:"rec"`
}

func (c CacheEnt) Coq() string {
	return fmt.Sprintf("(%s, mkObj %s %s)", c.Key.Coq(), c.ObjID.Coq(), c.Rec.Coq())
}

type Ev struct {
	Op     string `json:"op"` // load loaduser save delete usersessions draw
	Key    Key    `json:"key"`
	U      int    `json:"u,omitempty"`
	Rec    *Rec   `json:"rec,omitempty"`
	OK     bool   `json:"ok"`
	Origin string `json:"origin,omitempty"` // for saves: compact | purge | other
}

func (e Ev) Coq() string {
	switch e.Op {
	case "load":
		return fmt.Sprintf("(EvLoad %s %s)", e.Key.Coq(), coqBool(e.OK))
	case "loaduser":
		return fmt.Sprintf("(EvLoadUser %d %s)", e.U, coqBool(e.OK))
	case "save":
		return fmt.Sprintf("(EvSave %s %s %s)", e.Key.Coq(), e.Rec.Coq(), coqBool(e.OK))
	case "delete":
		return fmt.Sprintf("(EvDelete %s %s)", e.Key.Coq(), coqBool(e.OK))
	case "usersessions":
		return fmt.Sprintf("(EvUserSessions %d %s)", e.U, coqBool(e.OK))
	case "draw":
		return fmt.Sprintf("(EvDraw %d)", e.Key.N)
	}
	panic("ev " + e.Op)
}

type Cookie struct {
	Kind string `json:"kind"` // live | delete | bad
	Key  Key    `json:"key"`
	N    int    `json:"n,omitempty"`
	Raw  string `json:"raw,omitempty"`
}

func (c Cookie) Coq() string {
	switch c.Kind {
	case "live":
		return "(CkLive " + c.Key.Coq() + ")"
	case "delete":
		return "CkDelete"
	}
	return fmt.Sprintf("(CkBad %d)", c.N)
}

type SRes struct {
	Kind string `json:"kind"` // ok val err panic
	Has  bool   `json:"has,omitempty"`
	V    int    `json:"v,omitempty"`
	Site string `json:"site,omitempty"`
	Text string `json:"text,omitempty"`
}

func (s SRes) Coq() string {
	switch s.Kind {
	case "ok":
		return "SOk"
	case "val":
		if s.Has {
			return fmt.Sprintf("(SVal (Some %d))", s.V)
		}
		return "(SVal None)"
	case "err":
		return "(SErr " + s.Site + ")"
	}
	return "(SPanic " + s.Site + ")"
}

type Obs struct {
	Res     string     `json:"res"` // sess none err panic void crashed
	Site    string     `json:"site,omitempty"`
	Text    string     `json:"text,omitempty"`
	Start   *KeyRec    `json:"start,omitempty"`
	Cookies []Cookie   `json:"cookies,omitempty"`
	Script  []SRes     `json:"script,omitempty"`
	Final   *KeyRec    `json:"final,omitempty"`
	Evs     []Ev       `json:"evs,omitempty"`
	Cache   []CacheEnt `json:"cache,omitempty"`
	Store   []KeyRec   `json:"store,omitempty"`
	Expired []bool     `json:"expired,omitempty"` // Expired() of each stored record, in Store order
	Jar     CVal       `json:"jar"`
	Now     int64      `json:"now"`
	Drawn   int        `json:"drawn"`
}

func (o Obs) Coq() string {
	res := map[string]string{"sess": "RSess", "none": "RNone", "void": "RVoid", "crashed": "RCrashed"}[o.Res]
	if o.Res == "err" {
		res = "(RErr " + o.Site + ")"
	} else if o.Res == "panic" {
		res = "(RPanic " + o.Site + ")"
	}
	cks := make([]string, len(o.Cookies))
	for i, c := range o.Cookies {
		cks[i] = c.Coq()
	}
	script := make([]string, len(o.Script))
	for i, s := range o.Script {
		script[i] = s.Coq()
	}
	evs := make([]string, len(o.Evs))
	for i, e := range o.Evs {
		evs[i] = e.Coq()
	}
	cache := make([]string, len(o.Cache))
	for i, c := range o.Cache {
		cache[i] = c.Coq()
	}
	store := make([]string, len(o.Store))
	for i, s := range o.Store {
		store[i] = s.Coq()
	}
	var b strings.Builder
	b.WriteString("(mkObs " + res + " " + coqOptKeyRec(o.Start) + " " + coqList(cks) + " " + coqList(script) + " " +
		coqOptKeyRec(o.Final) + "\n    " + coqList(evs) + "\n    " + coqList(cache) + "\n    " + coqList(store) + "\n    " + coqBools(o.Expired) + " " +
		o.Jar.Coq() + " " + coqZ(o.Now) + " " + strconv.Itoa(o.Drawn) + ")")
	return b.String()
}

// History is one case: configuration, cookie template number, steps.
type History struct {
	ID     int    `json:"id"`
	Family string `json:"family"`
	Seed   uint64 `json:"seed"`
	Cfg    Cfg    `json:"cfg"`
	Tmpl   int    `json:"tmpl"`
	Steps  []Hop  `json:"steps"`
}

// agent strings; index 0 = no User-Agent header
var agentPool = []string{"", "Mozilla/5.0 (X11; Linux x86_64)", "curl/8.0", "Mozilla/5.0 (Macintosh)", "bot"}

func agentHash(i int) uint64 {
	if i == 0 {
		return 0
	}
	return fnv64a(agentPool[i%len(agentPool)])
}

func fnv64a(s string) uint64 {
	h := uint64(14695981039346656037)
	for i := 0; i < len(s); i++ {
		h ^= uint64(s[i])
		h *= 1099511628211
	}
	return h
}
