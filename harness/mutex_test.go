package harness

// Family "mutex" (C13, C14): drives the REAL keyed lock manager of
// rivo/sessions (mutexes.go, reached through sessions.VerifNewMutexes) inside a
// testing/synctest bubble. Commands are issued to worker goroutines one at a
// time or in bursts; after each round synctest.Wait gives an exact quiescent
// point (every goroutine of the bubble durably blocked) at which the lock table,
// the holders and the waiters are recorded. Each script becomes one record with
// a `coq` field (an `mcase` of Model/Mutex.v) on which the model replays the
// same commands and must arrive at the same observations.
//
// Oracles on the real observations (independent of the model):
//   - mutual exclusion: a per-key owner word is claimed by compare-and-swap
//     right after Lock returns and released right before Unlock is called;
//   - lost wake-up / deadlock: at a quiescent point a goroutine is blocked in
//     Lock(k) although nobody holds k, or an Unlock / purge request has not
//     been taken by the manager (the bubble's own "all goroutines are blocked"
//     panic cannot fire here because the manager's ticker always has a pending
//     timer; quiescence makes the test exact all the same);
//   - at the end every holder unlocks until nobody holds: every Lock must have
//     returned.
//
// VERIF_ARGS: max=<table limit, 0 = package default> ticker=0|1 mode=seq|burst|mix|inadm
// gmax=<goroutines> kmax=<keys> rounds=<n> script=<json file to replay> tun=set|default.

import (
	"encoding/json"
	"fmt"
	"os"
	"sort"
	"strings"
	"sync"
	"sync/atomic"
	"syscall"
	"testing"
	"testing/synctest"
	"time"

	"github.com/rivo/sessions"
)

func init() {
	families["mutex"] = mutexFamily
}

// Time scale. With tun=set (default) the three tunables of the package are set
// through the hook: timeout 100 units, ticker every 10 units or never. With
// tun=default nothing is written (needed under the race detector, where a
// write to the package variables would race with the package's own ticker
// goroutine started at init): the package defaults are one hour, ten minutes,
// 1024*1024 entries, i.e. 60 and 10 units of one minute.
var (
	mxUnit       = time.Second
	mxStale      = 100 * mxUnit
	mxStaleUnits = int64(100)
	mxFreq       = 10 * mxUnit
)

const mxNever = 1000000 * time.Hour

// worker states
const (
	wIdle int32 = iota
	wLocking
	wHolding
	wUnlocking
	wSpur
)

type mxCmd struct {
	Kind string `json:"kind"` // lock unlock spur purge sleep
	G    int    `json:"g"`
	K    int    `json:"k"`
	D    int64  `json:"d,omitempty"` // sleep, in units
}

type mxRoundRec struct {
	Cmds    []mxCmd  `json:"cmds"`
	Burst   bool     `json:"burst"`
	Table   [][2]int `json:"table"`
	Holders [][2]int `json:"holders"`
	Waiters [][2]int `json:"waiters"`
	Stale   []int    `json:"stale"`
	Purges  int      `json:"purges"`
	Viol    []string `json:"viol,omitempty"`
	coq     string
}

type mxRec struct {
	ID     string         `json:"id"`
	Kind   string         `json:"kind"`
	G      int            `json:"G"`
	K      int            `json:"K"`
	Max    int            `json:"max"`
	Ticker bool           `json:"ticker"`
	Rounds []mxRoundRec   `json:"rounds"`
	Viol   []string       `json:"viol"`
	Counts map[string]int `json:"counts"`
	Coq    string         `json:"coq"`
}

type mxWorker struct {
	cmd    chan mxCmd
	status atomic.Int32
	key    atomic.Int32
}

// mxScript is one running script against one fresh manager.
type mxScript struct {
	m         *sessions.VerifMutexes
	G, K      int
	max       int
	ticker    bool
	t0        time.Time
	ws        []*mxWorker
	owner     []atomic.Int32
	violMu    sync.Mutex
	viol      []string
	ops       [][]string // per goroutine, Coq ops
	touch     []time.Time
	touched   []bool
	purgeDone atomic.Int32
	purgeSent int32
	rounds    []mxRoundRec
	counts    map[string]int
	// view after the last observation
	status []int32
	wkey   []int
}

func (s *mxScript) flag(format string, a ...interface{}) {
	s.violMu.Lock()
	s.viol = append(s.viol, fmt.Sprintf(format, a...))
	s.violMu.Unlock()
}

func (s *mxScript) worker(id int) {
	w := s.ws[id]
	for c := range w.cmd {
		switch c.Kind {
		case "lock":
			w.key.Store(int32(c.K))
			w.status.Store(wLocking)
			s.m.Lock(c.K)
			if !s.owner[c.K].CompareAndSwap(0, int32(id+1)) {
				s.flag("mutual exclusion: goroutine %d returned from Lock(%d) while goroutine %d was inside", id, c.K, s.owner[c.K].Load()-1)
			}
			w.status.Store(wHolding)
		case "unlock":
			if !s.owner[c.K].CompareAndSwap(int32(id+1), 0) {
				s.flag("mutual exclusion: owner word of key %d was %d when goroutine %d left", c.K, s.owner[c.K].Load()-1, id)
			}
			w.status.Store(wUnlocking)
			s.m.Unlock(c.K)
			w.status.Store(wIdle)
		case "spur":
			w.status.Store(wSpur)
			s.m.Unlock(c.K)
			w.status.Store(wIdle)
		case "quit":
			return
		}
	}
}

func newMxScript(G, K, max int, ticker bool) *mxScript {
	s := &mxScript{G: G, K: K, max: max, ticker: ticker, counts: map[string]int{}}
	s.m = sessions.VerifNewMutexes()
	s.t0 = time.Now()
	s.owner = make([]atomic.Int32, K)
	s.touch = make([]time.Time, K)
	s.touched = make([]bool, K)
	s.ops = make([][]string, G)
	s.status = make([]int32, G)
	s.wkey = make([]int, G)
	for i := 0; i < G; i++ {
		s.ws = append(s.ws, &mxWorker{cmd: make(chan mxCmd, 1)})
	}
	for i := 0; i < G; i++ {
		go s.worker(i)
	}
	synctest.Wait()
	return s
}

func (s *mxScript) holderOf(k int) int {
	for g := 0; g < s.G; g++ {
		if s.status[g] == wHolding && s.wkey[g] == k {
			return g
		}
	}
	return -1
}

func (s *mxScript) waitersOf(k int) int {
	n := 0
	for g := 0; g < s.G; g++ {
		if s.status[g] == wLocking && s.wkey[g] == k {
			n++
		}
	}
	return n
}

func (s *mxScript) ticksBetween(a, b time.Time) int {
	if !s.ticker {
		return 0
	}
	return int(b.Sub(s.t0)/mxFreq) - int(a.Sub(s.t0)/mxFreq)
}

// round issues the commands, waits for quiescence, observes, checks the
// oracles and records. It returns false when an oracle failed.
func (s *mxScript) round(cmds []mxCmd, burst bool) bool {
	before := time.Now()
	preHolder := make([]int, s.K)
	for k := range preHolder {
		preHolder[k] = s.holderOf(k)
	}
	purges := 0
	for _, c := range cmds {
		s.counts[c.Kind]++
		switch c.Kind {
		case "lock":
			s.ops[c.G] = append(s.ops[c.G], fmt.Sprintf("OLock %d", c.K))
			s.touch[c.K], s.touched[c.K] = time.Now(), true
			s.ws[c.G].cmd <- c
		case "unlock":
			s.touch[c.K], s.touched[c.K] = time.Now(), true
			s.ws[c.G].cmd <- c
		case "spur":
			s.ops[c.G] = append(s.ops[c.G], fmt.Sprintf("OUnlock %d", c.K))
			s.touch[c.K], s.touched[c.K] = time.Now(), true
			s.ws[c.G].cmd <- c
		case "purge":
			purges++
			s.purgeSent++
			go func() {
				s.m.Purge()
				s.purgeDone.Add(1)
			}()
		case "sleep":
			time.Sleep(time.Duration(c.D) * mxUnit)
		}
		if !burst {
			synctest.Wait()
		}
	}
	synctest.Wait()
	now := time.Now()
	purges += s.ticksBetween(before, now)

	// observe
	rec := mxRoundRec{Cmds: cmds, Burst: burst, Purges: purges, Table: [][2]int{}, Holders: [][2]int{}, Waiters: [][2]int{}, Stale: []int{}}
	var bad []string
	for k, n := range s.m.Table() {
		if n < 0 {
			// a counter below zero: an Unlock of a key that is not held had an effect
			bad = append(bad, fmt.Sprintf("lost wake-up: the lock counter of key %d is %d at quiescence (an Unlock of an unheld key was counted; the next Lock on it will not be granted)", k.(int), n))
			n = 0
		}
		rec.Table = append(rec.Table, [2]int{k.(int), n})
	}
	sort.Slice(rec.Table, func(i, j int) bool { return rec.Table[i][0] < rec.Table[j][0] })
	for g, w := range s.ws {
		st := w.status.Load()
		s.status[g], s.wkey[g] = st, int(w.key.Load())
		switch st {
		case wLocking:
			rec.Waiters = append(rec.Waiters, [2]int{g, s.wkey[g]})
		case wHolding:
			rec.Holders = append(rec.Holders, [2]int{g, s.wkey[g]})
		case wUnlocking, wSpur:
			bad = append(bad, fmt.Sprintf("deadlock: Unlock(%d) of goroutine %d was not taken by the manager at quiescence", s.wkey[g], g))
		}
	}
	if s.purgeDone.Load() != s.purgeSent {
		bad = append(bad, "deadlock: a purge request was not taken by the manager at quiescence")
	}
	for k := 0; k < s.K; k++ {
		nh := 0
		for _, h := range rec.Holders {
			if h[1] == k {
				nh++
			}
		}
		if nh > 1 {
			bad = append(bad, fmt.Sprintf("mutual exclusion: %d goroutines hold key %d at quiescence", nh, k))
		}
		if nh == 0 && s.waitersOf(k) > 0 {
			bad = append(bad, fmt.Sprintf("lost wake-up: %d goroutine(s) blocked in Lock(%d) at quiescence while nobody holds it", s.waitersOf(k), k))
		}
		if s.touched[k] && now.Sub(s.touch[k]) > mxStale {
			rec.Stale = append(rec.Stale, k)
		}
	}
	s.violMu.Lock()
	bad = append(s.viol, bad...)
	s.viol = nil
	s.violMu.Unlock()
	rec.Viol = bad

	// Coq form: commands in an order consistent with the outcome (see
	// Model/Mutex.v): spurious Unlocks first; per key with a holder before the
	// round, the Locks and then the holder's Unlock; per key that was free,
	// the Lock of the goroutine observed to hold it first.
	var coq []string
	for _, c := range cmds {
		if c.Kind == "spur" {
			coq = append(coq, fmt.Sprintf("CStart %d", c.G))
		}
	}
	for k := 0; k < s.K; k++ {
		newHolder := -1
		for _, h := range rec.Holders {
			if h[1] == k {
				newHolder = h[0]
			}
		}
		var first, rest, leave []string
		for _, c := range cmds {
			if c.K != k {
				continue
			}
			switch c.Kind {
			case "lock":
				if preHolder[k] < 0 && c.G == newHolder {
					first = append(first, fmt.Sprintf("CStart %d", c.G))
				} else {
					rest = append(rest, fmt.Sprintf("CStart %d", c.G))
				}
			case "unlock":
				leave = append(leave, fmt.Sprintf("CLeave %d", c.G))
			}
		}
		coq = append(coq, first...)
		coq = append(coq, rest...)
		coq = append(coq, leave...)
	}
	pairs := func(l [][2]int) string {
		items := make([]string, len(l))
		for i, p := range l {
			items[i] = fmt.Sprintf("(%d, %d)", p[0], p[1])
		}
		return coqList(items)
	}
	stale := make([]string, len(rec.Stale))
	for i, k := range rec.Stale {
		stale[i] = fmt.Sprint(k)
	}
	ncmd := 0
	for _, c := range cmds {
		if c.Kind == "lock" || c.Kind == "unlock" || c.Kind == "spur" {
			ncmd++
		}
	}
	rec.coq = fmt.Sprintf("mkRound %s %d %s %s %s %s %s", coqList(coq), purges, coqBool(!burst || ncmd <= 1),
		coqList(stale), pairs(rec.Table), pairs(rec.Holders), pairs(rec.Waiters))
	s.rounds = append(s.rounds, rec)
	return len(bad) == 0
}

// drain lets every holder unlock, round after round, until nobody holds.
func (s *mxScript) drain() bool {
	for i := 0; i < 4*s.G+4; i++ {
		var cmds []mxCmd
		for g := 0; g < s.G; g++ {
			if s.status[g] == wHolding {
				cmds = append(cmds, mxCmd{Kind: "unlock", G: g, K: s.wkey[g]})
			}
		}
		if len(cmds) == 0 {
			for g := 0; g < s.G; g++ {
				if s.status[g] != wIdle {
					s.flag("deadlock: goroutine %d is still in Lock(%d) although every holder has unlocked", g, s.wkey[g])
					return false
				}
			}
			return true
		}
		if !s.round(cmds, len(cmds) > 1) {
			return false
		}
	}
	s.flag("drain did not terminate")
	return false
}

func (s *mxScript) finish(r *run, id, kind string) {
	for g, w := range s.ws {
		if s.status[g] == wIdle {
			w.cmd <- mxCmd{Kind: "quit"}
		}
	}
	synctest.Wait()
	rec := mxRec{ID: id, Kind: kind, G: s.G, K: s.K, Max: s.max, Ticker: s.ticker, Rounds: s.rounds, Counts: s.counts}
	s.violMu.Lock()
	late := s.viol
	s.violMu.Unlock()
	for i, rd := range s.rounds {
		for _, v := range rd.Viol {
			rec.Viol = append(rec.Viol, fmt.Sprintf("round %d: %s", i, v))
		}
	}
	for _, v := range late {
		rec.Viol = append(rec.Viol, "end: "+v)
	}
	if rec.Viol == nil {
		rec.Viol = []string{}
	}
	scripts := make([]string, s.G)
	for g := range scripts {
		scripts[g] = coqList(s.ops[g])
	}
	rounds := make([]string, len(s.rounds))
	for i, rd := range s.rounds {
		rounds[i] = rd.coq
	}
	rec.Coq = fmt.Sprintf("mkCase %d%%N %s\n  [%s]", s.max, coqList(scripts), strings.Join(rounds, ";\n   "))
	r.emit(rec)
}

// admissibleSleep: holds stay strictly shorter than the staleness timeout (the
// property's proviso); entries nobody holds may reach the timeout exactly.
func (s *mxScript) admissibleSleep(d int64) bool {
	end := time.Now().Add(time.Duration(d) * mxUnit)
	for k := 0; k < s.K; k++ {
		if (s.holderOf(k) >= 0 || s.waitersOf(k) > 0) && end.Sub(s.touch[k]) >= mxStale {
			return false
		}
	}
	return true
}

// generate runs one generated script.
func (s *mxScript) generate(r *run, mode string, nrounds int) {
	for i := 0; i < nrounds; i++ {
		burst := mode == "burst" || (mode == "mix" && r.rng.IntN(3) == 0)
		p := r.rng.IntN(100)
		switch {
		case p < 8:
			if !s.round([]mxCmd{{Kind: "purge"}}, false) {
				return
			}
			continue
		case p < 22:
			ds := []int64{10, 40, mxStaleUnits / 2, mxStaleUnits, mxStaleUnits + 10}
			d := ds[r.rng.IntN(len(ds))]
			for d > 10 && !s.admissibleSleep(d) {
				d -= 10
			}
			if s.admissibleSleep(d) {
				cmds := []mxCmd{{Kind: "sleep", D: d}}
				if !s.ticker && r.rng.IntN(2) == 0 {
					cmds = append(cmds, mxCmd{Kind: "purge"})
				}
				if !s.round(cmds, false) {
					return
				}
				continue
			}
		}
		n := 1
		if burst {
			n = 2 + r.rng.IntN(s.G)
		}
		var cmds []mxCmd
		used := map[int]bool{}
		lockKeys, spurKeys := map[int]bool{}, map[int]bool{}
		hot := r.rng.IntN(s.K)
		for j := 0; j < n; j++ {
			g := r.rng.IntN(s.G)
			if used[g] {
				continue
			}
			switch s.status[g] {
			case wHolding:
				if r.rng.IntN(100) < 70 {
					used[g] = true
					lockKeys[s.wkey[g]] = true
					cmds = append(cmds, mxCmd{Kind: "unlock", G: g, K: s.wkey[g]})
				}
			case wIdle:
				k := r.rng.IntN(s.K)
				if r.rng.IntN(2) == 0 {
					k = hot
				}
				if r.rng.IntN(100) < 12 {
					// an Unlock of a key nobody holds or waits for, and that no
					// other command of this round touches
					if s.holderOf(k) < 0 && s.waitersOf(k) == 0 && !lockKeys[k] && !spurKeys[k] {
						used[g] = true
						spurKeys[k] = true
						cmds = append(cmds, mxCmd{Kind: "spur", G: g, K: k})
					}
				} else if !spurKeys[k] {
					used[g] = true
					lockKeys[k] = true
					cmds = append(cmds, mxCmd{Kind: "lock", G: g, K: k})
				}
			}
		}
		if len(cmds) == 0 {
			continue
		}
		if !s.round(cmds, burst && len(cmds) > 1) {
			return
		}
	}
	s.drain()
}

// replayScript re-executes recorded rounds.
func (s *mxScript) replayScript(rounds []mxRoundRec) {
	for _, rd := range rounds {
		if !s.round(rd.Cmds, rd.Burst) {
			return
		}
	}
}

func mutexFamily(t *testing.T, r *run) {
	max := r.argInt("max", 0)
	ticker := r.argInt("ticker", 0) == 1
	mode := r.arg("mode", "mix")
	gmax, kmax := r.argInt("gmax", 12), r.argInt("kmax", 4)
	nrounds := r.argInt("rounds", 30)
	script := r.arg("script", "")
	freq := mxNever
	if ticker {
		freq = mxFreq
	}
	effMax := max
	if max == 0 {
		effMax = 1024 * 1024
	}
	if r.arg("tun", "set") == "default" {
		mxUnit, mxStaleUnits = time.Minute, 60
		mxStale, mxFreq = 60*mxUnit, 10*mxUnit
		ticker, effMax = true, 1024*1024
	}
	synctest.Test(t, func(t *testing.T) {
		if r.arg("tun", "set") != "default" {
			sessions.VerifSetMutexTunables(effMax, freq, mxStale)
		}
		switch {
		case script != "":
			raw, err := os.ReadFile(script)
			if err != nil {
				panic(err)
			}
			var in mxRec
			if err := json.Unmarshal(raw, &in); err != nil {
				panic(err)
			}
			s := newMxScript(in.G, in.K, effMax, ticker)
			s.replayScript(in.Rounds)
			s.finish(r, "replay", in.Kind)
		case mode == "inadm":
			// Outside the property's proviso: a key held for longer than the
			// staleness timeout. Documents C13_needs_hold_bound_refuted on the
			// real code; never counted as a violation.
			s := newMxScript(3, 1, effMax, false)
			s.round([]mxCmd{{Kind: "lock", G: 0, K: 0}}, false)
			s.round([]mxCmd{{Kind: "lock", G: 1, K: 0}}, false)
			s.round([]mxCmd{{Kind: "sleep", D: mxStaleUnits + 10}, {Kind: "purge"}}, false)
			s.round([]mxCmd{{Kind: "lock", G: 2, K: 0}}, false)
			s.finish(r, "inadm", "inadmissible-demo")
		default:
			for i := 0; i < r.n; i++ {
				G := 1 + r.rng.IntN(gmax)
				K := 1 + r.rng.IntN(kmax)
				m := mode
				if mode == "mix" && i%4 == 0 {
					m = "seq"
				}
				s := newMxScript(G, K, effMax, ticker)
				s.generate(r, m, 5+r.rng.IntN(nrounds))
				s.finish(r, fmt.Sprintf("max%d-t%v-%s-%d-%d", max, ticker, mode, r.seed, i), m)
			}
		}
		r.close()
		syscall.Exit(0)
	})
}
