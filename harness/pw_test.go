package harness

// Families for C20 (ReasonablePassword).

import (
	"crypto/sha256"
	"encoding/hex"
	"fmt"
	"strings"
	"testing"
	"unicode/utf8"

	"github.com/rivo/sessions"
)

func init() {
	families["pwlists"] = pwLists
	families["pw"] = pwFamily
}

// pwLists reports length and digest of the two lists the package holds in
// memory, for comparison with an independent decoding of the source constants.
func pwLists(t *testing.T, r *run) {
	common, dict := sessions.VerifWordLists()
	for _, l := range []struct {
		name string
		list []string
	}{{"common", common}, {"dict", dict}} {
		h := sha256.Sum256([]byte(strings.Join(l.list, "\n")))
		r.emit(map[string]interface{}{"list": l.name, "len": len(l.list), "sha256": hex.EncodeToString(h[:])})
	}
}

type pwRec struct {
	Kind   string   `json:"kind"`
	Pw     string   `json:"pw"` // hex
	Names  []string `json:"names"`
	Common []string `json:"common"` // window, hex
	Dict   []string `json:"dict"`   // window, hex
	Result int      `json:"result"`
	Coq    string   `json:"coq"`
}

// Runes on which Go's unicode.ToLower and the model's rune_lower agree:
// U+0000..U+00FF, and planes without case.
func pwRune(r *run) rune {
	switch r.rng.IntN(10) {
	case 0, 1, 2, 3:
		return rune('a' + r.rng.IntN(26))
	case 4:
		return rune('A' + r.rng.IntN(26))
	case 5:
		return rune('0' + r.rng.IntN(10))
	case 6:
		return rune(0x20 + r.rng.IntN(0x5f))
	case 7:
		return rune(0xa0 + r.rng.IntN(0x60)) // Latin-1 letters and signs
	case 8:
		return rune(0x4e00 + r.rng.IntN(0x1000)) // CJK
	default:
		return rune(0x1f600 + r.rng.IntN(0x40)) // emoji, 4 bytes
	}
}

func pwFamily(t *testing.T, r *run) {
	common, dict := sessions.VerifWordLists()
	mode := r.arg("mode", "sample")
	lo, hi := r.argInt("lo", 0), r.argInt("hi", 0)

	window := func(list []string, i int) []string {
		// entries around position i, plus two random ones
		var w []string
		for j := i - 2; j <= i+2; j++ {
			if j >= 0 && j < len(list) {
				w = append(w, list[j])
			}
		}
		w = append(w, list[r.rng.IntN(len(list))], list[r.rng.IntN(len(list))])
		return w
	}
	index := func(list []string) map[string]int {
		m := make(map[string]int, len(list))
		for i := len(list) - 1; i >= 0; i-- {
			m[list[i]] = i
		}
		return m
	}
	commonIdx, dictIdx := index(common), index(dict)
	find := func(list []string, pw string) int {
		idx := commonIdx
		if len(list) == len(dict) {
			idx = dictIdx
		}
		if i, ok := idx[pw]; ok {
			return i
		}
		return -1
	}
	// Windows for an arbitrary password: around its position if it is listed,
	// otherwise around a random position.
	windows := func(pw string) (cw, dw []string) {
		ci, di := find(common, pw), find(dict, pw)
		if ci < 0 {
			ci = r.rng.IntN(len(common))
		}
		if di < 0 {
			di = r.rng.IntN(len(dict))
		}
		return window(common, ci), window(dict, di)
	}
	do := func(kind, pw string, names []string, cw, dw []string) {
		res := sessions.ReasonablePassword(pw, names)
		hexs := func(l []string) []string {
			o := make([]string, len(l))
			for i, s := range l {
				o[i] = hex.EncodeToString([]byte(s))
			}
			return o
		}
		bl := func(l []string) string {
			o := make([][]byte, len(l))
			for i, s := range l {
				o[i] = []byte(s)
			}
			return coqBytesList(o)
		}
		lowers := make([]string, len(names))
		for i, n := range names {
			lowers[i] = strings.ToLower(n)
		}
		coq := fmt.Sprintf("{| pc_pw := %s; pc_names := %s; pc_common := %s; pc_dict := %s; pc_lower := %s; pc_names_lower := %s; pc_result := %d |}",
			coqBytes([]byte(pw)), bl(names), bl(cw), bl(dw), coqBytes([]byte(strings.ToLower(pw))), bl(lowers), res)
		r.emit(pwRec{Kind: kind, Pw: hex.EncodeToString([]byte(pw)), Names: hexs(names), Common: hexs(cw), Dict: hexs(dw), Result: res, Coq: coq})
	}
	flip := func(s string) string {
		// random case flips on letters (ASCII and Latin-1)
		var b strings.Builder
		for _, c := range s {
			if r.rng.IntN(2) == 0 {
				switch {
				case c >= 'a' && c <= 'z':
					c -= 32
				case c >= 0xe0 && c <= 0xfe && c != 0xf7:
					c -= 32
				}
			}
			b.WriteRune(c)
		}
		return b.String()
	}
	randNames := func(pw string) []string {
		var names []string
		k := r.rng.IntN(4)
		for i := 0; i < k; i++ {
			switch r.rng.IntN(4) {
			case 0:
				names = append(names, flip(pw))
			case 1:
				names = append(names, pw+"x")
			case 2:
				names = append(names, common[r.rng.IntN(len(common))])
			default:
				var b strings.Builder
				for j := r.rng.IntN(12); j >= 0; j-- {
					b.WriteRune(pwRune(r))
				}
				names = append(names, b.String())
			}
		}
		return names
	}

	if mode == "entries" {
		// Exhaustive over a slice of one list: every entry, as it is.
		list := common
		if r.arg("list", "common") == "dict" {
			list = dict
		}
		if hi > len(list) {
			hi = len(list)
		}
		for i := lo; i < hi; i++ {
			pw := list[i]
			cw, dw := windows(pw)
			do("entry-"+r.arg("list", "common"), pw, nil, cw, dw)
		}
		return
	}

	// the first and last entries of both lists, always
	for _, list := range [][]string{common, dict} {
		for j := 0; j < 12 && j < len(list); j++ {
			for _, pw := range []string{list[j], list[len(list)-1-j]} {
				cw, dw := windows(pw)
				do("entry-boundary", pw, nil, cw, dw)
			}
		}
	}

	seqs := []string{"qwertyuiop", "qwertzuiopü", "azertyuiop", "asdfghjklöä", "qsdfghjklm", "01234567890", "abcdefghijklmnopqrstuvwxyz", "yxcvbnm", "zxcvbnmasd"}
	for i := 0; i < r.n; i++ {
		var kind, pw string
		var names []string
		switch i % 10 {
		case 0: // list entry as is
			kind = "entry"
			if r.rng.IntN(2) == 0 {
				pw = common[r.rng.IntN(len(common))]
			} else {
				pw = dict[r.rng.IntN(len(dict))]
			}
		case 1: // variation of a list entry
			kind = "entry-variant"
			if r.rng.IntN(2) == 0 {
				pw = common[r.rng.IntN(len(common))]
			} else {
				pw = dict[r.rng.IntN(len(dict))]
			}
			switch r.rng.IntN(4) {
			case 0:
				pw = flip(pw)
			case 1:
				pw += string(rune('0' + r.rng.IntN(10)))
			case 2:
				if len(pw) > 0 {
					pw = pw[:len(pw)-1]
				}
			default:
				pw = strings.ToUpper(pw)
			}
		case 2: // around the length bound, multi-byte runes included
			kind = "length"
			var b strings.Builder
			for n := r.rng.IntN(11); n > 0; n-- {
				b.WriteRune(pwRune(r))
			}
			pw = b.String()
		case 3: // substrings of the sequences, mixed case
			kind = "sequence"
			s := []rune(seqs[r.rng.IntN(len(seqs))])
			a := r.rng.IntN(len(s))
			e := a + 7 + r.rng.IntN(6)
			if e > len(s) {
				e = len(s)
			}
			pw = string(s[a:e])
			if r.rng.IntN(2) == 0 {
				pw = flip(pw)
			}
			if r.rng.IntN(8) == 0 {
				pw += "x"
			}
		case 4: // one repeated rune of every width, NUL, near misses
			kind = "repeated"
			c := pwRune(r)
			if r.rng.IntN(6) == 0 {
				c = 0
			}
			w := utf8.RuneLen(c)
			n := (6+r.rng.IntN(5))/w + 1
			pw = strings.Repeat(string(c), n)
			if r.rng.IntN(4) == 0 {
				pw += string(pwRune(r))
			}
		case 5: // invalid UTF-8
			kind = "invalid-utf8"
			bad := []string{"\xff", "\x80", "\xc0\xaf", "\xed\xa0\x80", "\xf4\x90\x80\x80", "\xe2\x82", "\xc3", "\xef\xbf\xbd"}
			var b strings.Builder
			first := bad[r.rng.IntN(len(bad))]
			for n := 3 + r.rng.IntN(8); n > 0; n-- {
				if r.rng.IntN(3) == 0 {
					b.WriteString(bad[r.rng.IntN(len(bad))])
				} else {
					b.WriteString(first)
				}
			}
			pw = b.String()
		case 6: // names: case variants, supersets
			kind = "names"
			var b strings.Builder
			for n := 6 + r.rng.IntN(8); n > 0; n-- {
				b.WriteRune(pwRune(r))
			}
			pw = b.String()
			if r.rng.IntN(3) == 0 {
				pw = common[r.rng.IntN(len(common))]
			}
			names = randNames(pw)
			if len(names) == 0 {
				names = []string{flip(pw)}
			}
		case 7: // random printable ASCII
			kind = "random-ascii"
			var b strings.Builder
			for n := 8 + r.rng.IntN(57); n > 0; n-- {
				b.WriteByte(byte(0x20 + r.rng.IntN(0x5f)))
			}
			pw = b.String()
		case 8: // random runes
			kind = "random-runes"
			var b strings.Builder
			for n := 2 + r.rng.IntN(20); n > 0; n-- {
				b.WriteRune(pwRune(r))
			}
			pw = b.String()
		default: // two rules at once: listed and named / repetitive or sequential and listed
			kind = "overlap"
			both := []string{"qwertyuiop", "11111111", "aaaaaaaa", "abcdefgh", "12345678", "password", "asdfghjkl", "qwertyui", "00000000", "zzzzzzzz", "abcdefghijklmnop"}
			pw = both[r.rng.IntN(len(both))]
			if r.rng.IntN(2) == 0 {
				names = []string{strings.ToUpper(pw)}
			}
		}
		if names == nil && r.rng.IntN(5) == 0 {
			names = randNames(pw)
		}
		cw, dw := windows(pw)
		do(kind, pw, names, cw, dw)
		// Monotonicity in the names: the same password with a superset.
		if len(names) > 0 && r.rng.IntN(3) == 0 {
			do(kind+"-superset", pw, append(append([]string{}, names...), randNames(pw)...), cw, dw)
		}
	}
}
