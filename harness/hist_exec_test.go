package harness

// Execution of a history against the real package inside a synctest bubble
// (virtual clock), behind a serialising store with fault injection and a crash
// switch. One child process per segment of a history (a restart is a new
// process); see DESIGN.md §2.5.

import (
	"bytes"
	"crypto/rand"
	"crypto/sha256"
	"encoding/base64"
	"encoding/binary"
	"encoding/gob"
	"encoding/json"
	"errors"
	"fmt"
	"net/http"
	"net/http/httptest"
	"os"
	"runtime"
	"sort"
	"strings"
	"sync"
	"syscall"
	"testing"
	"testing/synctest"
	"time"

	"github.com/rivo/sessions"
)

// State is what survives a restart, plus the harness's own tables.
type State struct {
	Store   []StoreEnt `json:"store"`
	Graves  []Grave    `json:"graves"`
	IDs     []string   `json:"ids"`    // generated IDs by ordinal
	Junk    []string   `json:"junk"`   // 24-character values never generated
	Others  []string   `json:"others"` // other presented values
	Jars    map[int]CVal `json:"jars"`
	ClockNs int64      `json:"clock_ns"`
	Cfg     Cfg        `json:"cfg"`
}

type StoreEnt struct {
	ID    string `json:"id"`
	Bytes []byte `json:"bytes"`
}

type Grave struct {
	ID   string `json:"id"`
	User *int   `json:"user"`
}

type childIn struct {
	History History `json:"history"`
	From    int     `json:"from"`
	State   *State  `json:"state"`
}

type childOut struct {
	Steps []Hop  `json:"steps"` // executed steps with Present/TB filled in
	Obs   []Obs  `json:"obs"`
	State State  `json:"state"`
	Next  int    `json:"next"`
	Halt  string `json:"halt,omitempty"` // why the history cannot continue (panic)
}

type hUser struct{ ID, Ver int }

func (u hUser) GetID() interface{} { return u.ID }

var errInjected = errors.New("injected fault")

type crashSentinel struct{}

var epoch = time.Date(2000, 1, 1, 0, 0, 0, 0, time.UTC)

// executor is the executor of one segment.
type executor struct {
	mu      sync.Mutex
	st      State
	cfg     Cfg
	data    map[string][]byte
	tmpl    int
	plan    []bool
	ops     int // persistence calls in this step
	crashAt int // 0 = never
	crashed bool
	frozen  *frozen
	quiet   bool
	gran    bool     // probe persistence calls made inside cache operations for a free cache mutex
	granBusy bool
	granLog []string
	events  []Ev
	draws   uint64
	drawPos int
	seed    uint64
}

// ---- canonical names ----

func (x *executor) keyOf(id string) Key {
	for i, s := range x.st.IDs {
		if s == id {
			return Key{Gen: true, N: i}
		}
	}
	for i, s := range x.st.Junk {
		if s == id {
			return Key{N: i}
		}
	}
	x.st.Junk = append(x.st.Junk, id)
	return Key{N: len(x.st.Junk) - 1}
}

func (x *executor) idOf(k Key) string {
	if k.Gen {
		if k.N < len(x.st.IDs) {
			return x.st.IDs[k.N]
		}
		return fmt.Sprintf("future-id-%014d", k.N)[:24]
	}
	for len(x.st.Junk) <= k.N {
		x.st.Junk = append(x.st.Junk, fmt.Sprintf("junk%020d", len(x.st.Junk)))
	}
	return x.st.Junk[k.N]
}

func (x *executor) classify(value string, present bool) CVal {
	if !present {
		return CVal{Kind: "none"}
	}
	if len(value) == 24 {
		return CVal{Kind: "key", Key: x.keyOf(value)}
	}
	for i, s := range x.st.Others {
		if s == value {
			return CVal{Kind: "other", N: i}
		}
	}
	x.st.Others = append(x.st.Others, value)
	return CVal{Kind: "other", N: len(x.st.Others) - 1}
}

func (x *executor) raw(c CVal) (string, bool) {
	switch c.Kind {
	case "key":
		return x.idOf(c.Key), true
	case "other":
		return x.st.Others[c.N], true
	}
	return "", false
}

func parseAddr(s string) Addr {
	var a Addr
	var n int
	if _, err := fmt.Sscanf(s, "%d.%d.%d.%d:%d", &a.A, &a.B, &a.C, &a.D, &a.P); err == nil {
		a.V4 = true
		return a
	}
	if s == "" {
		return Addr{}
	}
	if _, err := fmt.Sscanf(s, "[2001:db8::%x]", &n); err == nil {
		return Addr{N: n}
	}
	return Addr{N: 999}
}

func ns(t time.Time) int64 { return t.Sub(epoch).Nanoseconds() }

func (x *executor) recOf(v sessions.VerifSessionView) Rec {
	r := Rec{Created: ns(v.Created), Access: ns(v.LastAccess), IP: parseAddr(v.LastIP), UA: v.UAHash, DataNil: v.DataNil}
	if v.ReferenceID != "" {
		k := x.keyOf(v.ReferenceID)
		r.Ref = &k
	}
	if v.User != nil {
		if u, ok := v.User.(hUser); ok {
			r.User = &[2]int{u.ID, u.Ver}
		} else {
			r.User = &[2]int{-1, -1}
		}
	}
	for k, val := range v.Data {
		var kn, vn int
		fmt.Sscanf(k, "k%d", &kn)
		if s, ok := val.(string); ok {
			fmt.Sscanf(s, "v%d", &vn)
		} else {
			vn = -1
		}
		r.Data = append(r.Data, [2]int{kn, vn})
	}
	sort.Slice(r.Data, func(i, j int) bool { return r.Data[i][0] < r.Data[j][0] })
	return r
}

// ---- the random source ----

type recorder struct{ x *executor }

func (r recorder) Read(b []byte) (int, error) {
	// The entropy source delivers the 16 bytes of the i-th ID in chunks whose
	// size depends on the history's seed (16, 5 or 1 bytes per call): a reader
	// may legitimately return fewer bytes than asked for.
	x := r.x
	chunk := []int{16, 16, 5, 1}[x.seed%4]
	if len(b) == 0 {
		return 0, nil
	}
	var seed [16]byte
	binary.LittleEndian.PutUint64(seed[:8], x.seed)
	binary.LittleEndian.PutUint64(seed[8:], x.draws)
	h := sha256.Sum256(seed[:])
	n := len(b)
	if n > chunk {
		n = chunk
	}
	if n > 16-x.drawPos {
		n = 16 - x.drawPos
	}
	copy(b[:n], h[x.drawPos:x.drawPos+n])
	x.drawPos += n
	if x.drawPos == 16 {
		id := base64.StdEncoding.EncodeToString(h[:16])
		x.st.IDs = append(x.st.IDs, id)
		x.events = append(x.events, Ev{Op: "draw", Key: Key{Gen: true, N: len(x.st.IDs) - 1}, OK: true})
		x.draws++
		x.drawPos = 0
	}
	return n, nil
}

// ---- the persistence layer ----

func (x *executor) persOp() (fail bool) {
	if x.quiet {
		return false
	}
	x.ops++
	if len(x.plan) > 0 {
		fail = x.plan[0]
		x.plan = x.plan[1:]
	}
	return fail
}

// afterOp freezes the store if this was the last persistence call before the
// crash point: the process "stops" here. What the rest of the step does is the
// work of a process that no longer exists: the step's executor discards it
// (store restored from the frozen copy, later events dropped, memory lost).
func (x *executor) afterOp() {
	if !x.quiet && !x.crashed && x.crashAt > 0 && x.ops == x.crashAt {
		x.freeze()
	}
}

type frozen struct {
	data   map[string][]byte
	store  []StoreEnt
	graves []Grave
	events int
	ids    int
}

func (x *executor) freeze() {
	x.crashed = true
	f := &frozen{data: map[string][]byte{}, events: len(x.events), ids: len(x.st.IDs)}
	for k, v := range x.data {
		f.data[k] = v
	}
	f.store = append(f.store, x.st.Store...)
	for _, g := range x.st.Graves {
		g2 := g
		if g.User != nil {
			u := *g.User
			g2.User = &u
		}
		f.graves = append(f.graves, g2)
	}
	x.frozen = f
}

func (x *executor) thaw() {
	f := x.frozen
	x.data = f.data
	x.st.Store = f.store
	x.st.Graves = f.graves
	x.events = x.events[:f.events]
	x.st.IDs = x.st.IDs[:f.ids]
	x.draws = uint64(f.ids)
	x.drawPos = 0
	x.frozen = nil
}

func (x *executor) decode(b []byte) (*sessions.Session, error) {
	var s sessions.Session
	if x.cfg.JSON {
		if err := json.Unmarshal(b, &s); err != nil {
			return nil, err
		}
		return &s, nil
	}
	if err := gob.NewDecoder(bytes.NewReader(b)).Decode(&s); err != nil {
		return nil, err
	}
	return &s, nil
}

func (x *executor) encode(s *sessions.Session) ([]byte, error) {
	if x.cfg.JSON {
		return json.Marshal(s)
	}
	var buf bytes.Buffer
	if err := gob.NewEncoder(&buf).Encode(s); err != nil {
		return nil, err
	}
	return buf.Bytes(), nil
}

func (x *executor) quietly(f func()) {
	old := x.quiet
	x.quiet = true
	defer func() { x.quiet = old }()
	f()
}

func (x *executor) storedRec(id string) (Rec, error) {
	var r Rec
	var err error
	x.quietly(func() {
		var s *sessions.Session
		s, err = x.decode(x.data[id])
		if err == nil {
			r = x.recOf(sessions.VerifView(s))
		}
	})
	return r, err
}

// cacheOpOnStack names the cache operation the current persistence call is
// made from ("" if none).
func cacheOpOnStack() string {
	pcs := make([]uintptr, 32)
	n := runtime.Callers(3, pcs)
	frames := runtime.CallersFrames(pcs[:n])
	for {
		f, more := frames.Next()
		for _, fn := range []string{"(*cache).compact", "(*cache).Get", "(*cache).Set", "(*cache).Delete", "sessions.PurgeSessions"} {
			if strings.HasSuffix(f.Function, fn) {
				return fn
			}
		}
		if !more {
			return ""
		}
	}
}

// granProbe: the model executes cache operations atomically, which is adequate
// only while every persistence call inside them is made under the cache mutex.
// When such a call finds the mutex free, what a concurrent request could do at
// this very point is done inline: a Destroy of the session being loaded, or a
// look-up of the session being saved or deleted.
func (x *executor) granProbe(op, id string) {
	if !x.gran || x.quiet || x.granBusy {
		return
	}
	fn := cacheOpOnStack()
	if fn == "" || !sessions.VerifCacheLockFree() {
		return
	}
	x.granLog = append(x.granLog, fmt.Sprintf("Persistence.%s(%v) is called from %s while the cache mutex is free", op, x.keyOf(id), fn))
	x.granBusy = true
	defer func() { x.granBusy = false }()
	if op == "LoadSession" {
		sessions.VerifCacheDelete(id)
	} else {
		sessions.VerifCacheGet(id)
	}
}

func (x *executor) LoadSession(id string) (*sessions.Session, error) {
	b, ok, err := x.loadBytes(id)
	// (the store has been read; the cache insertion has not happened yet)
	x.granProbe("LoadSession", id)
	if err != nil || !ok {
		return nil, err
	}
	return x.decode(b) // calls LoadUser
}

func (x *executor) loadBytes(id string) ([]byte, bool, error) {
	x.mu.Lock()
	defer x.mu.Unlock()
	if x.quiet {
		panic("LoadSession in quiet mode")
	}
	fail := x.persOp()
	x.events = append(x.events, Ev{Op: "load", Key: x.keyOf(id), OK: !fail})
	x.afterOp()
	if fail {
		return nil, false, errInjected
	}
	b, ok := x.data[id]
	return b, ok, nil
}

func (x *executor) LoadUser(id interface{}) (sessions.User, error) {
	var n int
	switch v := id.(type) {
	case int:
		n = v
	case float64:
		n = int(v)
	default:
		return nil, fmt.Errorf("user id of type %T", id)
	}
	if x.quiet {
		return hUser{ID: n}, nil
	}
	x.mu.Lock()
	defer x.mu.Unlock()
	fail := x.persOp()
	x.events = append(x.events, Ev{Op: "loaduser", U: n, OK: !fail})
	x.afterOp()
	if fail {
		return nil, errInjected
	}
	return hUser{ID: n}, nil
}

func saveOrigin() string {
	pcs := make([]uintptr, 24)
	n := runtime.Callers(3, pcs)
	frames := runtime.CallersFrames(pcs[:n])
	for {
		f, more := frames.Next()
		if strings.HasSuffix(f.Function, "(*cache).compact") {
			return "compact"
		}
		if strings.HasSuffix(f.Function, "(*cache).Set") {
			return "cacheset"
		}
		if strings.HasSuffix(f.Function, "sessions.PurgeSessions") {
			return "purge"
		}
		if !more {
			break
		}
	}
	return "other"
}

func (x *executor) SaveSession(id string, s *sessions.Session) error {
	x.granProbe("SaveSession", id)
	x.mu.Lock()
	defer x.mu.Unlock()
	fail := x.persOp()
	origin := saveOrigin()
	var b []byte
	var err error
	x.quietly(func() { b, err = x.encode(s) })
	if err != nil {
		// an encoding failure is a failed save
		x.events = append(x.events, Ev{Op: "save", Key: x.keyOf(id), Rec: &Rec{}, OK: false, Origin: origin})
		x.afterOp()
		return err
	}
	old, had := x.data[id]
	x.data[id] = b
	rec, derr := x.storedRec(id)
	if derr != nil {
		// what was stored cannot be read back: report it as a record that no
		// model record equals
		rec = Rec{Created: -1, Access: -1, UA: 0xdeadbeef}
	}
	if fail {
		if had {
			x.data[id] = old
		} else {
			delete(x.data, id)
		}
	} else if !had {
		x.st.Store = append(x.st.Store, StoreEnt{ID: id})
	}
	x.events = append(x.events, Ev{Op: "save", Key: x.keyOf(id), Rec: &rec, OK: !fail, Origin: origin})
	x.afterOp()
	if fail {
		return errInjected
	}
	return nil
}

func (x *executor) DeleteSession(id string) error {
	x.granProbe("DeleteSession", id)
	x.mu.Lock()
	defer x.mu.Unlock()
	fail := x.persOp()
	x.events = append(x.events, Ev{Op: "delete", Key: x.keyOf(id), OK: !fail})
	if !fail {
		if _, ok := x.data[id]; ok {
			rec, err := x.storedRec(id)
			var user *int
			if err == nil && rec.User != nil {
				u := rec.User[0]
				user = &u
			}
			found := false
			for i := range x.st.Graves {
				if x.st.Graves[i].ID == id {
					x.st.Graves[i].User = user
					found = true
				}
			}
			if !found {
				x.st.Graves = append(x.st.Graves, Grave{ID: id, User: user})
			}
			delete(x.data, id)
			for i := range x.st.Store {
				if x.st.Store[i].ID == id {
					x.st.Store = append(x.st.Store[:i], x.st.Store[i+1:]...)
					break
				}
			}
		}
	}
	x.afterOp()
	if fail {
		return errInjected
	}
	return nil
}

func (x *executor) UserSessions(userID interface{}) ([]string, error) {
	x.mu.Lock()
	defer x.mu.Unlock()
	u, _ := userID.(int)
	fail := x.persOp()
	x.events = append(x.events, Ev{Op: "usersessions", U: u, OK: !fail})
	x.afterOp()
	if fail {
		return nil, errInjected
	}
	// a stale index: IDs that carried the user when they were deleted come
	// first, then the live ones
	var ids []string
	for _, g := range x.st.Graves {
		if g.User != nil && *g.User == u {
			ids = append(ids, g.ID)
		}
	}
	for _, e := range x.st.Store {
		rec, err := x.storedRec(e.ID)
		if err == nil && rec.User != nil && rec.User[0] == u {
			ids = append(ids, e.ID)
		}
	}
	return ids, nil
}

// ---- configuration ----

func cookieTemplate(tmpl int) (name string, c http.Cookie) {
	name = []string{"id", "sid", "SESSION"}[tmpl%3]
	c = http.Cookie{
		Domain:   []string{"", "example.com"}[(tmpl/3)%2],
		Path:     []string{"", "/", "/app"}[(tmpl/6)%3],
		Secure:   (tmpl/18)%2 == 1,
		HttpOnly: (tmpl/36)%2 == 0,
		SameSite: []http.SameSite{0, http.SameSiteLaxMode, http.SameSiteStrictMode, http.SameSiteNoneMode}[(tmpl/72)%4],
		MaxAge:   []int{0, 3600, 10 * 365 * 24 * 60 * 60}[(tmpl/288)%3],
	}
	if (tmpl/864)%2 == 1 {
		c.Expires = time.Date(2031, 5, 6, 7, 8, 9, 0, time.UTC)
	}
	return
}

func (x *executor) applyCfg(c Cfg) {
	x.cfg = c
	x.st.Cfg = c
	sessions.SessionExpiry = time.Duration(c.Expiry)
	sessions.SessionIDExpiry = time.Duration(c.IDExpiry)
	sessions.SessionIDGracePeriod = time.Duration(c.Grace)
	sessions.SessionCacheExpiry = time.Duration(c.CacheExpiry)
	sessions.MaxSessionCacheSize = c.MaxCache
	sessions.AcceptRemoteIP = c.AcceptIP
	sessions.AcceptChangingUserAgent = c.AcceptUA
}

// ---- observation ----

func (x *executor) cookiesOf(h http.Header) []Cookie {
	name, tmpl := cookieTemplate(x.tmpl)
	var out []Cookie
	for _, line := range h["Set-Cookie"] {
		c, err := http.ParseSetCookie(line)
		if err != nil {
			out = append(out, Cookie{Kind: "bad", N: 5, Raw: line})
			continue
		}
		if c.Name != name {
			out = append(out, Cookie{Kind: "bad", N: 1, Raw: line})
			continue
		}
		if c.MaxAge < 0 || (!c.Expires.IsZero() && !c.Expires.After(time.Now())) {
			// a deletion: must not carry an ID
			if len(c.Value) == 24 {
				out = append(out, Cookie{Kind: "bad", N: 4, Raw: line})
			} else if c.Domain != tmpl.Domain || c.Path != tmpl.Path {
				// a browser identifies a cookie by name, domain and path: this
				// one does not replace the live cookie it is meant to expire
				out = append(out, Cookie{Kind: "bad", N: 6, Raw: line})
			} else {
				out = append(out, Cookie{Kind: "delete", Raw: line})
			}
			continue
		}
		if len(c.Value) != 24 {
			out = append(out, Cookie{Kind: "bad", N: 3, Raw: line})
			continue
		}
		want := tmpl
		want.Name, want.Value = name, c.Value
		if want.String() != line {
			out = append(out, Cookie{Kind: "bad", N: 2, Raw: line})
			continue
		}
		out = append(out, Cookie{Kind: "live", Key: x.keyOf(c.Value), Raw: line})
	}
	return out
}

func keyLess(a, b Key) bool {
	if a.Gen != b.Gen {
		return a.Gen
	}
	return a.N < b.N
}

func (x *executor) snapshot(o *Obs) {
	keys, views := sessions.VerifCacheView()
	for i, k := range keys {
		o.Cache = append(o.Cache, CacheEnt{Key: x.keyOf(k), ObjID: x.keyOf(views[i].ID), Rec: x.recOf(views[i])})
	}
	sort.Slice(o.Cache, func(i, j int) bool { return keyLess(o.Cache[i].Key, o.Cache[j].Key) })
	for _, e := range x.st.Store {
		rec, err := x.storedRec(e.ID)
		if err != nil {
			rec = Rec{Created: -1, Access: -1, UA: 0xdeadbeef}
		}
		o.Store = append(o.Store, KeyRec{Key: x.keyOf(e.ID), Rec: rec})
	}
	sort.Slice(o.Store, func(i, j int) bool { return keyLess(o.Store[i].Key, o.Store[j].Key) })
	for _, kr := range o.Store {
		exp := false
		x.quietly(func() {
			if s, err := x.decode(x.data[x.idOf(kr.Key)]); err == nil {
				exp = s.Expired()
			}
		})
		o.Expired = append(o.Expired, exp)
	}
	o.Now = ns(time.Now())
	o.Drawn = len(x.st.IDs)
	o.Evs = x.events
}

var sitePrefixes = []struct{ prefix, site string }{
	{"Could not get session from cache", "EGet"},
	{"Could not destroy expired session", "EDestroy"},
	{"Could not delete session from cache", "EDestroy"},
	{"Could not save session under new session ID", "ERegenSave"},
	{"Could not save reference session", "ERegenRef"},
	{"Could not delete session with expired ID", "EDeleteExpired"},
	{"Session expired", "EExpiredID"},
	{"Could not get referenced session", "EGetRef"},
	{"Reference session not found", "ERefMissing"},
	{"Could not save new session", "ECreate"},
	{"Could not log user out of existing sessions", "ELoginLogout"},
	{"Could not update session cache", "ELoginSave"},
	{"Could not switch session ID", "ELoginRegen"},
	{"Could not retrieve session cookie", "ENoCookie"},
}

func siteOf(err error) string {
	for _, p := range sitePrefixes {
		if strings.HasPrefix(err.Error(), p.prefix) {
			return p.site
		}
	}
	return "ESave"
}

// call runs f, turning a panic into a result. crashed reports the crash
// sentinel.
func (x *executor) call(f func() error) (res SRes, crashed bool) {
	defer func() {
		if r := recover(); r != nil {
			if _, ok := r.(crashSentinel); ok {
				crashed = true
				return
			}
			res = SRes{Kind: "panic", Site: "ESave", Text: fmt.Sprint(r)}
		}
	}()
	if err := f(); err != nil {
		return SRes{Kind: "err", Site: siteOf(err), Text: err.Error()}, false
	}
	return SRes{Kind: "ok"}, false
}

func (x *executor) beginStep(h *Hop) {
	x.plan = append([]bool(nil), h.Plan...)
	x.ops = 0
	x.crashAt = 0
	x.crashed = false
	x.events = nil
	x.frozen = nil
	if h.Crash != nil {
		x.crashAt = *h.Crash
		if x.crashAt == 0 {
			x.freeze() // the process stops before the first persistence call
		}
	}
}

func (x *executor) fillTB(h *Hop) {
	h.TB = nil
	for _, e := range x.events {
		if e.Op == "save" && (e.Origin == "compact" || e.Origin == "purge") {
			h.TB = append(h.TB, e.Key)
		}
	}
}

// doStep executes one step. stop: the segment ends after it (restart, crash).
func (x *executor) doStep(h *Hop) (o Obs, stop bool, halt string) {
	name, _ := cookieTemplate(x.tmpl)
	x.beginStep(h)
	o.Jar = CVal{Kind: "none"}
	switch h.Kind {
	case "req":
		jar, ok := x.st.Jars[h.Client]
		if !ok {
			jar = CVal{Kind: "none"}
		}
		req := httptest.NewRequest("GET", "/", nil)
		req.RemoteAddr = h.Addr.String()
		if h.Agent != 0 {
			req.Header.Set("User-Agent", agentPool[h.Agent%len(agentPool)])
		} else {
			req.Header.Del("User-Agent")
		}
		var rawVal string
		var has bool
		forged := h.ForgeRaw != nil || h.ForgeKey != nil
		switch {
		case h.ForgeRaw != nil:
			rawVal, has = *h.ForgeRaw, true
		case h.ForgeKey != nil:
			rawVal, has = x.idOf(*h.ForgeKey), true
		default:
			rawVal, has = x.raw(jar)
		}
		h.Present = nil
		if has {
			req.Header.Set("Cookie", name+"="+rawVal)
		}
		// what the package will see
		var seen CVal
		if c, err := req.Cookie(name); err == nil {
			seen = x.classify(c.Value, true)
		} else {
			seen = CVal{Kind: "none"}
		}
		if forged {
			h.Present = &seen
		} else if seen != jar {
			halt = fmt.Sprintf("jar value %v is not what net/http parses (%v)", jar, seen)
		}
		w := httptest.NewRecorder()
		var sess *sessions.Session
		var res SRes
		var crashed bool
		res, crashed = x.call(func() error {
			var err error
			sess, err = sessions.Start(w, req, h.Create)
			return err
		})
		synctest.Wait()
		switch {
		case crashed:
		case res.Kind == "err":
			o.Res, o.Site, o.Text = "err", res.Site, res.Text
		case res.Kind == "panic":
			o.Res, o.Site, o.Text = "panic", "EGet", res.Text
			halt = "panic in Start: " + res.Text
		case sess == nil:
			o.Res = "none"
		default:
			o.Res = "sess"
			v := sessions.VerifView(sess)
			o.Start = &KeyRec{Key: x.keyOf(v.ID), Rec: x.recOf(v)}
			for _, op := range h.Script {
				var r SRes
				var c bool
				switch op.Op {
				case "set":
					r, c = x.call(func() error { return sess.Set(fmt.Sprintf("k%d", op.K), fmt.Sprintf("v%d", op.V)) })
				case "del":
					r, c = x.call(func() error { return sess.Delete(fmt.Sprintf("k%d", op.K)) })
				case "get", "getdel":
					var val interface{}
					r, c = x.call(func() error {
						if op.Op == "get" {
							val = sess.Get(fmt.Sprintf("k%d", op.K), nil)
						} else {
							val = sess.GetAndDelete(fmt.Sprintf("k%d", op.K), nil)
						}
						return nil
					})
					if r.Kind == "ok" {
						r = SRes{Kind: "val"}
						if s, ok := val.(string); ok {
							r.Has = true
							fmt.Sscanf(s, "v%d", &r.V)
						} else if val != nil {
							r.Has, r.V = true, -1
						}
					}
				case "login":
					r, c = x.call(func() error { return sess.LogIn(hUser{op.U, op.Ver}, op.Excl, w) })
				case "logout":
					r, c = x.call(func() error { return sess.LogOut() })
				case "regen":
					r, c = x.call(func() error { return sess.RegenerateID(w) })
				case "destroy":
					r, c = x.call(func() error { return sess.Destroy(w, req) })
				}
				if c {
					crashed = true
					break
				}
				synctest.Wait()
				o.Script = append(o.Script, r)
				if r.Kind == "panic" {
					halt = "panic in " + op.Op + ": " + r.Text
					break
				}
				if op.Op == "destroy" {
					break
				}
			}
			if !crashed && halt == "" {
				v := sessions.VerifView(sess)
				o.Final = &KeyRec{Key: x.keyOf(v.ID), Rec: x.recOf(v)}
			}
		}
		if h.Crash != nil {
			// the process stopped at the crash point (or here, if the step made
			// fewer persistence calls): nothing was sent, memory is lost
			if x.frozen == nil {
				x.freeze()
			}
			x.fillTB(h)
			x.thaw()
			o = Obs{Res: "crashed", Jar: jar}
			sessions.VerifDropCache()
			x.snapshot(&o)
			return o, true, ""
		}
		o.Cookies = x.cookiesOf(w.Header())
		if h.Present == nil {
			for _, c := range o.Cookies {
				switch c.Kind {
				case "live":
					jar = CVal{Kind: "key", Key: c.Key}
				case "delete":
					jar = CVal{Kind: "none"}
				}
			}
			x.st.Jars[h.Client] = jar
		}
		o.Jar = jar
	case "wait":
		time.Sleep(time.Duration(h.D))
		synctest.Wait()
		o.Res = "void"
	case "purge":
		r, _ := x.call(func() error { sessions.PurgeSessions(); return nil })
		o.Res = "void"
		if r.Kind == "panic" {
			o.Res, o.Site, o.Text = "panic", "EGet", r.Text
			halt = "panic in PurgeSessions"
		}
	case "drop":
		sessions.VerifDropCache()
		o.Res = "void"
	case "restart":
		sessions.VerifDropCache()
		o.Res = "void"
		x.snapshot(&o)
		return o, true, ""
	case "logoutuser", "refreshuser":
		r, _ := x.call(func() error {
			if h.Kind == "logoutuser" {
				return sessions.LogOut(h.U)
			}
			return sessions.RefreshUser(hUser{h.U, h.Ver})
		})
		synctest.Wait()
		switch r.Kind {
		case "ok":
			o.Res = "void"
		case "err":
			o.Res, o.Site, o.Text = "err", r.Site, r.Text
		default:
			o.Res, o.Site, o.Text = "panic", "EGet", r.Text
			halt = "panic in " + h.Kind + ": " + r.Text
		}
	case "setcfg":
		c := *h.Cfg
		c.JSON = x.cfg.JSON
		h.Cfg = &c
		x.applyCfg(c)
		o.Res = "void"
	}
	x.fillTB(h)
	if halt == "" {
		x.snapshot(&o)
	} else {
		o.Evs = x.events
	}
	return o, false, halt
}

// TestChild executes one segment: VERIF_CHILD_IN -> VERIF_CHILD_OUT.
func TestChild(t *testing.T) {
	inPath, outPath := os.Getenv("VERIF_CHILD_IN"), os.Getenv("VERIF_CHILD_OUT")
	if inPath == "" {
		t.Skip("not a child")
	}
	runtime.GOMAXPROCS(1)
	raw, err := os.ReadFile(inPath)
	if err != nil {
		t.Fatal(err)
	}
	var in childIn
	if err := json.Unmarshal(raw, &in); err != nil {
		t.Fatal(err)
	}
	synctest.Test(t, func(t *testing.T) {
		out := runSegment(in)
		b, err := json.Marshal(out)
		if err != nil {
			panic(err)
		}
		if err := os.WriteFile(outPath, b, 0o644); err != nil {
			panic(err)
		}
		// The lock manager's goroutines never exit, so the bubble cannot
		// drain; leave the process from inside it.
		syscall.Exit(0)
	})
}

func runSegment(in childIn) childOut {
	h := in.History
	x := &executor{data: map[string][]byte{}, tmpl: h.Tmpl, seed: h.Seed}
	if in.State != nil {
		x.st = *in.State
		x.applyCfg(x.st.Cfg)
	} else {
		x.st = State{Jars: map[int]CVal{}}
		x.applyCfg(h.Cfg)
	}
	if x.st.Jars == nil {
		x.st.Jars = map[int]CVal{}
	}
	for _, e := range x.st.Store {
		x.data[e.ID] = e.Bytes
	}
	x.draws = uint64(len(x.st.IDs))
	name, tmpl := cookieTemplate(h.Tmpl)
	sessions.SessionCookie = name
	sessions.NewSessionCookie = func() *http.Cookie { c := tmpl; return &c }
	if h.Tmpl%5 == 0 {
		// an application may hand out one shared template object
		shared := tmpl
		sessions.NewSessionCookie = func() *http.Cookie { return &shared }
	}
	sessions.Persistence = sessions.ExtendablePersistenceLayer{
		LoadSessionFunc: x.LoadSession, SaveSessionFunc: x.SaveSession, DeleteSessionFunc: x.DeleteSession,
		UserSessionsFunc: x.UserSessions, LoadUserFunc: x.LoadUser,
	}
	rand.Reader = recorder{x}
	sessions.VerifReset()
	if x.st.ClockNs > 0 {
		time.Sleep(time.Duration(x.st.ClockNs))
	}
	out := childOut{Next: in.From}
	for i := in.From; i < len(h.Steps); i++ {
		step := h.Steps[i]
		o, stop, halt := x.doStep(&step)
		out.Steps = append(out.Steps, step)
		out.Obs = append(out.Obs, o)
		out.Next = i + 1
		if halt != "" {
			out.Halt = halt
			break
		}
		if stop {
			break
		}
	}
	x.st.ClockNs = ns(time.Now())
	for i := range x.st.Store {
		x.st.Store[i].Bytes = x.data[x.st.Store[i].ID]
	}
	out.State = x.st
	return out
}
