// Package harness runs the real rivo/sessions code on generated inputs and
// histories and writes what it observed, one JSON record per line, for the
// Coq model to be evaluated on the same inputs (see /verif/DESIGN.md §2.5).
//
// Selection is by environment: VERIF_FAMILY names the family, VERIF_OUT the
// output file, VERIF_SEED the seed every random choice derives from, VERIF_N
// the number of cases, VERIF_ARGS family-specific arguments.
package harness

import (
	"bufio"
	"encoding/json"
	"fmt"
	"math/rand/v2"
	"os"
	"sort"
	"strconv"
	"strings"
	"testing"
)

// family is one generator/executor of cases.
type family func(t *testing.T, r *run)

var families = map[string]family{}

// run is the context of one harness invocation.
type run struct {
	seed uint64
	n    int
	args map[string]string
	rng  *rand.Rand
	out  *bufio.Writer
	file *os.File
}

func (r *run) arg(name, def string) string {
	if v, ok := r.args[name]; ok {
		return v
	}
	return def
}

func (r *run) argInt(name string, def int) int {
	if v, ok := r.args[name]; ok {
		n, err := strconv.Atoi(v)
		if err != nil {
			panic(fmt.Sprintf("VERIF_ARGS %s=%q: %v", name, v, err))
		}
		return n
	}
	return def
}

// emit writes one record.
func (r *run) emit(rec interface{}) {
	b, err := json.Marshal(rec)
	if err != nil {
		panic(err)
	}
	r.out.Write(b)
	r.out.WriteByte('\n')
}

func (r *run) close() {
	r.out.Flush()
	r.file.Close()
}

func newRun() (*run, string, error) {
	fam := os.Getenv("VERIF_FAMILY")
	if fam == "" {
		return nil, "", nil
	}
	seed, _ := strconv.ParseUint(os.Getenv("VERIF_SEED"), 10, 64)
	n, _ := strconv.Atoi(os.Getenv("VERIF_N"))
	if n == 0 {
		n = 100
	}
	r := &run{seed: seed, n: n, args: map[string]string{}}
	for _, kv := range strings.Fields(os.Getenv("VERIF_ARGS")) {
		if i := strings.IndexByte(kv, '='); i > 0 {
			r.args[kv[:i]] = kv[i+1:]
		}
	}
	r.rng = rand.New(rand.NewPCG(seed, 0x9e3779b97f4a7c15^hashString(fam)))
	path := os.Getenv("VERIF_OUT")
	if path == "" {
		return nil, "", fmt.Errorf("VERIF_OUT not set")
	}
	f, err := os.Create(path)
	if err != nil {
		return nil, "", err
	}
	r.file = f
	r.out = bufio.NewWriterSize(f, 1<<20)
	return r, fam, nil
}

func hashString(s string) uint64 {
	h := uint64(1469598103934665603)
	for i := 0; i < len(s); i++ {
		h ^= uint64(s[i])
		h *= 1099511628211
	}
	return h
}

// TestFamily is the single entry point.
func TestFamily(t *testing.T) {
	r, fam, err := newRun()
	if err != nil {
		t.Fatal(err)
	}
	if r == nil {
		var names []string
		for n := range families {
			names = append(names, n)
		}
		sort.Strings(names)
		t.Skipf("VERIF_FAMILY not set; families: %s", strings.Join(names, " "))
	}
	f, ok := families[fam]
	if !ok {
		t.Fatalf("unknown family %q", fam)
	}
	defer r.close()
	f(t, r)
}

// ---- Coq term printers ----

func coqN(n uint64) string { return strconv.FormatUint(n, 10) }

func coqZ(z int64) string {
	if z < 0 {
		return "(" + strconv.FormatInt(z, 10) + ")"
	}
	return strconv.FormatInt(z, 10)
}

func coqBytes(b []byte) string {
	var sb strings.Builder
	sb.WriteByte('[')
	for i, c := range b {
		if i > 0 {
			sb.WriteByte(';')
		}
		sb.WriteString(strconv.Itoa(int(c)))
	}
	sb.WriteByte(']')
	return sb.String()
}

func coqList(items []string) string {
	return "[" + strings.Join(items, "; ") + "]"
}

func coqBytesList(l [][]byte) string {
	items := make([]string, len(l))
	for i, b := range l {
		items[i] = coqBytes(b)
	}
	return coqList(items)
}

func coqBool(b bool) string {
	if b {
		return "true"
	}
	return "false"
}
