package harness

// Family addrre (C06, C01): the remote address as a string. For generated
// pairs of strings (prev, cur) the family records
//   - what regexp.FindStringSubmatch returns on each string for the pattern of
//     Start (session.go), and
//   - the end-to-end decision of the real sessions.Start on a stored session
//     whose recorded address is prev when the request's RemoteAddr is cur, for
//     AcceptRemoteIP = 1, 2, 3, 4, 5 (kept = the session is returned,
//     destroyed = nil, nil and the store no longer holds it).
// The check stage (checks/addr_re.py) evaluates Model/AddrRe.v's submatch and
// ip_ok_str on the same strings and compares.
//
// The pattern: the check passes the literal the translator extracted from the
// source in VERIF_ADDR_PATTERN; the family uses it and reports (a first record
// {"pattern_mismatch": true, ...}) when it is not the pattern this file (and
// the model) was written against.
//
// VERIF_N: number of pairs. VERIF_ARGS: only_prev=<hex> only_cur=<hex> runs a
// single pair (replay).

import (
	"encoding/hex"
	"fmt"
	"io"
	"log"
	"math/rand/v2"
	"net/http"
	"net/http/httptest"
	"os"
	"regexp"
	"strconv"
	"strings"
	"sync"
	"testing"
	"time"

	"github.com/rivo/sessions"
)

func init() {
	families["addrre"] = addrReFamily
}

// the pattern of Start as Model/AddrRe.v was written against it
const addrReBuiltinPattern = `^(\d+).(\d+).(\d+).(\d+):\d+$`

type addrReRec struct {
	Case    int      `json:"case"`
	Pair    string   `json:"pair"`
	Kind    string   `json:"kind"`
	PrevHex string   `json:"prev_hex"`
	CurHex  string   `json:"cur_hex"`
	Prev    string   `json:"prev"` // Go %+q
	Cur     string   `json:"cur"`
	MPrev   []string `json:"mprev"` // nil | the four groups, hex
	MCur    []string `json:"mcur"`
	Keep    []bool   `json:"keep"`  // AcceptRemoteIP = 1..5
	Moved   []bool   `json:"moved"` // kept and the recorded address is now cur
	NErr    []string `json:"nerr"`  // per AcceptRemoteIP: "" or what went wrong (panic, error, inconsistent store)
	Error   string   `json:"error"`
	Coq     string   `json:"coq"`
}

type addrReMismatch struct {
	PatternMismatch bool   `json:"pattern_mismatch"`
	Source          string `json:"source"`
	Builtin         string `json:"builtin"`
}

// ---- generation ----

type arGen struct{ rng *rand.Rand }

func (g *arGen) pick(l []string) string { return l[g.rng.IntN(len(l))] }

func (g *arGen) digits(n int) string {
	b := make([]byte, n)
	for i := range b {
		b[i] = byte('0' + g.rng.IntN(10))
	}
	return string(b)
}

// octet: mostly 0..255, sometimes larger
func (g *arGen) octet() string {
	switch x := g.rng.IntN(20); {
	case x < 16:
		return strconv.Itoa(g.rng.IntN(256))
	case x < 18:
		return strconv.Itoa(256 + g.rng.IntN(744))
	case x < 19:
		return strconv.Itoa(1000 + g.rng.IntN(99000))
	}
	return strconv.FormatUint(g.rng.Uint64(), 10)
}

func (g *arGen) smallOctet() string { return strconv.Itoa(g.rng.IntN(256)) }

func (g *arGen) port() string {
	if g.rng.IntN(12) == 0 {
		return strconv.Itoa(65536 + g.rng.IntN(1000000))
	}
	return strconv.Itoa(g.rng.IntN(65536))
}

// arAddr is a string of the pattern's general shape
type arAddr struct {
	pre  string
	g    [4]string
	s    [3]string
	port string
	post string
}

func (a arAddr) String() string {
	return a.pre + a.g[0] + a.s[0] + a.g[1] + a.s[1] + a.g[2] + a.s[2] + a.g[3] + ":" + a.port + a.post
}

func (g *arGen) canon() arAddr {
	return arAddr{g: [4]string{g.smallOctet(), g.smallOctet(), g.smallOctet(), g.smallOctet()}, s: [3]string{".", ".", "."}, port: g.port()}
}

func (g *arGen) leadingZeros(s string) string {
	return strings.Repeat("0", 1+g.rng.IntN(3)) + s
}

var arUTF8Seps = []string{"\u00e9", "\u20ac", "\U0001f600", "\u0080", "\u07ff", "\u0800", "\uffff", "\U00010000", "\U0010ffff", "\ufffd", "\u00df", "\u2028", "\u0085"}

var arBadSeps = []string{"\x80", "\xff", "\xc3", "\xbf", "\xc0", "\xc1", "\xf5", "\xe2\x82", "\xf0\x9f\x98", "\xf0\x9f", "\xc0\xaf", "\xed\xa0\x80",
	"\xf4\x90\x80\x80", "\xc3\x28", "\xe0\x80\x80", "\xf0\x80\x80\x80", "\xed\xbf\xbf", "\xef\xbf", "\xf8\x88\x80\x80\x80", "\xe2\x28\xa1", "\xc2"}

func (g *arGen) validRune() string {
	for {
		var r rune
		switch g.rng.IntN(3) {
		case 0:
			r = rune(0x80 + g.rng.IntN(0x800-0x80))
		case 1:
			r = rune(0x800 + g.rng.IntN(0x10000-0x800))
		default:
			r = rune(0x10000 + g.rng.IntN(0x110000-0x10000))
		}
		if r >= 0xd800 && r <= 0xdfff {
			continue
		}
		return string(r)
	}
}

func (g *arGen) asciiSep() string {
	if g.rng.IntN(5) < 2 {
		return g.pick([]string{".", ":", ",", " ", "-", "/", "x", "0", "5", "9", "\t", "[", "]", "\\", "$", "^"})
	}
	return string([]byte{byte(g.rng.IntN(128))})
}

// place puts an odd piece of text somewhere into a well-formed address
func (g *arGen) place(a arAddr, odd string) arAddr {
	switch g.rng.IntN(10) {
	case 0:
		a.pre = odd
	case 1:
		a.post = odd
	case 2:
		k := g.rng.IntN(4)
		cut := g.rng.IntN(len(a.g[k]) + 1)
		a.g[k] = a.g[k][:cut] + odd + a.g[k][cut:]
	case 3:
		cut := g.rng.IntN(len(a.port) + 1)
		a.port = a.port[:cut] + odd + a.port[cut:]
	case 4:
		// in front of the colon
		a.g[3] += odd
	default:
		a.s[g.rng.IntN(3)] = odd
	}
	return a
}

func (g *arGen) mutate(s string) string {
	b := []byte(s)
	nb := func() byte {
		switch g.rng.IntN(4) {
		case 0:
			return byte('0' + g.rng.IntN(10))
		case 1:
			return []byte{'.', ':', '\n', 0, ' ', 0x80, 0xff, 0xc3}[g.rng.IntN(8)]
		}
		return byte(g.rng.IntN(256))
	}
	if len(b) == 0 {
		return string([]byte{nb()})
	}
	i := g.rng.IntN(len(b))
	switch g.rng.IntN(3) {
	case 0:
		b[i] = nb()
	case 1:
		b = append(b[:i], append([]byte{nb()}, b[i:]...)...)
	default:
		b = append(b[:i], b[i+1:]...)
	}
	return string(b)
}

var arKinds = []string{"v4", "v4big", "v4lz", "sep", "v6", "nl", "empty", "noport", "nocolon", "trail", "lead", "longdig", "puredig", "groups",
	"utf8sep", "badutf8", "nul", "mut"}

// one string of the given kind
func (g *arGen) ofKind(kind string) string {
	a := g.canon()
	switch kind {
	case "v4":
		return a.String()
	case "v4big":
		for i := range a.g {
			a.g[i] = g.octet()
		}
		a.g[g.rng.IntN(4)] = strconv.Itoa(256 + g.rng.IntN(100000))
		return a.String()
	case "v4lz":
		a.g[g.rng.IntN(4)] = g.leadingZeros(a.g[g.rng.IntN(4)])
		if g.rng.IntN(3) == 0 {
			k := g.rng.IntN(4)
			a.g[k] = g.leadingZeros(a.g[k])
		}
		if g.rng.IntN(6) == 0 {
			a.port = g.leadingZeros(a.port)
		}
		return a.String()
	case "sep":
		for i := range a.s {
			if g.rng.IntN(4) > 0 {
				a.s[i] = g.asciiSep()
			}
		}
		if a.s == [3]string{".", ".", "."} {
			a.s[g.rng.IntN(3)] = g.asciiSep()
		}
		return a.String()
	case "v6":
		switch g.rng.IntN(8) {
		case 0:
			return "[::1]:80"
		case 1:
			return "[::ffff:1.2.3.4]:80"
		case 2:
			return "[::ffff:" + a.g[0] + "." + a.g[1] + "." + a.g[2] + "." + a.g[3] + "]:" + a.port
		case 3:
			return fmt.Sprintf("[2001:db8::%x:%x]:%s", g.rng.IntN(65536), g.rng.IntN(65536), a.port)
		case 4:
			return "[fe80::1%eth0]:" + a.port
		case 5:
			return "::1"
		case 6:
			return fmt.Sprintf("[%x:%x:%x:%x:%x:%x:%x:%x]:%s", g.rng.IntN(65536), g.rng.IntN(65536), g.rng.IntN(65536), g.rng.IntN(65536),
				g.rng.IntN(65536), g.rng.IntN(65536), g.rng.IntN(65536), g.rng.IntN(65536), a.port)
		}
		return "[::" + a.g[0] + "." + a.g[1] + "." + a.g[2] + "." + a.g[3] + "]:" + a.port
	case "nl":
		switch g.rng.IntN(7) {
		case 0:
			return a.String() + "\n"
		case 1:
			return "\n"
		case 2:
			return a.String() + "\r\n"
		case 3:
			return "\n" + a.String()
		case 4:
			return a.String() + "\n" + g.canon().String()
		}
		return g.place(a, "\n").String()
	case "empty":
		return ""
	case "noport":
		if g.rng.IntN(2) == 0 {
			a.port = ""
			return a.String()
		}
		s := a.String()
		return s[:strings.LastIndexByte(s, ':')]
	case "nocolon":
		s := a.String()
		i := strings.LastIndexByte(s, ':')
		return s[:i] + g.pick([]string{"", " ", ".", ";", "_", "::"}) + s[i+1:]
	case "trail":
		return a.String() + g.pick([]string{"x", " ", ":90", ".", ":", "/", "\t", "a1", "-1", "e5"})
	case "lead":
		return g.pick([]string{" ", "x", "-", "+", ".", ":", "[", "0x", "a1", "\t"}) + a.String()
	case "longdig":
		if g.rng.IntN(3) == 0 {
			for i := range a.g {
				a.g[i] = g.digits(20 + g.rng.IntN(7))
			}
		} else {
			a.g[g.rng.IntN(4)] = g.digits(20 + g.rng.IntN(21))
			if g.rng.IntN(2) == 0 {
				a.g[g.rng.IntN(4)] = g.digits(20 + g.rng.IntN(21))
			}
		}
		if g.rng.IntN(4) == 0 {
			a.port = g.digits(20 + g.rng.IntN(10))
		}
		if g.rng.IntN(5) == 0 {
			// a failing end, so that every shorter choice of the groups is tried
			a.post = g.pick([]string{"x", "\n", ":", " "})
		}
		return a.String()
	case "puredig":
		// a single run of digits of at most 48 characters, with or without a port
		n := 1 + g.rng.IntN(48)
		if g.rng.IntN(3) == 0 {
			n = 4 + g.rng.IntN(12)
		}
		s := g.digits(n)
		switch g.rng.IntN(4) {
		case 0:
			return s
		case 1:
			return s + ":"
		}
		return s + ":" + g.digits(1+g.rng.IntN(5))
	case "groups":
		// fewer or more groups than four
		n := []int{1, 2, 3, 5, 6}[g.rng.IntN(5)]
		parts := make([]string, n)
		for i := range parts {
			parts[i] = g.smallOctet()
		}
		return strings.Join(parts, ".") + ":" + a.port
	case "utf8sep":
		odd := g.pick(arUTF8Seps)
		if g.rng.IntN(2) == 0 {
			odd = g.validRune()
		}
		a = g.place(a, odd)
		if g.rng.IntN(3) == 0 {
			a.s[g.rng.IntN(3)] = g.validRune()
		}
		return a.String()
	case "badutf8":
		odd := g.pick(arBadSeps)
		if g.rng.IntN(4) == 0 {
			b := make([]byte, 1+g.rng.IntN(4))
			for i := range b {
				b[i] = byte(0x80 + g.rng.IntN(0x80))
			}
			odd = string(b)
		}
		a = g.place(a, odd)
		if g.rng.IntN(3) == 0 {
			a.s[g.rng.IntN(3)] = g.pick(arBadSeps[:7])
		}
		return a.String()
	case "nul":
		return g.place(a, "\x00").String()
	case "mut":
		return g.mutate(a.String())
	}
	panic("addrre: unknown kind " + kind)
}

// kinds whose strings (mostly) match the pattern, used for the pairs that
// agree or differ at chosen octets
func (g *arGen) matching() (string, arAddr) {
	a := g.canon()
	switch x := g.rng.IntN(10); {
	case x < 5:
		return "v4", a
	case x < 6:
		for i := range a.g {
			a.g[i] = g.octet()
		}
		return "v4big", a
	case x < 7:
		k := g.rng.IntN(4)
		a.g[k] = g.leadingZeros(a.g[k])
		return "v4lz", a
	case x < 8:
		for i := range a.s {
			if g.rng.IntN(2) == 0 {
				a.s[i] = g.asciiSep()
			}
		}
		return "sep", a
	case x < 9:
		a.s[g.rng.IntN(3)] = g.validRune()
		return "utf8sep", a
	}
	a.s[g.rng.IntN(3)] = g.pick(arBadSeps[:7])
	return "badutf8", a
}

// differentOctet: a digit string different from s
func (g *arGen) differentOctet(s string) string {
	for {
		t := g.smallOctet()
		if g.rng.IntN(6) == 0 {
			t = g.octet()
		}
		if t != s {
			return t
		}
	}
}

// longestDigitRun: the model's matcher is quartic in the length of a run of
// digits (the dots match digits too), so the runs are kept short.
func longestDigitRun(s string) int {
	best, cur := 0, 0
	for i := 0; i < len(s); i++ {
		if s[i] >= '0' && s[i] <= '9' {
			cur++
			if cur > best {
				best = cur
			}
		} else {
			cur = 0
		}
	}
	return best
}

// pair returns (pair kind, kind of prev, kind of cur, prev, cur): strings of
// at most 120 bytes with no run of more than 48 digits
func (g *arGen) pair() (string, string, string, string, string) {
	for {
		pk, kp, kc, prev, cur := g.pair1()
		if len(prev) <= 120 && len(cur) <= 120 && longestDigitRun(prev) <= 48 && longestDigitRun(cur) <= 48 {
			return pk, kp, kc, prev, cur
		}
	}
}

func (g *arGen) pair1() (string, string, string, string, string) {
	switch x := g.rng.IntN(100); {
	case x < 24:
		// both of the pattern's shape, differing exactly at octet k
		k := 1 + g.rng.IntN(4)
		kp, a := g.matching()
		b := a
		b.g[k-1] = g.differentOctet(a.g[k-1])
		kc := kp
		if g.rng.IntN(2) == 0 {
			b.port = g.port()
		}
		if g.rng.IntN(4) == 0 {
			// the separators are not compared
			var c arAddr
			kc, c = g.matching()
			b.s = c.s
			if kc == "v4big" || kc == "v4lz" {
				kc = "v4"
			}
		}
		return "diff" + strconv.Itoa(k), kp, kc, a.String(), b.String()
	case x < 34:
		// agreeing on the first k octets, the rest independent
		k := g.rng.IntN(5)
		kp, a := g.matching()
		kc, b := g.matching()
		for i := 0; i < k; i++ {
			b.g[i] = a.g[i]
		}
		return "prefix" + strconv.Itoa(k), kp, kc, a.String(), b.String()
	case x < 42:
		// equal as numbers, different as strings at octet k
		k := 1 + g.rng.IntN(4)
		a := g.canon()
		b := a
		b.g[k-1] = g.leadingZeros(a.g[k-1])
		if g.rng.IntN(2) == 0 {
			b.port = g.port()
		}
		if g.rng.IntN(2) == 0 {
			return "numeq" + strconv.Itoa(k), "v4lz", "v4", b.String(), a.String()
		}
		return "numeq" + strconv.Itoa(k), "v4", "v4lz", a.String(), b.String()
	case x < 47:
		kind := g.pick(arKinds)
		s := g.ofKind(kind)
		return "same", kind, kind, s, s
	case x < 54:
		// the same four groups, another port and other separators
		kp, a := g.matching()
		kc, c := g.matching()
		b := a
		b.port = g.port()
		if g.rng.IntN(2) == 0 {
			b.s = c.s
			if kc == "v4big" || kc == "v4lz" {
				kc = "v4"
			}
		} else {
			kc = kp
		}
		return "sameaddr", kp, kc, a.String(), b.String()
	case x < 64:
		kind := g.pick(arKinds)
		s := g.ofKind(kind)
		if g.rng.IntN(2) == 0 {
			return "mutpair", kind, "mut", s, g.mutate(s)
		}
		return "mutpair", "mut", kind, g.mutate(s), s
	}
	kp, kc := g.pick(arKinds), g.pick(arKinds)
	return "indep", kp, kc, g.ofKind(kp), g.ofKind(kc)
}

// ---- execution ----

func addrReCoqOpt(m []string) string {
	if m == nil {
		return "None"
	}
	q := make([]string, len(m))
	for i, s := range m {
		q[i] = `hx "` + s + `"`
	}
	return "(Some (" + strings.Join(q, ", ") + "))"
}

func addrReFamily(t *testing.T, r *run) {
	log.SetOutput(io.Discard)
	pattern := addrReBuiltinPattern
	if src, ok := os.LookupEnv("VERIF_ADDR_PATTERN"); ok {
		if src != addrReBuiltinPattern {
			r.emit(addrReMismatch{PatternMismatch: true, Source: src, Builtin: addrReBuiltinPattern})
		}
		pattern = src
	}
	re, err := regexp.Compile(pattern)
	if err != nil {
		t.Fatalf("addrre: the pattern %q does not compile: %v", pattern, err)
	}

	// the package's variables, restored at the end
	oldP, oldCookie := sessions.Persistence, sessions.SessionCookie
	oldE, oldIE, oldG, oldCE := sessions.SessionExpiry, sessions.SessionIDExpiry, sessions.SessionIDGracePeriod, sessions.SessionCacheExpiry
	oldMax, oldIP, oldUA := sessions.MaxSessionCacheSize, sessions.AcceptRemoteIP, sessions.AcceptChangingUserAgent
	defer func() {
		sessions.Persistence, sessions.SessionCookie = oldP, oldCookie
		sessions.SessionExpiry, sessions.SessionIDExpiry, sessions.SessionIDGracePeriod, sessions.SessionCacheExpiry = oldE, oldIE, oldG, oldCE
		sessions.MaxSessionCacheSize, sessions.AcceptRemoteIP, sessions.AcceptChangingUserAgent = oldMax, oldIP, oldUA
		sessions.VerifReset()
	}()
	var mu sync.Mutex
	store := map[string]*sessions.Session{}
	sessions.Persistence = sessions.ExtendablePersistenceLayer{
		LoadSessionFunc: func(id string) (*sessions.Session, error) {
			mu.Lock()
			defer mu.Unlock()
			return store[id], nil
		},
		SaveSessionFunc: func(id string, s *sessions.Session) error {
			mu.Lock()
			defer mu.Unlock()
			store[id] = s
			return nil
		},
		DeleteSessionFunc: func(id string) error {
			mu.Lock()
			defer mu.Unlock()
			delete(store, id)
			return nil
		},
		UserSessionsFunc: func(interface{}) ([]string, error) { return nil, nil },
		LoadUserFunc:     func(id interface{}) (sessions.User, error) { return nil, nil },
	}
	sessions.SessionCookie = "id"
	sessions.SessionExpiry = time.Hour
	sessions.SessionIDExpiry = time.Hour
	sessions.SessionIDGracePeriod = time.Hour
	sessions.SessionCacheExpiry = time.Hour
	sessions.MaxSessionCacheSize = 100
	sessions.AcceptChangingUserAgent = true
	sessions.VerifReset()

	submatch := func(s string) ([]string, string) {
		m := re.FindStringSubmatch(s)
		if m == nil {
			return nil, ""
		}
		if len(m) != 5 {
			return nil, fmt.Sprintf("FindStringSubmatch(%+q) returned %d strings", s, len(m))
		}
		out := make([]string, 4)
		for i := range out {
			out[i] = hex.EncodeToString([]byte(m[i+1]))
		}
		if m[0] != s {
			return out, fmt.Sprintf("FindStringSubmatch(%+q): the whole match is %+q", s, m[0])
		}
		return out, ""
	}

	// one request under AcceptRemoteIP = n
	decide := func(id, prev, cur string, n int) (kept, moved bool, errText string) {
		defer func() {
			if p := recover(); p != nil {
				errText = fmt.Sprintf("AcceptRemoteIP=%d: panic: %v", n, p)
			}
		}()
		now := time.Now()
		mu.Lock()
		for k := range store {
			delete(store, k)
		}
		store[id] = sessions.VerifMake(sessions.VerifSessionView{ID: id, Created: now, LastAccess: now, LastIP: prev, Data: map[string]interface{}{}})
		mu.Unlock()
		sessions.VerifDropCache() // the session is loaded from the store
		sessions.AcceptRemoteIP = n
		w := httptest.NewRecorder()
		req := httptest.NewRequest("GET", "http://example.com/", nil)
		req.AddCookie(&http.Cookie{Name: sessions.SessionCookie, Value: id})
		req.RemoteAddr = cur
		s, err := sessions.Start(w, req, false)
		mu.Lock()
		_, stored := store[id]
		mu.Unlock()
		switch {
		case err != nil:
			return false, false, fmt.Sprintf("AcceptRemoteIP=%d: Start returned the error %v", n, err)
		case s != nil:
			v := sessions.VerifView(s)
			if v.ID != id {
				return true, false, fmt.Sprintf("AcceptRemoteIP=%d: Start returned another session (%s)", n, v.ID)
			}
			if !stored || sessions.VerifCached(id) != s {
				return true, v.LastIP == cur, fmt.Sprintf("AcceptRemoteIP=%d: the session was returned but is no longer stored/cached", n)
			}
			return true, v.LastIP == cur, ""
		}
		if stored || sessions.VerifCached(id) != nil {
			return false, false, fmt.Sprintf("AcceptRemoteIP=%d: Start returned nil, nil but the session still exists", n)
		}
		return false, false, ""
	}

	runPair := func(i int, pk, kp, kc, prev, cur string) {
		rec := addrReRec{Case: i, Pair: pk, Kind: kp + "/" + kc, PrevHex: hex.EncodeToString([]byte(prev)), CurHex: hex.EncodeToString([]byte(cur)),
			Prev: fmt.Sprintf("%+q", prev), Cur: fmt.Sprintf("%+q", cur)}
		var errs []string
		var e string
		if rec.MPrev, e = submatch(prev); e != "" {
			errs = append(errs, e)
		}
		if rec.MCur, e = submatch(cur); e != "" {
			errs = append(errs, e)
		}
		id, err := sessions.VerifNewSessionID()
		if err != nil || len(id) != 24 {
			t.Fatalf("addrre: VerifNewSessionID: %q, %v", id, err)
		}
		for n := 1; n <= 5; n++ {
			kept, moved, e := decide(id, prev, cur, n)
			rec.Keep = append(rec.Keep, kept)
			rec.Moved = append(rec.Moved, moved)
			rec.NErr = append(rec.NErr, e)
			if e != "" {
				errs = append(errs, e)
			}
		}
		rec.Error = strings.Join(errs, "; ")
		keep := make([]string, len(rec.Keep))
		for j, b := range rec.Keep {
			keep[j] = coqBool(b)
		}
		rec.Coq = `mkRC (hx "` + rec.PrevHex + `") (hx "` + rec.CurHex + `") ` + addrReCoqOpt(rec.MPrev) + " " + addrReCoqOpt(rec.MCur) + " [" + strings.Join(keep, ";") + "]"
		r.emit(rec)
	}

	if _, ok := r.args["only_cur"]; ok {
		prev, err1 := hex.DecodeString(r.arg("only_prev", ""))
		cur, err2 := hex.DecodeString(r.arg("only_cur", ""))
		if err1 != nil || err2 != nil {
			t.Fatalf("addrre: only_prev/only_cur are not hex: %v %v", err1, err2)
		}
		runPair(r.argInt("case", 0), "replay", "replay", "replay", string(prev), string(cur))
		return
	}
	g := &arGen{rng: r.rng}
	for i := 0; i < r.n; i++ {
		pk, kp, kc, prev, cur := g.pair()
		runPair(i, pk, kp, kc, prev, cur)
	}
}
