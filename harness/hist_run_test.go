package harness

// Parent side of the history families: generate histories, run each in child
// processes (one per segment), emit one record per history with the steps as
// executed (forged values classified, tie-breaks filled in), the observations,
// and both as Coq terms.

import (
	"encoding/json"
	"fmt"
	"os"
	osexec "os/exec"
	"path/filepath"
	"strings"
	"sync"
	"testing"
)

type histRec struct {
	History History `json:"history"`
	Obs     []Obs   `json:"obs"`
	Halt    string  `json:"halt,omitempty"`
	Coq     string  `json:"coq"`
	Error   string  `json:"error,omitempty"`
}

func coqHistory(h History, obs []Obs) string {
	steps := make([]string, len(h.Steps))
	for i, s := range h.Steps {
		steps[i] = s.Coq()
	}
	os_ := make([]string, len(obs))
	for i, o := range obs {
		os_[i] = o.Coq()
	}
	return "(" + h.Cfg.Coq() + ",\n  " + "[" + strings.Join(steps, ";\n   ") + "],\n  [" + strings.Join(os_, ";\n   ") + "])"
}

// runHistory executes a history segment by segment.
func runHistory(h History, scratch string) histRec {
	var state *State
	from := 0
	var obs []Obs
	var steps []Hop
	halt := ""
	for seg := 0; from < len(h.Steps); seg++ {
		in := childIn{History: h, From: from, State: state}
		inPath := filepath.Join(scratch, fmt.Sprintf("h%d-%d.in", h.ID, seg))
		outPath := filepath.Join(scratch, fmt.Sprintf("h%d-%d.out", h.ID, seg))
		b, _ := json.Marshal(in)
		if err := os.WriteFile(inPath, b, 0o644); err != nil {
			return histRec{History: h, Error: err.Error()}
		}
		cmd := osexec.Command(os.Args[0], "-test.run", "^TestChild$", "-test.timeout", "120s")
		cmd.Env = append(os.Environ(), "VERIF_CHILD_IN="+inPath, "VERIF_CHILD_OUT="+outPath, "VERIF_FAMILY=")
		outb, err := cmd.CombinedOutput()
		raw, rerr := os.ReadFile(outPath)
		os.Remove(inPath)
		os.Remove(outPath)
		if rerr != nil {
			// the child died without writing its result: a deadlock or a
			// crash of the runtime inside the step
			msg := string(outb)
			if len(msg) > 3000 {
				msg = msg[:1500] + "\n...\n" + msg[len(msg)-1500:]
			}
			return histRec{History: h, Obs: obs, Error: fmt.Sprintf("child failed at step >= %d: %v\n%s", from, err, msg)}
		}
		var out childOut
		if err := json.Unmarshal(raw, &out); err != nil {
			return histRec{History: h, Obs: obs, Error: err.Error()}
		}
		steps = append(steps, out.Steps...)
		obs = append(obs, out.Obs...)
		state = &out.State
		from = out.Next
		if out.Halt != "" {
			halt = out.Halt
			break
		}
	}
	h.Steps = steps // as executed; truncated after a halt
	return histRec{History: h, Obs: obs, Halt: halt, Coq: coqHistory(h, obs)}
}

// runHistories runs the histories in parallel and emits them in order.
func runHistories(t *testing.T, r *run, hs []History) {
	scratch, err := os.MkdirTemp(filepath.Dir(os.Getenv("VERIF_OUT")), "hist-")
	if err != nil {
		t.Fatal(err)
	}
	defer os.RemoveAll(scratch)
	workers := r.argInt("workers", 16)
	recs := make([]histRec, len(hs))
	var wg sync.WaitGroup
	ch := make(chan int)
	for w := 0; w < workers; w++ {
		wg.Add(1)
		go func() {
			defer wg.Done()
			for i := range ch {
				recs[i] = runHistory(hs[i], scratch)
			}
		}()
	}
	for i := range hs {
		ch <- i
	}
	close(ch)
	wg.Wait()
	for _, rec := range recs {
		r.emit(rec)
	}
}

// A replay: VERIF_ARGS file=<path to a JSON file with a list of histories>.
func init() {
	families["replay"] = func(t *testing.T, r *run) {
		raw, err := os.ReadFile(r.arg("file", ""))
		if err != nil {
			t.Fatal(err)
		}
		var hs []History
		if err := json.Unmarshal(raw, &hs); err != nil {
			t.Fatal(err)
		}
		runHistories(t, r, hs)
	}
}
