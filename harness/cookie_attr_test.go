package harness

// Family cookieattr (C18, and the jar clauses of C07/C03): for every cookie
// template of cookieTemplate (and the same with Partitioned set), the flows
// creation / nothing-to-set / rotation / redirect from a replaced ID / LogIn /
// RegenerateID / Destroy with the request cookie / miss / miss and creation /
// creation and Destroy in one response (no request cookie) / dangling
// reference / stale session, run against the real package. Every Set-Cookie
// line is parsed into fields, and after every response the content of a real
// RFC 6265 cookie store (net/http/cookiejar) of each browser tab is read back.
// The check stage (checks/cookie_attr.py) evaluates Model/Cookie.v's render and
// jar_apply on the same (name, template, abstract cookies) and compares field
// by field.
//
// VERIF_N: number of templates (0 or >= 3456: all of them; otherwise a seeded
// selection). VERIF_ARGS: only=<tmpl> runs a single template (replay),
// url=<index> fixes the request URL.

import (
	"fmt"
	"io"
	"log"
	"net/http"
	"net/http/cookiejar"
	"net/http/httptest"
	"net/url"
	"strconv"
	"strings"
	"sync"
	"testing"
	"time"

	"github.com/rivo/sessions"
)

func init() {
	families["cookieattr"] = cookieAttrFamily
}

const cookieAttrTemplates = 2 * 1728

// cookieAttrTemplate: cookieTemplate's combinations, and from 1728 on the same
// with Partitioned.
func cookieAttrTemplate(tmpl int) (name string, c http.Cookie) {
	name, c = cookieTemplate(tmpl % 1728)
	c.Partitioned = (tmpl/1728)%2 == 1
	return
}

var cookieAttrURLs = []struct{ url, host, defpath string }{
	{"https://www.example.com/app/sub/page", "www.example.com", "/app/sub"},
	{"https://example.com/app/page", "example.com", "/app"},
	{"https://a.b.example.com/app/x/y/z?q=1", "a.b.example.com", "/app/x/y"},
}

type caCookie struct {
	Name        string `json:"name"`
	Value       string `json:"value"`
	Domain      string `json:"domain"`
	Path        string `json:"path"`
	Secure      bool   `json:"secure"`
	HttpOnly    bool   `json:"httponly"`
	Partitioned bool   `json:"partitioned"`
	SameSite    int    `json:"samesite"`
	MaxAge      int    `json:"maxage"`
	Expires     *int64 `json:"expires"` // Unix seconds; nil: none
}

type caResp struct {
	Flow     string     `json:"flow"`
	Tabs     []int      `json:"tabs"`
	Expected []string   `json:"expected"` // "live:<ordinal>" | "delete"
	Lines    []string   `json:"lines"`    // the Set-Cookie lines as written
	Observed []caCookie `json:"observed"`
	Jars     []string   `json:"jars"`  // per tab: "none" | "id:<ordinal>" | "other:<n>"
	Extra    []string   `json:"extra"` // anything a field-wise comparison would not see
	Result   string     `json:"result"`
}

type caRec struct {
	Case     int      `json:"case"`
	Tmpl     int      `json:"tmpl"`
	Name     string   `json:"name"`
	Shared   bool     `json:"shared"`
	URL      int      `json:"url"`
	Template caCookie `json:"template"`
	Now      int64    `json:"now"`
	Resps    []caResp `json:"resps"`
	Error    string   `json:"error,omitempty"`
	Coq      string   `json:"coq"`
}

// caStore is an in-memory persistence layer keeping the session objects.
type caStore struct {
	mu sync.Mutex
	m  map[string]*sessions.Session
}

func coqStr(s string) string { return `"` + strings.ReplaceAll(s, `"`, `""`) + `"` }

func coqOptZ(p *int64) string {
	if p == nil {
		return "None"
	}
	return "(Some (" + strconv.FormatInt(*p, 10) + ")%Z)"
}

func cookieAttrFamily(t *testing.T, r *run) {
	log.SetOutput(io.Discard)
	var tmpls []int
	if only := r.argInt("only", -1); only >= 0 {
		tmpls = []int{only}
	} else {
		perm := r.rng.Perm(cookieAttrTemplates)
		n := r.n
		if n <= 0 || n > cookieAttrTemplates {
			n = cookieAttrTemplates
		}
		tmpls = perm[:n]
	}
	for i, tm := range tmpls {
		u := r.argInt("url", -1)
		if u < 0 {
			u = r.rng.IntN(len(cookieAttrURLs))
		}
		rec := cookieAttrCase(i, tm, u)
		r.emit(rec)
	}
}

func cookieAttrCase(idx, tm, urlIdx int) (rec caRec) {
	name, tmpl := cookieAttrTemplate(tm)
	ux := cookieAttrURLs[urlIdx]
	u, _ := url.Parse(ux.url)
	rec = caRec{Case: idx, Tmpl: tm, Name: name, Shared: tm%5 == 0, URL: urlIdx, Now: time.Now().Unix()}
	defer func() {
		if p := recover(); p != nil {
			rec.Error = fmt.Sprintf("panic: %v", p)
		}
	}()

	// the package under the template
	store := &caStore{m: map[string]*sessions.Session{}}
	sessions.Persistence = sessions.ExtendablePersistenceLayer{
		LoadSessionFunc: func(id string) (*sessions.Session, error) {
			store.mu.Lock()
			defer store.mu.Unlock()
			return store.m[id], nil
		},
		SaveSessionFunc: func(id string, s *sessions.Session) error {
			store.mu.Lock()
			defer store.mu.Unlock()
			store.m[id] = s
			return nil
		},
		DeleteSessionFunc: func(id string) error {
			store.mu.Lock()
			defer store.mu.Unlock()
			delete(store.m, id)
			return nil
		},
		UserSessionsFunc: func(interface{}) ([]string, error) { return nil, nil },
		LoadUserFunc:     func(id interface{}) (sessions.User, error) { return hUser{ID: 7}, nil },
	}
	sessions.SessionCookie = name
	sessions.NewSessionCookie = func() *http.Cookie { c := tmpl; return &c }
	if rec.Shared {
		shared := tmpl
		sessions.NewSessionCookie = func() *http.Cookie { return &shared }
	}
	sessions.SessionExpiry = time.Hour
	sessions.SessionIDExpiry = time.Hour
	sessions.SessionIDGracePeriod = time.Hour
	sessions.SessionCacheExpiry = time.Hour
	sessions.MaxSessionCacheSize = 100
	sessions.AcceptRemoteIP = 1
	sessions.AcceptChangingUserAgent = true
	sessions.VerifReset()

	rec.Template = caFields(&http.Cookie{Domain: tmpl.Domain, Path: tmpl.Path, Secure: tmpl.Secure, HttpOnly: tmpl.HttpOnly,
		Partitioned: tmpl.Partitioned, SameSite: tmpl.SameSite, MaxAge: tmpl.MaxAge, Expires: tmpl.Expires})

	// session IDs by order of first appearance on a session object
	ords := map[string]int{}
	ord := func(s *sessions.Session) int {
		id := sessions.VerifView(s).ID
		if _, ok := ords[id]; !ok {
			ords[id] = len(ords)
		}
		return ords[id]
	}
	live := func(s *sessions.Session) string { return "live:" + strconv.Itoa(ord(s)) }

	// three browser tabs, each a real cookie store
	tabs := make([]http.CookieJar, 3)
	for i := range tabs {
		tabs[i], _ = cookiejar.New(nil)
	}
	request := func(tab int) *http.Request {
		req := httptest.NewRequest("GET", ux.url, nil)
		req.RemoteAddr = "192.0.2.7:4711"
		req.Header.Set("User-Agent", "cookieattr")
		if tab >= 0 {
			for _, c := range tabs[tab].Cookies(u) {
				req.AddCookie(c)
			}
		}
		return req
	}
	jarOf := func(tab int) string {
		var vals []string
		for _, c := range tabs[tab].Cookies(u) {
			if c.Name == name {
				vals = append(vals, c.Value)
			}
		}
		switch {
		case len(vals) == 0:
			return "none"
		case len(vals) > 1:
			return "other:" + strconv.Itoa(len(vals))
		}
		if o, ok := ords[vals[0]]; ok {
			return "id:" + strconv.Itoa(o)
		}
		return "other:0"
	}
	// finish one response: parse its Set-Cookie lines, hand them to the tabs
	finish := func(flow string, w *httptest.ResponseRecorder, to []int, expected []string, result string) {
		rp := caResp{Flow: flow, Tabs: to, Expected: expected, Lines: w.Header()["Set-Cookie"], Result: result,
			Observed: []caCookie{}, Jars: []string{}, Extra: []string{}}
		if rp.Expected == nil {
			rp.Expected = []string{}
		}
		if rp.Lines == nil {
			rp.Lines = []string{}
		}
		var parsed []*http.Cookie
		for li, line := range rp.Lines {
			c, err := http.ParseSetCookie(line)
			if err != nil {
				rp.Extra = append(rp.Extra, fmt.Sprintf("line %d does not parse: %v", li, err))
				continue
			}
			parsed = append(parsed, c)
			f := caFields(c)
			if o, ok := ords[c.Value]; ok {
				f.Value = "id:" + strconv.Itoa(o)
			} else {
				f.Value = "text:" + c.Value
			}
			rp.Observed = append(rp.Observed, f)
			if len(c.Unparsed) > 0 {
				rp.Extra = append(rp.Extra, fmt.Sprintf("line %d has unknown attributes %q", li, c.Unparsed))
			}
			if c.Quoted {
				rp.Extra = append(rp.Extra, fmt.Sprintf("line %d has a quoted value", li))
			}
			if strings.HasPrefix(f.Value, "id:") && len(c.Value) != 24 {
				rp.Extra = append(rp.Extra, fmt.Sprintf("line %d: an ID of %d characters", li, len(c.Value)))
			}
		}
		for _, tb := range to {
			tabs[tb].SetCookies(u, parsed)
		}
		for _, tb := range to {
			rp.Jars = append(rp.Jars, jarOf(tb))
		}
		rec.Resps = append(rec.Resps, rp)
	}
	resultOf := func(s *sessions.Session, err error) string {
		switch {
		case err != nil:
			return "error: " + err.Error()
		case s == nil:
			return "nil"
		}
		return "session " + strconv.Itoa(ord(s))
	}

	// 1. creation: all three tabs share the first cookie
	w := httptest.NewRecorder()
	req := request(-1)
	s, err := sessions.Start(w, req, true)
	if err != nil || s == nil {
		rec.Error = fmt.Sprintf("creation failed: %v", err)
		return
	}
	finish("create", w, []int{0, 1, 2}, []string{live(s)}, resultOf(s, err))

	// 2. the current ID, nothing due: nothing is set
	w, req = httptest.NewRecorder(), request(0)
	s, err = sessions.Start(w, req, true)
	finish("plain", w, []int{0}, []string{}, resultOf(s, err))

	// 3. rotation by Start (the ID is due); tab 1 keeps the replaced ID
	sessions.SessionIDExpiry = 0
	w, req = httptest.NewRecorder(), request(0)
	s, err = sessions.Start(w, req, false)
	sessions.SessionIDExpiry = time.Hour
	if err != nil || s == nil {
		rec.Error = fmt.Sprintf("rotation failed: %v", err)
		return
	}
	finish("rotate", w, []int{0, 2}, []string{live(s)}, resultOf(s, err))

	// 4. tab 1 presents the replaced ID: redirected to the current one
	w, req = httptest.NewRecorder(), request(1)
	s1, err := sessions.Start(w, req, false)
	if err != nil || s1 == nil {
		rec.Error = fmt.Sprintf("redirect failed: %v", err)
		return
	}
	finish("redirect", w, []int{1}, []string{live(s1)}, resultOf(s1, err))

	// 5. LogIn (tab 0); tabs 1 and 2 keep the ID replaced here
	w, req = httptest.NewRecorder(), request(0)
	s, err = sessions.Start(w, req, false)
	if err != nil || s == nil {
		rec.Error = fmt.Sprintf("start before login failed: %v", err)
		return
	}
	if err = s.LogIn(hUser{ID: 7}, false, w); err != nil {
		rec.Error = fmt.Sprintf("login failed: %v", err)
		return
	}
	finish("login", w, []int{0}, []string{live(s)}, resultOf(s, err))

	// 6. RegenerateID by the handler
	w, req = httptest.NewRecorder(), request(0)
	s, err = sessions.Start(w, req, false)
	if err != nil || s == nil {
		rec.Error = fmt.Sprintf("start before regenerate failed: %v", err)
		return
	}
	if err = s.RegenerateID(w); err != nil {
		rec.Error = fmt.Sprintf("regenerate failed: %v", err)
		return
	}
	finish("regenerate", w, []int{0, 2}, []string{live(s)}, resultOf(s, err))

	// 7. Destroy with the request cookie (tab 0); tab 2 keeps the destroyed ID
	w, req = httptest.NewRecorder(), request(0)
	s, err = sessions.Start(w, req, false)
	if err != nil || s == nil {
		rec.Error = fmt.Sprintf("start before destroy failed: %v", err)
		return
	}
	if err = s.Destroy(w, req); err != nil {
		rec.Error = fmt.Sprintf("destroy failed: %v", err)
		return
	}
	finish("destroy", w, []int{0}, []string{"delete"}, "destroyed")

	// 8. tab 1 presents an ID replaced twice whose final session is gone
	w, req = httptest.NewRecorder(), request(1)
	s1, err = sessions.Start(w, req, true)
	finish("dangling", w, []int{1}, []string{}, resultOf(s1, err))

	// 9. tab 2 presents the destroyed ID, no session wanted: deletion only
	w, req = httptest.NewRecorder(), request(2)
	s1, err = sessions.Start(w, req, false)
	finish("miss", w, []int{}, []string{"delete"}, resultOf(s1, err))

	// 10. the same with createIfNew: deletion, then the new session's cookie
	w, req = httptest.NewRecorder(), request(2)
	s, err = sessions.Start(w, req, true)
	if err != nil || s == nil {
		rec.Error = fmt.Sprintf("creation after miss failed: %v", err)
		return
	}
	finish("miss-create", w, []int{2}, []string{"delete", live(s)}, resultOf(s, err))

	// 11. stale: Start destroys the session and expires the cookie
	sessions.SessionExpiry = 0
	w, req = httptest.NewRecorder(), request(2)
	s1, err = sessions.Start(w, req, false)
	sessions.SessionExpiry = time.Hour
	finish("stale", w, []int{2}, []string{"delete"}, resultOf(s1, err))

	// 12. no request cookie: creation and Destroy in the same response
	w, req = httptest.NewRecorder(), request(0)
	s, err = sessions.Start(w, req, true)
	if err != nil || s == nil {
		rec.Error = fmt.Sprintf("second creation failed: %v", err)
		return
	}
	exp := []string{live(s)}
	if err = s.Destroy(w, req); err != nil {
		rec.Error = fmt.Sprintf("destroy of a fresh session failed: %v", err)
		return
	}
	finish("create-destroy", w, []int{0}, append(exp, "delete"), "destroyed")

	rec.Coq = caCoq(&rec, ux.host, ux.defpath)
	return rec
}

func caFields(c *http.Cookie) caCookie {
	f := caCookie{Name: c.Name, Value: c.Value, Domain: c.Domain, Path: c.Path, Secure: c.Secure, HttpOnly: c.HttpOnly,
		Partitioned: c.Partitioned, SameSite: int(c.SameSite), MaxAge: c.MaxAge}
	if !c.Expires.IsZero() {
		e := c.Expires.Unix()
		f.Expires = &e
	}
	return f
}

func caCoq(rec *caRec, host, defpath string) string {
	t := rec.Template
	var b strings.Builder
	fmt.Fprintf(&b, "(mkACase %s (mkTmpl %s %s %s %s %s %d %s %s) (mkCtx %s %s) %s [", coqStr(rec.Name),
		coqStr(t.Domain), coqStr(t.Path), coqBool(t.Secure), coqBool(t.HttpOnly), coqBool(t.Partitioned), t.SameSite, coqZ(int64(t.MaxAge)), coqOptZ(t.Expires),
		coqStr(host), coqStr(defpath), coqZ(rec.Now))
	for i, rp := range rec.Resps {
		if i > 0 {
			b.WriteString("; ")
		}
		var tabs, exp, obs, jars []string
		for _, tb := range rp.Tabs {
			tabs = append(tabs, strconv.Itoa(tb))
		}
		for _, e := range rp.Expected {
			if e == "delete" {
				exp = append(exp, "CkDelete")
			} else {
				exp = append(exp, "CkLive (KGen "+strings.TrimPrefix(e, "live:")+")")
			}
		}
		for _, o := range rp.Observed {
			v := "VText " + coqStr(strings.TrimPrefix(o.Value, "text:"))
			if strings.HasPrefix(o.Value, "id:") {
				v = "VId (KGen " + strings.TrimPrefix(o.Value, "id:") + ")"
			}
			obs = append(obs, fmt.Sprintf("mkHC %s (%s) %s %s %s %s %s %d %s %s", coqStr(o.Name), v, coqStr(o.Domain), coqStr(o.Path),
				coqBool(o.Secure), coqBool(o.HttpOnly), coqBool(o.Partitioned), o.SameSite, coqZ(int64(o.MaxAge)), coqOptZ(o.Expires)))
		}
		for _, j := range rp.Jars {
			switch {
			case j == "none":
				jars = append(jars, "CNone")
			case strings.HasPrefix(j, "id:"):
				jars = append(jars, "CKey (KGen "+strings.TrimPrefix(j, "id:")+")")
			default:
				jars = append(jars, "COther "+strings.TrimPrefix(j, "other:"))
			}
		}
		fmt.Fprintf(&b, "mkAResp %s %s %s %s", coqList(tabs), coqList(exp), coqList(obs), coqList(jars))
	}
	b.WriteString("])")
	return b.String()
}
