package harness

// Families for C19 (generated identifiers): session IDs and RandomID through a
// recording replacement of crypto/rand.Reader, CUID under the virtual clock of
// testing/synctest with the generator state set and read through the hooks,
// concurrent CUID callers, net/http cookie round trips, and frequency counts
// on IDs drawn from the real crypto/rand.

import (
	crand "crypto/rand"
	"encoding/base64"
	"encoding/hex"
	"errors"
	"fmt"
	"io"
	"log"
	"net/http"
	"net/http/httptest"
	"sort"
	"strings"
	"sync"
	"testing"
	"testing/synctest"
	"time"

	"github.com/rivo/sessions"
)

func init() {
	families["sid"] = sidFamily
	families["cookie"] = cookieFamily
	families["rid"] = ridFamily
	families["cuid"] = cuidFamily
	families["cuidconc"] = cuidConcFamily
	families["idstats"] = idStatsFamily
}

// ---- recording reader ----

// recReader stands in for crypto/rand.Reader. It delivers a deterministic
// stream, at most chunk bytes per call, records what was taken, and can fail
// or deliver nothing once a number of bytes has been consumed.
type recReader struct {
	gen       func() byte
	buf       []byte // generated but not yet consumed
	chunk     int    // 0: as many as asked for
	failAfter int    // <0: never
	zeroAfter int    // <0: never
	consumed  []byte
	calls     int
}

func newRecReader(gen func() byte) *recReader {
	return &recReader{gen: gen, failAfter: -1, zeroAfter: -1}
}

func (r *recReader) fill(n int) {
	for len(r.buf) < n {
		r.buf = append(r.buf, r.gen())
	}
}

// peek returns the next n bytes of the stream without consuming them.
func (r *recReader) peek(n int) []byte {
	r.fill(n)
	return append([]byte(nil), r.buf[:n]...)
}

func (r *recReader) reset() { r.consumed, r.calls = nil, 0 }

func (r *recReader) Read(p []byte) (int, error) {
	r.calls++
	if r.failAfter >= 0 && len(r.consumed) >= r.failAfter {
		return 0, errors.New("reader failed")
	}
	if r.zeroAfter >= 0 && len(r.consumed) >= r.zeroAfter {
		return 0, nil
	}
	n := len(p)
	if r.chunk > 0 && n > r.chunk {
		n = r.chunk
	}
	if r.failAfter >= 0 && len(r.consumed)+n > r.failAfter {
		n = r.failAfter - len(r.consumed)
	}
	if r.zeroAfter >= 0 && len(r.consumed)+n > r.zeroAfter {
		n = r.zeroAfter - len(r.consumed)
	}
	r.fill(n)
	copy(p, r.buf[:n])
	r.consumed = append(r.consumed, r.buf[:n]...)
	r.buf = r.buf[n:]
	return n, nil
}

// withReader installs rr as crypto/rand.Reader for the duration of f.
func withReader(rr io.Reader, f func()) {
	old := crand.Reader
	crand.Reader = rr
	defer func() { crand.Reader = old }()
	f()
}

// streamGen returns a byte generator of the given pattern.
func streamGen(r *run, pattern string) func() byte {
	switch pattern {
	case "zero":
		return func() byte { return 0 }
	case "ff":
		return func() byte { return 0xff }
	case "sweep":
		var i byte
		return func() byte { b := i; i++; return b }
	case "sweepdown":
		i := byte(255)
		return func() byte { b := i; i--; return b }
	default:
		return func() byte { return byte(r.rng.UintN(256)) }
	}
}

// ---- net/http cookie round trip ----

// cookieRoundTrip renders a cookie with http.SetCookie on a recorder, takes the
// value as it stands in the Set-Cookie header, sends it back in a Cookie header
// and reads it with http.Request.Cookie.
func cookieRoundTrip(name, value string) (wire string, found bool, parsed string) {
	rec := httptest.NewRecorder()
	c := sessions.NewSessionCookie()
	c.Name = name
	c.Value = value
	http.SetCookie(rec, c)
	h := rec.Header().Get("Set-Cookie")
	if !strings.HasPrefix(h, name+"=") {
		panic(fmt.Sprintf("unexpected Set-Cookie header %q", h))
	}
	wire = h[len(name)+1:]
	if i := strings.IndexByte(wire, ';'); i >= 0 {
		wire = wire[:i]
	}
	found, parsed = cookieParse(name, wire)
	return
}

func cookieParse(name, wire string) (bool, string) {
	req := httptest.NewRequest("GET", "http://example.com/", nil)
	req.Header.Set("Cookie", name+"="+wire)
	got, err := req.Cookie(name)
	if err != nil {
		return false, ""
	}
	return true, got.Value
}

// ---- session IDs ----

type sidRec struct {
	Kind    string `json:"kind"`
	Pattern string `json:"pattern"`
	Chunk   int    `json:"chunk"`
	Offered string `json:"offered"` // hex: what the reader would deliver next
	Read    string `json:"read"`    // hex: what was taken
	Calls   int    `json:"calls"`
	ID      string `json:"id"`
	Wire    string `json:"wire"`
	Found   bool   `json:"found"`
	Parsed  string `json:"parsed"`
	Again   string `json:"again,omitempty"` // kind start: ID of the session the cookie led back to
	Coq     string `json:"coq"`
}

func sidFamily(t *testing.T, r *run) {
	log.SetOutput(io.Discard)
	patterns := []string{"random", "random", "random", "random", "zero", "ff", "sweep", "sweepdown"}
	chunks := []int{0, 0, 1, 3, 5, 16, 17, 7}
	for i := 0; i < r.n; i++ {
		pat := patterns[i%len(patterns)]
		if i >= 64 {
			pat = "random"
		}
		rr := newRecReader(streamGen(r, pat))
		rr.chunk = chunks[(i/len(patterns))%len(chunks)]
		offered := rr.peek(40)
		kind := "hook"
		if i%5 == 4 {
			kind = "start"
		}
		var id, again string
		withReader(rr, func() {
			if kind == "hook" {
				var err error
				id, err = sessions.VerifNewSessionID()
				if err != nil {
					t.Fatalf("generateSessionID: %v", err)
				}
				return
			}
			// the public way: a first request creates a session, the ID is
			// in the Set-Cookie header; a second request with that cookie
			// leads back to the same session
			rec := httptest.NewRecorder()
			req := httptest.NewRequest("GET", "http://example.com/", nil)
			req.RemoteAddr = "10.1.2.3:4567"
			s, err := sessions.Start(rec, req, true)
			if err != nil || s == nil {
				t.Fatalf("Start: %v %v", s, err)
			}
			id = sessions.VerifView(s).ID
			var fromHeader string
			for _, c := range rec.Result().Cookies() {
				if c.Name == sessions.SessionCookie {
					fromHeader = c.Value
				}
			}
			if fromHeader != id {
				// reported through the record: the model check compares wire and ID
				id = fromHeader
			}
			taken := len(rr.consumed)
			req2 := httptest.NewRequest("GET", "http://example.com/", nil)
			req2.RemoteAddr = "10.1.2.3:4567"
			req2.AddCookie(&http.Cookie{Name: sessions.SessionCookie, Value: id})
			s2, err := sessions.Start(httptest.NewRecorder(), req2, false)
			if err == nil && s2 != nil {
				again = sessions.VerifView(s2).ID
			}
			if len(rr.consumed) != taken {
				again += "+reread"
			}
		})
		wire, found, parsed := cookieRoundTrip(sessions.SessionCookie, id)
		rec := sidRec{Kind: kind, Pattern: pat, Chunk: rr.chunk, Offered: hex.EncodeToString(offered),
			Read: hex.EncodeToString(rr.consumed), Calls: rr.calls, ID: id, Wire: wire, Found: found, Parsed: parsed, Again: again}
		if !found {
			parsed = "\x00not found"
		}
		rec.Coq = fmt.Sprintf("{| sc_offered := %s; sc_nread := %d; sc_id := %s; sc_wire := %s; sc_parsed := %s |}",
			coqBytes(offered), len(rr.consumed), coqBytes([]byte(id)), coqBytes([]byte(wire)), coqBytes([]byte(parsed)))
		r.emit(rec)
	}
}

// ---- arbitrary cookie values against the model of net/http's rules ----

type cookieRec struct {
	Kind   string `json:"kind"`
	Value  string `json:"value"` // hex
	Wire   string `json:"wire"`  // hex
	Found  bool   `json:"found"`
	Parsed string `json:"parsed"` // hex
	Coq    string `json:"coq"`
}

func cookieFamily(t *testing.T, r *run) {
	log.SetOutput(io.Discard)
	special := []byte{' ', ',', '"', ';', '\\', 0x7f, 0x1f, 0x80, 0xff, '=', '+', '/', 0x20, 0x21, 0x7e}
	randByte := func() byte {
		switch r.rng.IntN(4) {
		case 0:
			return special[r.rng.IntN(len(special))]
		case 1:
			return byte(r.rng.UintN(256))
		default:
			return byte(0x21 + r.rng.IntN(0x5e))
		}
	}
	for i := 0; i < r.n; i++ {
		n := r.rng.IntN(12)
		if i%7 == 0 {
			n = r.rng.IntN(3)
		}
		v := make([]byte, n)
		for j := range v {
			v[j] = randByte()
		}
		rec := cookieRec{Value: hex.EncodeToString(v)}
		if i%3 == 2 {
			// a raw value in a Cookie header (bytes that the header syntax
			// itself would cut or trim are left out)
			rec.Kind = "raw"
			for j := range v {
				for v[j] == ';' || v[j] == ' ' || v[j] == '\t' || v[j] == '\n' || v[j] == '\r' {
					v[j] = randByte()
				}
			}
			if r.rng.IntN(3) == 0 && len(v) > 0 {
				v = append(append([]byte{'"'}, v...), '"')
			}
			rec.Value = hex.EncodeToString(v)
			found, parsed := cookieParse("id", string(v))
			rec.Wire, rec.Found, rec.Parsed = rec.Value, found, hex.EncodeToString([]byte(parsed))
			rec.Coq = fmt.Sprintf("{| ck_via_set := false; ck_value := %s; ck_wire := %s; ck_found := %s; ck_parsed := %s |}",
				coqBytes(v), coqBytes(v), coqBool(found), coqBytes([]byte(parsed)))
		} else {
			rec.Kind = "set"
			wire, found, parsed := cookieRoundTrip("id", string(v))
			rec.Wire, rec.Found, rec.Parsed = hex.EncodeToString([]byte(wire)), found, hex.EncodeToString([]byte(parsed))
			rec.Coq = fmt.Sprintf("{| ck_via_set := true; ck_value := %s; ck_wire := %s; ck_found := %s; ck_parsed := %s |}",
				coqBytes(v), coqBytes([]byte(wire)), coqBool(found), coqBytes([]byte(parsed)))
		}
		r.emit(rec)
	}
}

// ---- RandomID ----

type ridRec struct {
	Kind    string `json:"kind"`
	N       int    `json:"n"`
	Pattern string `json:"pattern"`
	Offered string `json:"offered"` // hex
	Read    string `json:"read"`    // hex
	Calls   int    `json:"calls"`
	Err     bool   `json:"err"`
	ErrText string `json:"errtext,omitempty"`
	ID      string `json:"id"`
	Coq     string `json:"coq,omitempty"`
}

func ridFamily(t *testing.T, r *run) {
	mode := r.arg("mode", "spread")
	coqMax := r.argInt("coqmax", 512)
	var ns []int
	spread := []int{0, 1, 2, 3, 5, 8, 11, 16, 21, 22, 23, 32, 61, 62, 63, 64, 100, 123, 124, 125, 128, 186, 187,
		255, 256, 257, 500, 511, 512, 513, 1000, 1023, 1024, 1025, 2048, 3000, 4095, 4096}
	inSpread := map[int]bool{}
	for _, n := range spread {
		inSpread[n] = true
	}
	if mode == "all" {
		for n := r.argInt("lo", 0); n <= r.argInt("hi", 4096); n++ {
			ns = append(ns, n)
		}
	} else {
		ns = append(ns, spread...)
		for i := 0; i < r.n; i++ {
			if i%2 == 0 {
				ns = append(ns, r.rng.IntN(80))
			} else {
				ns = append(ns, r.rng.IntN(4097))
			}
		}
	}
	one := func(kind string, n int, pat string, setup func(rr *recReader), extra int) {
		rr := newRecReader(streamGen(r, pat))
		if setup != nil {
			setup(rr)
		}
		var offered []byte
		switch {
		case rr.failAfter >= 0:
			offered = rr.peek(rr.failAfter)
		case rr.zeroAfter >= 0:
			offered = rr.peek(rr.zeroAfter)
		default:
			offered = rr.peek(n + extra)
		}
		var id string
		var err error
		withReader(rr, func() { id, err = sessions.RandomID(n) })
		rec := ridRec{Kind: kind, N: n, Pattern: pat, Offered: hex.EncodeToString(offered), Read: hex.EncodeToString(rr.consumed),
			Calls: rr.calls, Err: err != nil, ID: id}
		if err != nil {
			rec.ErrText = err.Error()
		}
		if n <= coqMax || inSpread[n] || kind != "plain" {
			rec.Coq = fmt.Sprintf("{| rc_n := %d; rc_offered := %s; rc_nread := %d; rc_err := %s; rc_id := %s |}",
				n, coqBytes(offered), len(rr.consumed), coqBool(err != nil), coqBytes([]byte(id)))
		}
		r.emit(rec)
	}
	// every byte value once, in both orders: the whole byte -> symbol map
	one("sweep", 256, "sweep", nil, 8)
	one("sweep", 256, "sweepdown", nil, 8)
	one("sweep", 64, "zero", nil, 8)
	one("sweep", 64, "ff", nil, 8)
	for _, n := range ns {
		one("plain", n, "random", nil, 8)
	}
	// the reader fails, or delivers nothing, after k < n bytes
	for i := 0; i < 12; i++ {
		n := 1 + r.rng.IntN(40)
		k := r.rng.IntN(n)
		if i%2 == 0 {
			one("fail", n, "random", func(rr *recReader) { rr.failAfter = k }, 0)
		} else {
			one("empty-read", n, "random", func(rr *recReader) { rr.zeroAfter = k }, 0)
		}
	}
}

// ---- CUID ----

type cuidRec struct {
	Kind  string `json:"kind"`
	Run   int    `json:"run"`  // calls of one run follow each other without the state being set in between
	Proc  int    `json:"proc"` // a new virtual clock (bubble) starts a new proc
	Mac   string `json:"mac"`
	Lt    uint64 `json:"lt"`
	Lc    uint64 `json:"lc"`
	Sec   int64  `json:"sec"`
	Nsec  int    `json:"nsec"`
	ID    string `json:"id"`
	Lt2   uint64 `json:"lt2"`
	Lc2   uint64 `json:"lc2"`
	Coq   string `json:"coq,omitempty"`
	NoCoq bool   `json:"nocoq,omitempty"`
}

var refDate = time.Date(2017, 1, 1, 0, 0, 0, 0, time.UTC)

type cuidDriver struct {
	r      *run
	run    int
	proc   int
	coqOff bool
}

// call performs one CUID call and records it with the state around it.
func (d *cuidDriver) call(kind string) string {
	lt, lc, mac := sessions.VerifCUIDState()
	now := time.Now()
	id := sessions.CUID()
	lt2, lc2, _ := sessions.VerifCUIDState()
	rec := cuidRec{Kind: kind, Run: d.run, Proc: d.proc, Mac: hex.EncodeToString(mac[:]), Lt: lt, Lc: lc,
		Sec: now.Unix(), Nsec: now.Nanosecond(), ID: id, Lt2: lt2, Lc2: lc2}
	if d.coqOff {
		rec.NoCoq = true
	} else {
		rec.Coq = fmt.Sprintf("{| cc_mac := %s; cc_lt := %d; cc_lc := %d; cc_sec := (%d)%%Z; cc_nsec := %d; cc_id := %s; cc_lt' := %d; cc_lc' := %d |}",
			coqBytes(mac[:]), lt, lc, now.Unix(), now.Nanosecond(), coqBytes([]byte(id)), lt2, lc2)
	}
	d.r.emit(rec)
	return id
}

func (d *cuidDriver) set(lt, lc uint64, mac [6]byte) {
	sessions.VerifSetCUIDState(lt, lc, mac)
	d.run++
}

// sleepTo advances the virtual clock to t (no-op if t is not in the future).
func sleepTo(t time.Time) {
	if d := time.Until(t); d > 0 {
		time.Sleep(d)
	}
}

// bubble runs f under a fresh virtual clock (2000-01-01T00:00:00Z).
func (d *cuidDriver) bubble(t *testing.T, f func()) {
	d.proc++
	d.run++
	synctest.Test(t, func(t *testing.T) { f() })
}

func cuidFamily(t *testing.T, r *run) {
	d := &cuidDriver{r: r}
	burst := r.argInt("burst", 600)
	burstCoq := r.argInt("burstcoq", 1) == 1
	only := r.arg("only", "")
	macs := [][6]byte{{}, {0xff, 0xff, 0xff, 0xff, 0xff, 0xff}, {2, 4, 6, 8, 10, 12}, {0x00, 0x1b, 0x44, 0x11, 0x3a, 0xb7}}
	randMac := func() [6]byte {
		if r.rng.IntN(3) == 0 {
			return macs[r.rng.IntN(len(macs))]
		}
		var m [6]byte
		for i := range m {
			m[i] = byte(r.rng.UintN(256))
		}
		return m
	}
	ms := func(n int64) time.Time { return refDate.Add(time.Duration(n) * time.Millisecond) }
	burstScenario := func() {
		// many calls while the clock stands still: the counter crosses 255
		// (and 65535 when burst allows) without any help from the hooks
		d.bubble(t, func() {
			sleepTo(ms(94644000000 + 12345))
			d.set(0, 0, macs[3])
			d.coqOff = !burstCoq
			for i := 0; i < burst; i++ {
				d.call("burst")
			}
			d.coqOff = false
		})
	}
	if only == "burst" {
		burstScenario()
		return
	}

	// 1. the machine's own address and state as the package initialised them
	d.bubble(t, func() {
		d.call("initial")
		d.call("initial")
		time.Sleep(time.Millisecond)
		d.call("initial")
	})

	// 2. across 2017-01-01 (wrap of the subtraction) and across the 2^40 ms
	// mask, starting from the bubble's 2000-01-01
	d.bubble(t, func() {
		d.set(0, 0, macs[2])
		d.call("epoch")
		for _, off := range []int64{-3600000, -2, -1, 0, 1, 2, 1000, 1 << 20, (1 << 40) - 2, (1 << 40) - 1, 1 << 40, (1 << 40) + 1, (1 << 41) - 1, 1 << 41} {
			sleepTo(ms(off))
			d.call("epoch")
			d.call("epoch")
			time.Sleep(400 * time.Microsecond)
			d.call("epoch")
			time.Sleep(700 * time.Microsecond)
			d.call("epoch")
		}
	})

	// 3. counter boundaries, the state set through the hook to the
	// millisecond the clock shows
	bounds := []uint64{0, 1, 126, 127, 253, 254, 255, 256, 511, 65533, 65534, 65535, 65536, 1<<24 - 3, 1<<24 - 2, 1<<24 - 1, 1 << 24,
		1<<32 - 2, 1<<40 - 1, 1<<63 - 1, 1<<64 - 3, 1<<64 - 2, 1<<64 - 1}
	d.bubble(t, func() {
		sleepTo(ms(94644000000)) // 2020-01-01T10:00:00Z
		for _, mac := range macs {
			for _, b := range bounds {
				d.set(0, 0, mac)
				d.call("spill-probe") // learn the current timestamp from the state
				lt, _, _ := sessions.VerifCUIDState()
				d.set(lt, b, mac)
				for k := 0; k < 4; k++ {
					d.call("spill")
				}
				time.Sleep(time.Millisecond)
				d.call("spill-next-ms")
			}
		}
	})

	// 4. random states, addresses and clock steps
	for s := 0; s < 8; s++ {
		d.bubble(t, func() {
			sleepTo(ms(r.rng.Int64N(1 << 41)))
			for i := 0; i < r.n/8; i++ {
				if r.rng.IntN(4) == 0 {
					lt, _, _ := sessions.VerifCUIDState()
					if r.rng.IntN(3) == 0 {
						lt = r.rng.Uint64() & (1<<40 - 1)
					}
					var lc uint64
					switch r.rng.IntN(5) {
					case 0:
						lc = bounds[r.rng.IntN(len(bounds))]
					case 1:
						lc = r.rng.Uint64()
					case 2:
						lc = uint64(r.rng.IntN(1 << 17))
					case 3:
						lc = uint64(r.rng.IntN(1 << 25))
					}
					d.set(lt, lc, randMac())
				}
				switch r.rng.IntN(6) {
				case 0:
					time.Sleep(time.Duration(r.rng.IntN(1000)) * time.Microsecond)
				case 1:
					time.Sleep(time.Millisecond)
				case 2:
					time.Sleep(time.Duration(1+r.rng.Int64N(5000)) * time.Millisecond)
				case 3:
					if r.rng.IntN(10) == 0 {
						time.Sleep(time.Duration(r.rng.Int64N(int64(400 * 24 * time.Hour))))
					}
				}
				d.call("random")
			}
		})
	}

	// 5. many calls in one millisecond
	burstScenario()

	// 6. observation outside the property's scope: the clock goes back to a
	// millisecond that was used before (a new bubble starts in 2000 again)
	d.bubble(t, func() {
		d.set(0, 0, macs[2])
		sleepTo(ms(94644000000))
		d.call("clock-back-first")
		time.Sleep(time.Millisecond)
		d.call("clock-back-second")
	})
	d.proc-- // same process, same generator state: only the clock went back
	d.bubble(t, func() {
		d.run--
		sleepTo(ms(94644000000))
		d.call("clock-back-third")
	})
}

// ---- concurrent CUID callers ----

type concRec struct {
	Kind       string   `json:"kind"`
	Goroutines int      `json:"goroutines"`
	PerCaller  int      `json:"per_caller"`
	Mac        string   `json:"mac"`
	Lt         uint64   `json:"lt"`
	Lc         uint64   `json:"lc"`
	Sec        int64    `json:"sec"`
	Nsec       int      `json:"nsec"`
	IDs        []string `json:"ids"` // sorted
	Lt2        uint64   `json:"lt2"`
	Lc2        uint64   `json:"lc2"`
	Coq        string   `json:"coq,omitempty"`
}

func concurrentCUIDs(k, m int) []string {
	results := make([][]string, k)
	var wg sync.WaitGroup
	start := make(chan struct{})
	for g := 0; g < k; g++ {
		wg.Add(1)
		go func(g int) {
			defer wg.Done()
			<-start
			ids := make([]string, 0, m)
			for i := 0; i < m; i++ {
				ids = append(ids, sessions.CUID())
			}
			results[g] = ids
		}(g)
	}
	close(start)
	wg.Wait()
	var all []string
	for _, ids := range results {
		all = append(all, ids...)
	}
	sort.Strings(all)
	return all
}

func cuidConcFamily(t *testing.T, r *run) {
	mode := r.arg("mode", "frozen")
	per := r.argInt("per", 40)
	var ks []int
	if r.arg("ks", "some") == "all" {
		for k := 1; k <= 64; k++ {
			ks = append(ks, k)
		}
	} else {
		ks = []int{1, 2, 3, 7, 16, 33, 64}
	}
	for _, k := range ks {
		if mode == "real" {
			// wall clock, no virtual time: only distinctness can be judged
			lt, lc, mac := sessions.VerifCUIDState()
			now := time.Now()
			ids := concurrentCUIDs(k, per)
			lt2, lc2, _ := sessions.VerifCUIDState()
			r.emit(concRec{Kind: "real", Goroutines: k, PerCaller: per, Mac: hex.EncodeToString(mac[:]), Lt: lt, Lc: lc,
				Sec: now.Unix(), Nsec: now.Nanosecond(), IDs: ids, Lt2: lt2, Lc2: lc2})
			continue
		}
		synctest.Test(t, func(t *testing.T) {
			// the virtual clock stands still while any caller is runnable
			sleepTo(refDate.Add(time.Duration(r.rng.Int64N(1<<40)) * time.Millisecond))
			var mac [6]byte
			for i := range mac {
				mac[i] = byte(r.rng.UintN(256))
			}
			lt, lc := uint64(0), uint64(0)
			switch k % 3 {
			case 1: // continue in the current millisecond, just below a spill
				sessions.CUID()
				lt, _, _ = sessions.VerifCUIDState()
				lc = []uint64{250, 65530, 1<<24 - 20}[r.rng.IntN(3)]
			case 2:
				lc = r.rng.Uint64()
			}
			sessions.VerifSetCUIDState(lt, lc, mac)
			now := time.Now()
			ids := concurrentCUIDs(k, per)
			after := time.Now()
			lt2, lc2, _ := sessions.VerifCUIDState()
			if !after.Equal(now) {
				panic("virtual clock moved during the concurrent calls")
			}
			idl := make([][]byte, len(ids))
			for i, s := range ids {
				idl[i] = []byte(s)
			}
			coq := fmt.Sprintf("{| kc_mac := %s; kc_lt := %d; kc_lc := %d; kc_sec := (%d)%%Z; kc_nsec := %d; kc_count := %d; kc_ids := %s; kc_lt' := %d; kc_lc' := %d |}",
				coqBytes(mac[:]), lt, lc, now.Unix(), now.Nanosecond(), k*per, coqBytesList(idl), lt2, lc2)
			r.emit(concRec{Kind: "frozen", Goroutines: k, PerCaller: per, Mac: hex.EncodeToString(mac[:]), Lt: lt, Lc: lc,
				Sec: now.Unix(), Nsec: now.Nanosecond(), IDs: ids, Lt2: lt2, Lc2: lc2, Coq: coq})
		})
	}
}

// ---- frequency counts on IDs from the real crypto/rand (supporting tests) ----

func idStatsFamily(t *testing.T, r *run) {
	n := r.n
	ridLen := r.argInt("ridlen", 22)
	bitOnes := make([]int, 128)
	seen := make(map[[16]byte]struct{}, n)
	dups, bad := 0, 0
	for i := 0; i < n; i++ {
		id, err := sessions.VerifNewSessionID()
		if err != nil {
			t.Fatal(err)
		}
		raw, err := base64.StdEncoding.DecodeString(id)
		if err != nil {
			// which of the two base64 alphabets is used is for the model comparison to say
			raw, err = base64.URLEncoding.DecodeString(id)
		}
		if err != nil || len(raw) != 16 || len(id) != 24 {
			bad++
			continue
		}
		var key [16]byte
		copy(key[:], raw)
		if _, ok := seen[key]; ok {
			dups++
		}
		seen[key] = struct{}{}
		for b := 0; b < 128; b++ {
			if raw[b/8]&(0x80>>(b%8)) != 0 {
				bitOnes[b]++
			}
		}
	}
	seen = nil
	symbols := map[string]int{}
	ridSeen := make(map[string]struct{}, n)
	ridDups, ridBad := 0, 0
	for i := 0; i < n; i++ {
		id, err := sessions.RandomID(ridLen)
		if err != nil {
			t.Fatal(err)
		}
		if len(id) != ridLen {
			ridBad++
		}
		if _, ok := ridSeen[id]; ok {
			ridDups++
		}
		ridSeen[id] = struct{}{}
		for j := 0; j < len(id); j++ {
			symbols[id[j:j+1]]++
		}
	}
	ridSeen = nil
	cuidSeen := make(map[string]struct{}, n)
	cuidDups, cuidBad, cuidUnordered := 0, 0, 0
	prev := ""
	prevMs := int64(-1)
	for i := 0; i < n; i++ {
		before := time.Now().UnixMilli()
		id := sessions.CUID()
		if len(id) != 11 {
			cuidBad++
		}
		if _, ok := cuidSeen[id]; ok {
			cuidDups++
		}
		cuidSeen[id] = struct{}{}
		// prev was generated no later than prevMs' end; this one not before `before`
		if prev != "" && before > prevMs && !(prev < id) {
			cuidUnordered++
		}
		prev, prevMs = id, time.Now().UnixMilli()
	}
	r.emit(map[string]interface{}{
		"n": n, "bit_ones": bitOnes, "sid_duplicates": dups, "sid_malformed": bad,
		"rid_len": ridLen, "rid_symbols": symbols, "rid_duplicates": ridDups, "rid_malformed": ridBad,
		"cuid_duplicates": cuidDups, "cuid_malformed": cuidBad, "cuid_unordered": cuidUnordered,
	})
}
