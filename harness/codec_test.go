package harness

// Families for C16 (gob) and C17 (JSON): the real GobEncode/GobDecode and
// MarshalJSON/UnmarshalJSON on generated sessions, on every session shape the
// package itself creates, on mutated documents and on a golden corpus.
// Each record carries the Coq term of the case (for Model/Codec.v's
// correspondence functions) and the verdict of a Go-side statement of the
// property on the real observation.

import (
	crand "crypto/rand"
	"encoding/gob"
	"encoding/hex"
	"encoding/json"
	"errors"
	"fmt"
	"math"
	mrand "math/rand/v2"
	"net/http"
	"net/http/httptest"
	"os"
	"reflect"
	"sort"
	"strconv"
	"strings"
	"syscall"
	"testing"
	"testing/synctest"
	"time"
	"unicode/utf8"

	"github.com/rivo/sessions"
)

func init() {
	families["gobrt"] = func(t *testing.T, r *run) { codecRoundTrips(t, r, false) }
	families["jsonrt"] = func(t *testing.T, r *run) { codecRoundTrips(t, r, true) }
	families["codecshapes"] = codecShapes
	families["jsonmut"] = cdJsonMutations
	families["codeclib"] = codecLib
	families["codecgolden"] = codecGolden
	families["codeccapture"] = codecCapture
	families["codecreplay"] = codecReplay
	gob.Register([]interface{}{})
	gob.Register(map[string]interface{}{})
}

// ------------------------------------------------------------ canonical view

// cdHUser is the harness's user type. tag tells objects with equal IDs apart:
// sessions are built with tag 1, LoadUser returns tag 7.
type cdHUser struct {
	id  interface{}
	tag uint64
}

func (u *cdHUser) GetID() interface{} { return u.id }

// cdLoadMode: 0 LoadUser returns a user with the given ID, 1 an error, 2 (nil, nil).
var cdLoadMode int

func cdInstallLoader() {
	sessions.Persistence = sessions.ExtendablePersistenceLayer{
		LoadUserFunc: func(id interface{}) (sessions.User, error) {
			switch cdLoadMode {
			case 1:
				return nil, errors.New("user store unavailable")
			case 2:
				return nil, nil
			}
			return &cdHUser{id: id, tag: 7}, nil
		},
	}
}

// cdCval is a Go value of the modelled closed set, floats by bit pattern.
type cdCval struct {
	K string `json:"k"`           // null bool int float str list map
	B bool   `json:"b,omitempty"` // bool
	I string `json:"i,omitempty"` // int (decimal) or float bits (decimal)
	S string `json:"s,omitempty"` // hex
	L []cdCval `json:"l,omitempty"`
	M []cdCkv  `json:"m,omitempty"` // sorted by key
}

type cdCkv struct {
	K string `json:"k"` // hex
	V cdCval   `json:"v"`
}

type cdCTime struct {
	Sec  int64 `json:"sec"`
	Nsec int64 `json:"nsec"`
	Off  int   `json:"off"`
}

type cdCUser struct {
	ID  cdCval   `json:"id"`
	Tag uint64 `json:"tag"`
}

type cdCSess struct {
	Created cdCTime  `json:"created"`
	Access  cdCTime  `json:"access"`
	IP      string `json:"ip"` // hex
	UA      string `json:"ua"` // decimal
	Ref     string `json:"ref"`
	User    *cdCUser `json:"user"`
	DataNil bool   `json:"data_nil"`
	Data    []cdCkv  `json:"data"`
}

func cdHx(s string) string { return hex.EncodeToString([]byte(s)) }
func cdUnhx(s string) string {
	b, err := hex.DecodeString(s)
	if err != nil {
		panic(err)
	}
	return string(b)
}

// cdToCval converts a Go value; unmodelled dynamic types are an error.
func cdToCval(v interface{}) (cdCval, error) {
	switch x := v.(type) {
	case nil:
		return cdCval{K: "null"}, nil
	case bool:
		return cdCval{K: "bool", B: x}, nil
	case int:
		return cdCval{K: "int", I: strconv.FormatInt(int64(x), 10)}, nil
	case float64:
		return cdCval{K: "float", I: strconv.FormatUint(math.Float64bits(x), 10)}, nil
	case string:
		return cdCval{K: "str", S: cdHx(x)}, nil
	case []interface{}:
		c := cdCval{K: "list"}
		for _, e := range x {
			ce, err := cdToCval(e)
			if err != nil {
				return c, err
			}
			c.L = append(c.L, ce)
		}
		return c, nil
	case map[string]interface{}:
		m, err := cdToCmap(x)
		return cdCval{K: "map", M: m}, err
	}
	return cdCval{}, fmt.Errorf("unmodelled dynamic type %T", v)
}

func cdToCmap(m map[string]interface{}) ([]cdCkv, error) {
	keys := make([]string, 0, len(m))
	for k := range m {
		keys = append(keys, k)
	}
	sort.Strings(keys)
	var out []cdCkv
	for _, k := range keys {
		cv, err := cdToCval(m[k])
		if err != nil {
			return nil, err
		}
		out = append(out, cdCkv{K: cdHx(k), V: cv})
	}
	return out, nil
}

func cdFromCval(c cdCval) interface{} {
	switch c.K {
	case "null":
		return nil
	case "bool":
		return c.B
	case "int":
		n, _ := strconv.ParseInt(c.I, 10, 64)
		return int(n)
	case "float":
		n, _ := strconv.ParseUint(c.I, 10, 64)
		return math.Float64frombits(n)
	case "str":
		return cdUnhx(c.S)
	case "list":
		l := make([]interface{}, 0, len(c.L))
		for _, e := range c.L {
			l = append(l, cdFromCval(e))
		}
		return l
	case "map":
		return cdFromCmap(c.M)
	}
	panic("bad cdCval kind " + c.K)
}

func cdFromCmap(m []cdCkv) map[string]interface{} {
	out := make(map[string]interface{}, len(m))
	for _, kv := range m {
		out[cdUnhx(kv.K)] = cdFromCval(kv.V)
	}
	return out
}

func cdToCTime(t time.Time) cdCTime {
	_, off := t.Zone()
	return cdCTime{Sec: t.Unix(), Nsec: int64(t.Nanosecond()), Off: off}
}

func cdFromCTime(c cdCTime) time.Time {
	t := time.Unix(c.Sec, c.Nsec)
	if c.Off == 0 {
		return t.UTC()
	}
	return t.In(time.FixedZone("", c.Off))
}

func cdToCSess(v sessions.VerifSessionView) (cdCSess, error) {
	c := cdCSess{Created: cdToCTime(v.Created), Access: cdToCTime(v.LastAccess), IP: cdHx(v.LastIP),
		UA: strconv.FormatUint(v.UAHash, 10), Ref: cdHx(v.ReferenceID), DataNil: v.DataNil}
	if v.User != nil {
		id, err := cdToCval(v.User.GetID())
		if err != nil {
			return c, err
		}
		u := &cdCUser{ID: id}
		if h, ok := v.User.(*cdHUser); ok {
			u.Tag = h.tag
		}
		c.User = u
	}
	if !v.DataNil {
		m, err := cdToCmap(v.Data)
		if err != nil {
			return c, err
		}
		c.Data = m
	}
	return c, nil
}

func cdFromCSess(c cdCSess) sessions.VerifSessionView {
	ua, _ := strconv.ParseUint(c.UA, 10, 64)
	v := sessions.VerifSessionView{Created: cdFromCTime(c.Created), LastAccess: cdFromCTime(c.Access),
		LastIP: cdUnhx(c.IP), UAHash: ua, ReferenceID: cdUnhx(c.Ref), DataNil: c.DataNil}
	if c.User != nil {
		v.User = &cdHUser{id: cdFromCval(c.User.ID), tag: c.User.Tag}
	}
	if !c.DataNil {
		v.Data = cdFromCmap(c.Data)
	}
	return v
}

// outcome of a real call
type cdCResult struct {
	Class string `json:"class"` // ok err panic
	Sess  *cdCSess `json:"sess,omitempty"`
	Msg   string `json:"msg,omitempty"`
}

// ------------------------------------------------------------ Coq printers

func cdCoqTime(t cdCTime) string {
	return fmt.Sprintf("(mkTime %s %d %s)", coqZ(t.Sec), t.Nsec, coqZ(int64(t.Off)))
}

func cdCoqCval(c cdCval) string {
	switch c.K {
	case "null":
		return "DNull"
	case "bool":
		return "(DBool " + coqBool(c.B) + ")"
	case "int":
		n, _ := strconv.ParseInt(c.I, 10, 64)
		return "(DInt " + coqZ(n) + ")"
	case "float":
		return "(DFloat " + c.I + ")"
	case "str":
		return "(DStr " + cdCoqHx([]byte(cdUnhx(c.S))) + ")"
	case "list":
		items := make([]string, len(c.L))
		for i, e := range c.L {
			items[i] = cdCoqCval(e)
		}
		return "(DList " + coqList(items) + ")"
	case "map":
		return "(DMap " + cdCoqCmap(c.M) + ")"
	}
	panic("bad cval")
}

func cdCoqCmap(m []cdCkv) string {
	items := make([]string, len(m))
	for i, kv := range m {
		items[i] = "(" + cdCoqHx([]byte(cdUnhx(kv.K))) + ", " + cdCoqCval(kv.V) + ")"
	}
	return coqList(items)
}

func cdCoqSess(c cdCSess) string {
	user := "None"
	if c.User != nil {
		user = fmt.Sprintf("(Some (mkUser %s %d))", cdCoqCval(c.User.ID), c.User.Tag)
	}
	data := "None"
	if !c.DataNil {
		data = "(Some " + cdCoqCmap(c.Data) + ")"
	}
	return fmt.Sprintf("(mkSess %s %s %s %s %s %s %s)", cdCoqTime(c.Created), cdCoqTime(c.Access),
		cdCoqHx([]byte(cdUnhx(c.IP))), c.UA, cdCoqHx([]byte(cdUnhx(c.Ref))), user, data)
}

func cdCoqResult(r cdCResult) string {
	switch r.Class {
	case "ok":
		return "(Ok " + cdCoqSess(*r.Sess) + ")"
	case "err":
		return "Err"
	}
	return "Panic"
}

// cdCoqHx renders a byte string for the case files: short ones as a list of
// numerals, longer ones as hex text decoded by Model/Codec.v's cdHx.
func cdCoqHx(b []byte) string {
	if len(b) < 4 {
		return coqBytes(b)
	}
	return `(hx "` + hex.EncodeToString(b) + `"%string)`
}

const cdLayRFC3339 = "time.RFC3339"

func cdCoqFmtEntry(t cdCTime, text string) string {
	return fmt.Sprintf("(%s, %s, %s)", cdCoqHx([]byte(cdLayRFC3339)), cdCoqTime(t), cdCoqHx([]byte(text)))
}

func cdCoqParseEntry(text string) string {
	t, err := time.Parse(time.RFC3339, text)
	res := "None"
	if err == nil {
		res = "(Some " + cdCoqTime(cdToCTime(t)) + ")"
	}
	return fmt.Sprintf("(%s, %s, %s)", cdCoqHx([]byte(cdLayRFC3339)), cdCoqHx([]byte(text)), res)
}

// ----------------------------------------------- the property, stated in Go

// cdJsonCoerce: a string through json.Marshal and back (invalid bytes become
// U+FFFD one by one).
func cdJsonCoerce(s string) string {
	if utf8.ValidString(s) {
		return s
	}
	var b strings.Builder
	for i := 0; i < len(s); {
		r, w := utf8.DecodeRuneInString(s[i:])
		if r == utf8.RuneError && w == 1 {
			b.WriteString("\uFFFD")
		} else {
			b.WriteString(s[i : i+w])
		}
		i += w
	}
	return b.String()
}

// cdJsonConv: the documented conversions on a value; ok=false when json.Marshal
// refuses the value (NaN, infinities).
func cdJsonConv(c cdCval) (cdCval, bool) {
	switch c.K {
	case "int":
		n, _ := strconv.ParseInt(c.I, 10, 64)
		return cdCval{K: "float", I: strconv.FormatUint(math.Float64bits(float64(n)), 10)}, true
	case "float":
		n, _ := strconv.ParseUint(c.I, 10, 64)
		f := math.Float64frombits(n)
		return c, !math.IsNaN(f) && !math.IsInf(f, 0)
	case "str":
		return cdCval{K: "str", S: cdHx(cdJsonCoerce(cdUnhx(c.S)))}, true
	case "list":
		out := cdCval{K: "list"}
		for _, e := range c.L {
			ce, ok := cdJsonConv(e)
			if !ok {
				return out, false
			}
			out.L = append(out.L, ce)
		}
		return out, true
	case "map":
		m, ok := cdJsonConvMap(c.M)
		return cdCval{K: "map", M: m}, ok
	}
	return c, true
}

func cdJsonConvMap(m []cdCkv) ([]cdCkv, bool) {
	var out []cdCkv
	for _, kv := range m {
		cv, ok := cdJsonConv(kv.V)
		if !ok {
			return nil, false
		}
		out = append(out, cdCkv{K: cdHx(cdJsonCoerce(cdUnhx(kv.K))), V: cv})
	}
	return out, true
}

func cdGobOffExact(off int) bool {
	m := off / 60
	return m >= -32768 && m <= 32767 && m != -1 && off%60 >= 0
}

func cdRfcDom(t cdCTime) bool {
	local := t.Sec + int64(t.Off)
	return local >= -62167219200 && local < 253402300800 && t.Off%60 == 0 && t.Off > -86400 && t.Off < 86400
}

// cdGobExpect: what C16 promises for this session (inDomain=false: the
// property's quantifier does not cover it).
func cdGobExpect(in cdCSess, mode int) (want cdCResult, inDomain bool) {
	if !cdGobOffExact(in.Created.Off) || !cdGobOffExact(in.Access.Off) {
		return cdCResult{}, false
	}
	out := in
	out.DataNil = false
	if in.User != nil {
		switch mode {
		case 1:
			return cdCResult{Class: "err"}, true
		case 2:
			out.User = nil
		default:
			out.User = &cdCUser{ID: in.User.ID, Tag: 7}
		}
	}
	return cdCResult{Class: "ok", Sess: &out}, true
}

// cdJsonExpect: what C17 promises for this session.
func cdJsonExpect(in cdCSess, mode int) (want cdCResult, inDomain bool) {
	if !cdRfcDom(in.Created) || !cdRfcDom(in.Access) {
		return cdCResult{}, false
	}
	out := in
	out.Created.Nsec, out.Access.Nsec = 0, 0
	out.IP, out.Ref = cdHx(cdJsonCoerce(cdUnhx(in.IP))), cdHx(cdJsonCoerce(cdUnhx(in.Ref)))
	out.DataNil = false
	m, ok := cdJsonConvMap(in.Data)
	if !ok {
		return cdCResult{Class: "err"}, true
	}
	out.Data = m
	if in.User != nil {
		id, ok := cdJsonConv(in.User.ID)
		if !ok {
			return cdCResult{Class: "err"}, true
		}
		switch mode {
		case 1:
			return cdCResult{Class: "err"}, true
		case 2:
			out.User = nil
		default:
			out.User = &cdCUser{ID: id, Tag: 7}
		}
	}
	return cdCResult{Class: "ok", Sess: &out}, true
}

func cdSameResult(a, b cdCResult) bool {
	if a.Class != b.Class {
		return false
	}
	if a.Class != "ok" {
		return true
	}
	x, y := *a.Sess, *b.Sess
	if len(x.Data) == 0 && len(y.Data) == 0 {
		x.Data, y.Data = nil, nil
	}
	return reflect.DeepEqual(x, y)
}

// --------------------------------------------------------- the real codecs

func cdRealGob(s *sessions.Session) (res cdCResult, wire []byte) {
	defer func() {
		if p := recover(); p != nil {
			res = cdCResult{Class: "panic", Msg: fmt.Sprint(p)}
		}
	}()
	b, err := s.GobEncode()
	if err != nil {
		return cdCResult{Class: "err", Msg: "encode: " + err.Error()}, nil
	}
	var d sessions.Session
	if err := d.GobDecode(b); err != nil {
		return cdCResult{Class: "err", Msg: "decode: " + err.Error()}, b
	}
	c, err := cdToCSess(sessions.VerifView(&d))
	if err != nil {
		return cdCResult{Class: "err", Msg: "view: " + err.Error()}, b
	}
	return cdCResult{Class: "ok", Sess: &c}, b
}

func cdRealJSONDecode(b []byte) (res cdCResult, d *sessions.Session) {
	defer func() {
		if p := recover(); p != nil {
			res = cdCResult{Class: "panic", Msg: fmt.Sprint(p)}
		}
	}()
	d = &sessions.Session{}
	if err := d.UnmarshalJSON(b); err != nil {
		return cdCResult{Class: "err", Msg: "decode: " + err.Error()}, nil
	}
	c, err := cdToCSess(sessions.VerifView(d))
	if err != nil {
		return cdCResult{Class: "err", Msg: "view: " + err.Error()}, nil
	}
	return cdCResult{Class: "ok", Sess: &c}, d
}

func cdRealJSON(s *sessions.Session) (res cdCResult, wire []byte) {
	defer func() {
		if p := recover(); p != nil {
			res = cdCResult{Class: "panic", Msg: fmt.Sprint(p)}
		}
	}()
	b, err := s.MarshalJSON()
	if err != nil {
		return cdCResult{Class: "err", Msg: "encode: " + err.Error()}, nil
	}
	res, _ = cdRealJSONDecode(b)
	return res, b
}

// cdRtRec is one round-trip record.
type cdRtRec struct {
	Codec    string   `json:"codec"`
	Kind     []string `json:"kind"`
	Mode     int      `json:"mode"`
	In       cdCSess    `json:"in"`
	Out      cdCResult  `json:"out"`
	Want     *cdCResult `json:"want,omitempty"`
	InDomain bool     `json:"in_domain"`
	SpecOK   bool     `json:"spec_ok"`
	Wire     string   `json:"wire,omitempty"` // hex
	Coq      string   `json:"coq,omitempty"`
}

// cdRoundTrip runs one session through one codec and builds the record.
func cdRoundTrip(codec string, kinds []string, view sessions.VerifSessionView, mode int, withCoq, withWire bool) (cdRtRec, error) {
	in, err := cdToCSess(view)
	if err != nil {
		return cdRtRec{}, err
	}
	cdLoadMode = mode
	s := sessions.VerifMake(view)
	rec := cdRtRec{Codec: codec, Kind: kinds, Mode: mode, In: in}
	var wire []byte
	var want cdCResult
	if codec == "gob" {
		rec.Out, wire = cdRealGob(s)
		want, rec.InDomain = cdGobExpect(in, mode)
	} else {
		rec.Out, wire = cdRealJSON(s)
		want, rec.InDomain = cdJsonExpect(in, mode)
	}
	cdLoadMode = 0
	got := rec.Out
	if codec == "json" && got.Class == "ok" {
		// the property promises the instants to the second
		fl := *got.Sess
		fl.Created.Nsec, fl.Access.Nsec = 0, 0
		got.Sess = &fl
	}
	rec.SpecOK = !rec.InDomain || cdSameResult(got, want)
	if rec.InDomain {
		rec.Want = &want
	}
	if withWire || !rec.SpecOK {
		rec.Wire = hex.EncodeToString(wire)
	}
	if withCoq {
		if codec == "gob" {
			rec.Coq = fmt.Sprintf("(mkGC %s %d %s)", cdCoqSess(in), mode, cdCoqResult(rec.Out))
		} else {
			cr, la := view.Created.Format(time.RFC3339), view.LastAccess.Format(time.RFC3339)
			rec.Coq = fmt.Sprintf("(mkJC %s %d %s %s %s)", cdCoqSess(in), mode,
				coqList([]string{cdCoqFmtEntry(in.Created, cr), cdCoqFmtEntry(in.Access, la)}),
				coqList([]string{cdCoqParseEntry(cr), cdCoqParseEntry(la)}), cdCoqResult(rec.Out))
		}
	}
	return rec, nil
}

// --------------------------------------------------------------- generators

var cdZoneOffsets = []int{0, 5*3600 + 45*60, 12*3600 + 45*60, -(3*3600 + 30*60), -(9*3600 + 30*60), 14 * 3600, -12 * 3600, 3600, -3600, 60, -120}

const (
	cdYear1Start   = -62135596800 // 0001-01-01T00:00:00Z
	cdYear9999End  = 253402300799 // 9999-12-31T23:59:59Z
	cdYear2000     = 946684800
	cdSecondsRange = cdYear9999End - cdYear1Start
)

func cdGenTime(r *run, forJSON bool) (time.Time, string) {
	var sec int64
	kind := ""
	switch r.rng.IntN(8) {
	case 0:
		sec, kind = cdYear1Start+int64(r.rng.IntN(3)), "t:year1"
	case 1:
		sec, kind = cdYear9999End-int64(r.rng.IntN(3)), "t:year9999"
	case 2, 3:
		sec, kind = cdYear1Start+r.rng.Int64N(cdSecondsRange), "t:anywhere"
	case 4:
		sec, kind = int64(r.rng.IntN(3))-1, "t:epoch"
	default:
		sec, kind = cdYear2000+r.rng.Int64N(40*365*86400), "t:recent"
	}
	var nsec int64
	switch r.rng.IntN(4) {
	case 0:
		nsec = 0
	case 1:
		nsec = 999999999
	case 2:
		nsec = 1
	default:
		nsec = r.rng.Int64N(1000000000)
	}
	t := time.Unix(sec, nsec)
	switch z := r.rng.IntN(20); {
	case z < 4:
		return t.UTC(), kind + ",z:utc"
	case z < 5:
		return t.In(time.Local), kind + ",z:local"
	case z < 12:
		off := cdZoneOffsets[r.rng.IntN(len(cdZoneOffsets))]
		return t.In(time.FixedZone("odd", off)), kind + ",z:fixed-minutes"
	case z < 16:
		off := (r.rng.IntN(28*60+1) - 14*60) * 60
		return t.In(time.FixedZone("", off)), kind + ",z:random-minutes"
	case z < 17 && !forJSON:
		return t.In(time.FixedZone("lmt", 19*60+32)), kind + ",z:seconds-east"
	case z < 18 && !forJSON:
		return t.In(time.FixedZone("lmt", -(19*60 + 32 + r.rng.IntN(200)))), kind + ",z:seconds-west"
	case z < 19 && !forJSON:
		return t.In(time.FixedZone("", -60-r.rng.IntN(60))), kind + ",z:minus-one-minute"
	case z < 17:
		// JSON: a zone with seconds (outside RFC 3339's domain; compared with the model, not with the property)
		return t.In(time.FixedZone("lmt", 19*60+32)), kind + ",z:seconds-east"
	default:
		off := (r.rng.IntN(28*60+1) - 14*60) * 60
		return t.In(time.FixedZone("", off)), kind + ",z:random-minutes"
	}
}

var cdSampleRunes = []rune{'a', 'Z', '0', ' ', '"', '\\', '<', '>', '&', '\n', 0, 0x7f, 0xe9, 0x20ac, 0x2028, 0xfffd, 0x1f600}

func cdGenString(r *run, invalidOK bool) (string, string) {
	switch k := r.rng.IntN(10); {
	case k == 0:
		return "", "s:empty"
	case k < 4:
		return fmt.Sprintf("%d.%d.%d.%d:%d", r.rng.IntN(256), r.rng.IntN(256), r.rng.IntN(256), r.rng.IntN(256), r.rng.IntN(65536)), "s:ipv4"
	case k == 4:
		return fmt.Sprintf("[2001:db8::%x]:%d", r.rng.IntN(65536), r.rng.IntN(65536)), "s:ipv6"
	case k < 7:
		var b strings.Builder
		for n := r.rng.IntN(12); n >= 0; n-- {
			b.WriteRune(cdSampleRunes[r.rng.IntN(len(cdSampleRunes))])
		}
		return b.String(), "s:utf8"
	case k < 9 && invalidOK:
		n := 1 + r.rng.IntN(10)
		b := make([]byte, n)
		for i := range b {
			switch r.rng.IntN(4) {
			case 0:
				b[i] = byte(0x80 + r.rng.IntN(0x80))
			case 1:
				b[i] = []byte{0xc0, 0xc1, 0xed, 0xa0, 0xf5, 0xff, 0xe2, 0x82}[r.rng.IntN(8)]
			default:
				b[i] = byte(r.rng.IntN(128))
			}
		}
		return string(b), "s:bytes"
	default:
		return strings.Repeat("x", 100+r.rng.IntN(400)), "s:long"
	}
}

// cdGenShortString: as cdGenString, without the long kind (for nested values).
func cdGenShortString(r *run, invalidOK bool) string {
	for {
		if s, k := cdGenString(r, invalidOK); k != "s:long" {
			return s
		}
	}
}

var cdFloatSamples = []float64{0, 1.5, -2.25, 1e300, 5e-324, math.MaxFloat64, 1 << 53, (1 << 53) + 2, 0.1, -1e-7, math.Copysign(0, -1)}

func cdGenValue(r *run, depth int, forJSON bool) interface{} {
	k := r.rng.IntN(12)
	if depth <= 0 && k >= 9 {
		k = r.rng.IntN(9)
	}
	switch k {
	case 0:
		return nil
	case 1:
		return r.rng.IntN(2) == 0
	case 2:
		return r.rng.IntN(2000) - 1000
	case 3:
		return []int{0, 1, -1, math.MaxInt64, math.MinInt64, 1 << 53, 1<<53 + 1, -(1<<53 + 1), 1<<62 + 12345, 9007199254740993}[r.rng.IntN(10)]
	case 4:
		return int(r.rng.Uint64())
	case 5:
		return cdFloatSamples[r.rng.IntN(len(cdFloatSamples))]
	case 6:
		if r.rng.IntN(25) == 0 {
			return []float64{math.NaN(), math.Inf(1), math.Inf(-1)}[r.rng.IntN(3)]
		}
		return math.Float64frombits(r.rng.Uint64()&^(0x7ff<<52) | uint64(r.rng.IntN(2046)+1)<<52)
	case 7, 8:
		return cdGenShortString(r, true)
	case 9, 10:
		l := make([]interface{}, 0)
		for n := r.rng.IntN(4); n > 0; n-- {
			l = append(l, cdGenValue(r, depth-1, forJSON))
		}
		return l
	default:
		return cdGenMap(r, r.rng.IntN(4), depth-1, forJSON)
	}
}

func cdGenKey(r *run, forJSON bool) string {
	if r.rng.IntN(3) > 0 {
		return string(rune('a'+r.rng.IntN(26))) + strconv.Itoa(r.rng.IntN(1000))
	}
	// JSON object keys must stay distinct after the UTF-8 coercion: valid UTF-8 only
	s := cdGenShortString(r, !forJSON)
	if len(s) > 40 {
		s = s[:40]
		if forJSON {
			s = strings.ToValidUTF8(s, "")
		}
	}
	return s
}

func cdGenMap(r *run, n, depth int, forJSON bool) map[string]interface{} {
	m := make(map[string]interface{}, n)
	for i := 0; i < n; i++ {
		m[cdGenKey(r, forJSON)] = cdGenValue(r, depth, forJSON)
	}
	return m
}

func cdGenUserID(r *run) interface{} {
	switch r.rng.IntN(8) {
	case 0:
		return ""
	case 1:
		return 0
	case 2:
		return []int{-1, math.MaxInt64, math.MinInt64, 1<<53 + 1}[r.rng.IntN(4)]
	case 3, 4:
		return r.rng.IntN(1000000)
	case 5:
		s, _ := cdGenString(r, true)
		return s
	default:
		return "user-" + strconv.Itoa(r.rng.IntN(100000))
	}
}

// cdGenSession: one session and the list of input kinds it exercises.
func cdGenSession(r *run, forJSON bool) (sessions.VerifSessionView, []string, int) {
	var v sessions.VerifSessionView
	var kinds []string
	var k string
	v.Created, k = cdGenTime(r, forJSON)
	kinds = append(kinds, "created:"+k)
	if r.rng.IntN(3) == 0 {
		v.LastAccess = v.Created
	} else {
		v.LastAccess, k = cdGenTime(r, forJSON)
		kinds = append(kinds, "access:"+k)
	}
	v.LastIP, k = cdGenString(r, true)
	kinds = append(kinds, "ip:"+k)
	switch r.rng.IntN(8) {
	case 0:
		v.UAHash = 0
	case 1:
		v.UAHash = 1
	case 2:
		v.UAHash = 1 << 63
	case 3:
		v.UAHash = math.MaxUint64
	case 4:
		v.UAHash = 35 + uint64(r.rng.IntN(3))
	default:
		v.UAHash = r.rng.Uint64()
	}
	kinds = append(kinds, "ua:"+map[bool]string{true: "edge", false: "random"}[v.UAHash < 40 || v.UAHash == 1<<63 || v.UAHash == math.MaxUint64])
	shape := r.rng.IntN(10)
	switch {
	case shape < 2:
		// the record RegenerateID leaves under a replaced ID
		b := make([]byte, 18)
		for i := range b {
			b[i] = byte(r.rng.IntN(256))
		}
		v.ReferenceID = cdIdLike(b)
		v.DataNil = true
		kinds = append(kinds, "shape:placeholder")
	case shape < 3:
		v.ReferenceID, k = cdGenString(r, true)
		kinds = append(kinds, "shape:reference-with-data", "ref:"+k)
	default:
		kinds = append(kinds, "shape:ordinary")
	}
	mode := 0
	if shape >= 2 && r.rng.IntN(2) == 0 {
		v.User = &cdHUser{id: cdGenUserID(r), tag: 1}
		kinds = append(kinds, fmt.Sprintf("user:%T", v.User.GetID()))
		switch r.rng.IntN(12) {
		case 0:
			mode = 1
			kinds = append(kinds, "load:error")
		case 1:
			mode = 2
			kinds = append(kinds, "load:nil")
		}
	} else {
		kinds = append(kinds, "user:none")
	}
	if !v.DataNil {
		switch d := r.rng.IntN(20); {
		case d == 0:
			v.DataNil = true
			kinds = append(kinds, "data:nil")
		case d < 3:
			v.Data = map[string]interface{}{}
			kinds = append(kinds, "data:empty")
		case d == 3 && r.rng.IntN(4) == 0:
			v.Data = cdGenMap(r, 80+r.rng.IntN(120), 0, forJSON)
			kinds = append(kinds, "data:large")
		default:
			v.Data = cdGenMap(r, 1+r.rng.IntN(6), 3, forJSON)
			kinds = append(kinds, "data:small")
		}
	} else {
		kinds = append(kinds, "data:nil")
	}
	return v, kinds, mode
}

// cdIdLike gives a 24-character ID-like string.
func cdIdLike(b []byte) string {
	const alpha = "ABCDEFGHIJKLMNOPQRSTUVWXYZabcdefghijklmnopqrstuvwxyz0123456789-_"
	out := make([]byte, 24)
	for i := range out {
		out[i] = alpha[int(b[i%len(b)])%64]
	}
	return string(out)
}

// ---------------------------------------------------------------- families

// codecRoundTrips: VERIF_N generated sessions through one codec. VERIF_ARGS:
// coq=K (emit Coq terms for the first K cases; default all), failures=1 (emit
// only records on which the Go-side statement of the property fails, plus a
// summary record).
func codecRoundTrips(t *testing.T, r *run, forJSON bool) {
	cdInstallLoader()
	codec := "gob"
	if forJSON {
		codec = "json"
	}
	coqN := r.argInt("coq", r.n)
	onlyFailures := r.arg("failures", "0") == "1"
	hist := map[string]int{}
	failures := 0
	for i := 0; i < r.n; i++ {
		view, kinds, mode := cdGenSession(r, forJSON)
		rec, err := cdRoundTrip(codec, kinds, view, mode, i < coqN, false)
		if err != nil {
			t.Fatalf("generator produced an unmodelled value: %v", err)
		}
		for _, k := range kinds {
			hist[k]++
		}
		hist["out:"+rec.Out.Class]++
		if !rec.InDomain {
			hist["outside-domain"]++
		}
		if !rec.SpecOK {
			failures++
		}
		if !onlyFailures || !rec.SpecOK {
			if onlyFailures && failures > 20 {
				continue
			}
			r.emit(rec)
		}
	}
	if onlyFailures {
		r.emit(map[string]interface{}{"summary": true, "codec": codec, "cases": r.n, "failures": failures, "hist": hist})
	}
}

// codecShapes: every session shape the package itself creates, taken from a
// real run of Start / Set / LogIn / RegenerateID / LogOut behind a capturing
// persistence layer, through both codecs.
func codecShapes(t *testing.T, r *run) {
	// Inside a synctest bubble (clock starts 2000-01-01 UTC) and with a seeded
	// crypto/rand.Reader the run is deterministic. The package's lock manager
	// goroutines never exit, so the process leaves through syscall.Exit.
	synctest.Test(t, func(t *testing.T) {
		codecShapesInBubble(t, r)
		if t.Failed() {
			return
		}
		r.close()
		syscall.Exit(0)
	})
}

// cdSeededReader is a deterministic stand-in for crypto/rand.Reader.
type cdSeededReader struct{ src *mrand.ChaCha8 }

func (s cdSeededReader) Read(p []byte) (int, error) { return s.src.Read(p) }

func codecShapesInBubble(t *testing.T, r *run) {
	var seed [32]byte
	copy(seed[:], fmt.Sprintf("verif-codec-shapes-%d", r.seed))
	crand.Reader = cdSeededReader{mrand.NewChaCha8(seed)}
	sessions.VerifReset()
	type saved struct {
		id   string
		view sessions.VerifSessionView
	}
	var log []saved
	sessions.Persistence = sessions.ExtendablePersistenceLayer{
		SaveSessionFunc: func(id string, s *sessions.Session) error {
			log = append(log, saved{id, sessions.VerifView(s)})
			return nil
		},
		LoadUserFunc: func(id interface{}) (sessions.User, error) {
			switch cdLoadMode {
			case 1:
				return nil, errors.New("user store unavailable")
			case 2:
				return nil, nil
			}
			return &cdHUser{id: id, tag: 7}, nil
		},
	}
	sessions.SessionIDGracePeriod = time.Hour
	req := httptest.NewRequest("GET", "/", nil)
	req.RemoteAddr = "203.0.113.7:54321"
	req.Header.Set("User-Agent", "verif/1.0")
	w := httptest.NewRecorder()
	s, err := sessions.Start(w, req, true)
	if err != nil || s == nil {
		t.Fatalf("Start: %v", err)
	}
	type shape struct {
		name string
		v    saved
	}
	mark := func(name string, from int) []shape {
		var out []shape
		for _, sv := range log[from:] {
			n := name
			if sv.view.ReferenceID != "" {
				n = "replaced-id-record(" + name + ")"
			}
			out = append(out, shape{n, sv})
		}
		return out
	}
	var shapes []shape
	shapes = append(shapes, mark("fresh", 0)...)
	n := len(log)
	if err := s.Set("cart", []interface{}{"apple", 3, 1.25}); err != nil {
		t.Fatal(err)
	}
	if err := s.Set("note", "café"); err != nil {
		t.Fatal(err)
	}
	shapes = append(shapes, mark("with-data", n)...)
	n = len(log)
	if err := s.RegenerateID(w); err != nil {
		t.Fatal(err)
	}
	shapes = append(shapes, mark("regenerated", n)...)
	n = len(log)
	if err := s.LogIn(&cdHUser{id: "alice", tag: 1}, false, w); err != nil {
		t.Fatal(err)
	}
	shapes = append(shapes, mark("logged-in", n)...)
	n = len(log)
	if err := s.LogIn(&cdHUser{id: 4711, tag: 1}, true, w); err != nil {
		t.Fatal(err)
	}
	shapes = append(shapes, mark("logged-in-int-id", n)...)
	n = len(log)
	if err := s.LogOut(); err != nil {
		t.Fatal(err)
	}
	shapes = append(shapes, mark("logged-out", n)...)
	// a second request with the cookie: the session as Start returns it
	req2 := httptest.NewRequest("GET", "/", nil)
	req2.RemoteAddr = req.RemoteAddr
	req2.Header.Set("User-Agent", "verif/1.0")
	for _, c := range w.Result().Cookies() {
		if c.Name == sessions.SessionCookie && c.Value != "deleted" {
			req2.Header.Set("Cookie", (&http.Cookie{Name: c.Name, Value: c.Value}).String())
		}
	}
	n = len(log)
	s2, err := sessions.Start(httptest.NewRecorder(), req2, false)
	if err != nil || s2 == nil {
		t.Fatalf("second Start: %v %v", s2, err)
	}
	shapes = append(shapes, mark("revisited", n)...)
	shapes = append(shapes, shape{"returned-by-Start", saved{"", sessions.VerifView(s2)}})

	placeholders := 0
	for _, sh := range shapes {
		if sh.v.view.ReferenceID != "" && sh.v.view.DataNil {
			placeholders++
		}
		for _, codec := range []string{"gob", "json"} {
			rec, err := cdRoundTrip(codec, []string{"shape:" + sh.name}, sh.v.view, 0, true, true)
			if err != nil {
				t.Fatalf("shape %s: %v", sh.name, err)
			}
			r.emit(rec)
		}
	}
	if placeholders == 0 {
		t.Fatalf("the run produced no replaced-ID record")
	}
}

// ---- mutation stream ----

type cdMutRec struct {
	Kind    string  `json:"kind"`
	Doc     string  `json:"doc"` // hex
	IsJSON  bool    `json:"is_json"`
	Mode    int     `json:"mode"`
	Out     cdCResult `json:"out"`
	Reenc   string  `json:"reenc"` // "", ok, err:<msg>, panic:<msg>
	SpecOK  bool    `json:"spec_ok"`
	Modeled bool    `json:"modeled"`
	Coq     string  `json:"coq,omitempty"`
}

func cdReencode(d *sessions.Session) (res string) {
	defer func() {
		if p := recover(); p != nil {
			res = "panic:" + fmt.Sprint(p)
		}
	}()
	b, err := d.MarshalJSON()
	if err != nil {
		return "err:" + err.Error()
	}
	var x interface{}
	if err := json.Unmarshal(b, &x); err != nil {
		return "err:re-encoding is not JSON: " + err.Error()
	}
	return "ok"
}

// cdOneMutation runs one document through the real UnmarshalJSON.
func cdOneMutation(kind string, doc []byte, mode int, withCoq bool) cdMutRec {
	rec := cdMutRec{Kind: kind, Doc: hex.EncodeToString(doc), Mode: mode}
	cdLoadMode = mode
	out, d := cdRealJSONDecode(doc)
	rec.Out = out
	if out.Class == "ok" {
		rec.Reenc = cdReencode(d)
	}
	cdLoadMode = 0
	var tree interface{}
	rec.IsJSON = json.Unmarshal(doc, &tree) == nil
	rec.SpecOK = out.Class != "panic" && (out.Class != "ok" || rec.Reenc == "ok") && (rec.IsJSON || out.Class == "err")
	if rec.IsJSON {
		ct, err := cdToCval(tree)
		if err == nil {
			rec.Modeled = true
			if withCoq {
				var ptab []string
				if m, ok := tree.(map[string]interface{}); ok {
					keys := make([]string, 0, len(m))
					for k := range m {
						keys = append(keys, k)
					}
					sort.Strings(keys)
					seen := map[string]bool{}
					for _, k := range keys {
						if s, ok := m[k].(string); ok && !seen[s] && len(s) < 200 {
							seen[s] = true
							ptab = append(ptab, cdCoqParseEntry(s))
						}
					}
				}
				rec.Coq = fmt.Sprintf("(mkJU %s %d %s %s)", cdCoqCval(ct), mode, coqList(ptab), cdCoqResult(out))
			}
		}
	}
	return rec
}

var cdSwapValues = []string{`null`, `true`, `false`, `0`, `1`, `1.0`, `1e0`, `2`, `-1`, `1.5`, `""`, `"x"`, `"1"`, `[]`, `[1]`, `{}`, `{"a":1}`,
	`"2020-01-02T03:04:05Z"`, `"2020-01-02T03:04:05.123456789+05:45"`, `"2020-01-02t03:04:05z"`, `"2020-01-02 03:04:05Z"`, `"10000-01-01T00:00:00Z"`,
	`"3w5e11264sgsf"`, `"3w5e11264sgsg"`, `"3W5E11264SGSF"`, `"+1"`, `"-1"`, `"1_0"`, `" 1"`, `"zz"`, `"0x10"`, `"é"`, `18446744073709551616`, `1e400`}

var cdJsonKeys = []string{"v", "cr", "la", "ip", "ua", "rf", "us", "da"}

// cdMutate derives one document from a valid encoding.
func cdMutate(r *run, base []byte) (string, []byte) {
	obj := func() map[string]json.RawMessage {
		var m map[string]json.RawMessage
		if err := json.Unmarshal(base, &m); err != nil {
			panic(err)
		}
		return m
	}
	remarshal := func(m map[string]json.RawMessage) []byte {
		b, err := json.Marshal(m)
		if err != nil {
			panic(err)
		}
		return b
	}
	switch r.rng.IntN(12) {
	case 0:
		return "valid", base
	case 1:
		b := append([]byte(nil), base...)
		i := r.rng.IntN(len(b))
		b[i] ^= 1 << r.rng.IntN(8)
		return "bitflip", b
	case 2:
		b := append([]byte(nil), base...)
		for n := 1 + r.rng.IntN(3); n > 0; n-- {
			b[r.rng.IntN(len(b))] = byte(r.rng.IntN(256))
		}
		return "bytes", b
	case 3:
		return "truncate", base[:r.rng.IntN(len(base))]
	case 4:
		m := obj()
		k := cdJsonKeys[r.rng.IntN(len(cdJsonKeys))]
		delete(m, k)
		return "delete:" + k, remarshal(m)
	case 5:
		k := cdJsonKeys[r.rng.IntN(len(cdJsonKeys))]
		v := cdSwapValues[r.rng.IntN(len(cdSwapValues))]
		dup := fmt.Sprintf("%q:%s", k, v)
		if r.rng.IntN(2) == 0 {
			return "duplicate-last:" + k, append(append(append([]byte(nil), base[:len(base)-1]...), ','), []byte(dup+"}")...)
		}
		return "duplicate-first:" + k, append([]byte("{"+dup+","), base[1:]...)
	case 6, 7, 8:
		m := obj()
		k := cdJsonKeys[r.rng.IntN(len(cdJsonKeys))]
		v := cdSwapValues[r.rng.IntN(len(cdSwapValues))]
		m[k] = json.RawMessage(v)
		return "swap:" + k, remarshal(m)
	case 9:
		m := obj()
		for n := 2; n > 0; n-- {
			m[cdJsonKeys[r.rng.IntN(len(cdJsonKeys))]] = json.RawMessage(cdSwapValues[r.rng.IntN(len(cdSwapValues))])
		}
		return "swap2", remarshal(m)
	case 10:
		return "toplevel", []byte([]string{`null`, `[]`, `1`, `"x"`, `true`, `{}`, `[{"v":1}]`, ``, ` `, `{"v":1}`, `{"V":1}`}[r.rng.IntN(11)])
	default:
		m := obj()
		m[[]string{"x", "", "V", "Da", "da "}[r.rng.IntN(5)]] = json.RawMessage(cdSwapValues[r.rng.IntN(len(cdSwapValues))])
		return "extra-key", remarshal(m)
	}
}

func cdIsJSONObject(b []byte) bool {
	var m map[string]json.RawMessage
	return json.Unmarshal(b, &m) == nil && m != nil
}

// cdJsonMutations: VERIF_N documents derived from valid encodings. VERIF_ARGS:
// coq=K, failures=1 as for the round-trip families.
func cdJsonMutations(t *testing.T, r *run) {
	cdInstallLoader()
	coqN := r.argInt("coq", r.n)
	onlyFailures := r.arg("failures", "0") == "1"
	hist := map[string]int{}
	failures := 0
	var bases [][]byte
	for len(bases) < 64 {
		view, _, _ := cdGenSession(r, true)
		if len(view.Data) > 20 {
			continue
		}
		b, err := sessions.VerifMake(view).MarshalJSON()
		if err == nil && cdIsJSONObject(b) {
			bases = append(bases, b)
		} else {
			// an encoding that is not a JSON object is the round-trip family's
			// finding; it cannot serve as the base of a mutation
			hist["base-invalid"]++
			if hist["base-invalid"] > 100000 {
				t.Fatalf("MarshalJSON never produces a JSON object")
			}
		}
	}
	for i := 0; i < r.n; i++ {
		if i%32 == 31 {
			// keep the pool of valid encodings fresh
			view, _, _ := cdGenSession(r, true)
			if len(view.Data) <= 20 {
				if b, err := sessions.VerifMake(view).MarshalJSON(); err == nil && cdIsJSONObject(b) {
					bases[r.rng.IntN(len(bases))] = b
				}
			}
		}
		kind, doc := cdMutate(r, bases[r.rng.IntN(len(bases))])
		mode := 0
		switch r.rng.IntN(16) {
		case 0:
			mode = 1
		case 1:
			mode = 2
		}
		rec := cdOneMutation(kind, doc, mode, i < coqN)
		base := kind
		if j := strings.IndexByte(base, ':'); j > 0 {
			base = base[:j]
		}
		hist["mut:"+base]++
		hist["out:"+rec.Out.Class]++
		if rec.IsJSON {
			hist["is-json"]++
		}
		if rec.Modeled {
			hist["modeled"]++
		}
		if !rec.SpecOK {
			failures++
		}
		if !onlyFailures || !rec.SpecOK {
			if onlyFailures && failures > 20 {
				continue
			}
			r.emit(rec)
		}
	}
	if onlyFailures {
		r.emit(map[string]interface{}{"summary": true, "codec": "jsonmut", "cases": r.n, "failures": failures, "hist": hist})
	}
}

// ---- library functions the model writes out ----

// codecLib: float64(int), the UTF-8 coercion of encoding/json and the base-36
// text of uint64 values, as the real libraries compute them.
func codecLib(t *testing.T, r *run) {
	for i := 0; i < r.n; i++ {
		var z int64
		switch r.rng.IntN(6) {
		case 0:
			z = []int64{0, 1, -1, math.MaxInt64, math.MinInt64, 1 << 53, 1<<53 + 1, 1<<53 + 2, 1<<53 + 3, 1<<54 + 2, 1<<54 + 6, -(1<<53 + 1)}[r.rng.IntN(12)]
		case 1:
			z = int64(r.rng.IntN(1000)) - 500
		case 2:
			// around a rounding boundary
			sh := uint(1 + r.rng.IntN(10))
			z = (int64(1)<<52+r.rng.Int64N(1<<52))<<sh + int64(1)<<(sh-1) + int64(r.rng.IntN(3)) - 1
		default:
			z = int64(r.rng.Uint64() >> uint(r.rng.IntN(64)))
			if r.rng.IntN(2) == 0 {
				z = -z
			}
		}
		// through JSON text, as the package's data goes
		jb, _ := json.Marshal(int(z))
		var f interface{}
		if err := json.Unmarshal(jb, &f); err != nil {
			t.Fatal(err)
		}
		s, _ := cdGenString(r, true)
		sb, _ := json.Marshal(s)
		var s2 string
		if err := json.Unmarshal(sb, &s2); err != nil {
			t.Fatal(err)
		}
		var n uint64
		switch r.rng.IntN(4) {
		case 0:
			n = []uint64{0, 1, 35, 36, 1 << 63, math.MaxUint64, math.MaxUint64 - 1}[r.rng.IntN(7)]
		default:
			n = r.rng.Uint64() >> uint(r.rng.IntN(64))
		}
		text := strconv.FormatUint(n, 36)
		back, err := strconv.ParseUint(text, 36, 64)
		if err != nil || back != n {
			t.Fatalf("strconv base 36 does not round-trip %d", n)
		}
		r.emit(map[string]interface{}{
			"int": strconv.FormatInt(z, 10), "bits": strconv.FormatUint(math.Float64bits(f.(float64)), 10), "str": cdHx(s), "coerced": cdHx(s2),
			"n": strconv.FormatUint(n, 10), "text": text,
			"coq": fmt.Sprintf("(mkLC %s %d %s %s %d %s)", coqZ(z), math.Float64bits(f.(float64)), cdCoqHx([]byte(s)), cdCoqHx([]byte(s2)), n, cdCoqHx([]byte(text))),
		})
	}
}

// ---- golden corpus ----

type cdGoldenEntry struct {
	Name  string `json:"name"`
	Bytes string `json:"bytes"` // hex
	// the fields a decoder must restore (user: as LoadUser mode 0 returns it)
	Fields cdCSess `json:"fields"`
}

type cdGoldenFile struct {
	Comment string        `json:"comment"`
	Commit  string        `json:"commit"`
	Codec   string        `json:"codec"`
	Entries []cdGoldenEntry `json:"entries"`
}

func cdReadGolden(path string) cdGoldenFile {
	b, err := os.ReadFile(path)
	if err != nil {
		panic(err)
	}
	var g cdGoldenFile
	if err := json.Unmarshal(b, &g); err != nil {
		panic(err)
	}
	return g
}

// codecGolden: decode every entry of a corpus file (VERIF_ARGS file=<path>)
// with the current code and report what came out.
func codecGolden(t *testing.T, r *run) {
	cdInstallLoader()
	g := cdReadGolden(r.arg("file", ""))
	for _, e := range g.Entries {
		raw, err := hex.DecodeString(e.Bytes)
		if err != nil {
			t.Fatal(err)
		}
		var out cdCResult
		if g.Codec == "gob" {
			out = func() (res cdCResult) {
				defer func() {
					if p := recover(); p != nil {
						res = cdCResult{Class: "panic", Msg: fmt.Sprint(p)}
					}
				}()
				var d sessions.Session
				if err := d.GobDecode(raw); err != nil {
					return cdCResult{Class: "err", Msg: err.Error()}
				}
				c, err := cdToCSess(sessions.VerifView(&d))
				if err != nil {
					return cdCResult{Class: "err", Msg: "view: " + err.Error()}
				}
				return cdCResult{Class: "ok", Sess: &c}
			}()
		} else {
			out, _ = cdRealJSONDecode(raw)
		}
		want := cdCResult{Class: "ok", Sess: &e.Fields}
		r.emit(map[string]interface{}{"name": e.Name, "codec": g.Codec, "out": out, "want": want, "same": cdSameResult(out, want)})
	}
}

// cdGoldenSessions: the fixed sessions of the corpus.
func cdGoldenSessions() []struct {
	name string
	view sessions.VerifSessionView
} {
	z545 := time.FixedZone("", 5*3600+45*60)
	zw := time.FixedZone("", -(3*3600 + 30*60))
	mk := func(name string, v sessions.VerifSessionView) struct {
		name string
		view sessions.VerifSessionView
	} {
		return struct {
			name string
			view sessions.VerifSessionView
		}{name, v}
	}
	return []struct {
		name string
		view sessions.VerifSessionView
	}{
		mk("fresh", sessions.VerifSessionView{Created: time.Date(2024, 2, 29, 12, 0, 0, 123456789, time.UTC), LastAccess: time.Date(2024, 2, 29, 12, 0, 1, 0, time.UTC),
			LastIP: "203.0.113.7:54321", UAHash: 0xcbf29ce484222325, Data: map[string]interface{}{}}),
		mk("placeholder", sessions.VerifSessionView{Created: time.Date(2024, 2, 29, 12, 5, 0, 5, time.UTC), LastAccess: time.Date(2024, 2, 29, 12, 5, 0, 7, time.UTC),
			LastIP: "203.0.113.7:54321", UAHash: 1, ReferenceID: "q83vEjRWeJCrze8SNFZ4kA==", DataNil: true}),
		mk("logged-in-string-id", sessions.VerifSessionView{Created: time.Date(1999, 12, 31, 23, 59, 59, 999999999, z545), LastAccess: time.Date(2000, 1, 1, 0, 0, 0, 0, z545),
			LastIP: "[2001:db8::1]:443", UAHash: math.MaxUint64, User: &cdHUser{id: "alice", tag: 1},
			Data: map[string]interface{}{"s": "café", "i": 42, "b": true, "f": 1.5, "n": nil, "l": []interface{}{"a", 1, []interface{}{false}}, "m": map[string]interface{}{"k": "v", "z": 0}}}),
		mk("logged-in-int-id", sessions.VerifSessionView{Created: time.Date(1, 1, 1, 0, 0, 0, 0, time.UTC), LastAccess: time.Date(9999, 12, 31, 20, 29, 59, 1, zw),
			LastIP: "", UAHash: 1 << 63, User: &cdHUser{id: 4711, tag: 1}, Data: map[string]interface{}{"big": math.MinInt64, "html": "<a href=\"x\">&</a> "}}),
		mk("zero-values", sessions.VerifSessionView{Data: map[string]interface{}{"": ""}}),
	}
}

// codecCapture writes the two corpus files from the tree the harness is built
// against (VERIF_ARGS dir=<dir> commit=<id>). Used once, at the pinned commit.
func codecCapture(t *testing.T, r *run) {
	cdInstallLoader()
	dir, commit := r.arg("dir", ""), r.arg("commit", "")
	for _, codec := range []string{"gob", "json"} {
		g := cdGoldenFile{Codec: codec, Commit: commit,
			Comment: "bytes written by " + map[string]string{"gob": "GobEncode", "json": "MarshalJSON"}[codec] + " of rivo/sessions at the pinned commit, with the field values a decoder must restore (users as LoadUser returns them: same ID, tag 7)"}
		for _, gs := range cdGoldenSessions() {
			s := sessions.VerifMake(gs.view)
			var b []byte
			var err error
			if codec == "gob" {
				b, err = s.GobEncode()
			} else {
				b, err = s.MarshalJSON()
			}
			if err != nil {
				t.Fatal(err)
			}
			in, err := cdToCSess(gs.view)
			if err != nil {
				t.Fatal(err)
			}
			var want cdCResult
			var ok bool
			if codec == "gob" {
				want, ok = cdGobExpect(in, 0)
			} else {
				want, ok = cdJsonExpect(in, 0)
			}
			if !ok || want.Class != "ok" {
				t.Fatalf("golden session %s outside the property's domain", gs.name)
			}
			g.Entries = append(g.Entries, cdGoldenEntry{Name: gs.name, Bytes: hex.EncodeToString(b), Fields: *want.Sess})
		}
		out, _ := json.MarshalIndent(g, "", " ")
		if err := os.WriteFile(dir+"/"+codec+"_golden.json", append(out, '\n'), 0o644); err != nil {
			t.Fatal(err)
		}
	}
}

// codecReplay re-runs the failing input of a replay file (VERIF_ARGS
// file=<path>) and reports whether the property holds on it now.
func codecReplay(t *testing.T, r *run) {
	cdInstallLoader()
	b, err := os.ReadFile(r.arg("file", ""))
	if err != nil {
		t.Fatal(err)
	}
	var rp struct {
		Codec   string `json:"codec"`
		Mode    int    `json:"mode"`
		Session *cdCSess `json:"session"`
		Doc     string `json:"document_hex"`
	}
	if err := json.Unmarshal(b, &rp); err != nil {
		t.Fatal(err)
	}
	switch {
	case rp.Session != nil:
		rec, err := cdRoundTrip(rp.Codec, []string{"replay"}, cdFromCSess(*rp.Session), rp.Mode, false, true)
		if err != nil {
			t.Fatal(err)
		}
		r.emit(rec)
	case rp.Doc != "":
		doc, err := hex.DecodeString(rp.Doc)
		if err != nil {
			t.Fatal(err)
		}
		r.emit(cdOneMutation("replay", doc, rp.Mode, false))
	default:
		t.Fatal("replay file names no input")
	}
}

// ---------------------------------------------------------------------------
// Family codeclaws (audit task A8): the three clauses that the Coq theorems of
// C17 assume of the libraries (json_lib_ok, Proofs/CodecLaws2.v), stated on the
// real time and encoding/json directly, not through the package:
//   law1  an ASCII string comes back unchanged from json.Marshal + json.Unmarshal
//         into interface{};
//   law2  t.Format(time.RFC3339) is ASCII, for every instant;
//   law3  inside RFC 3339's domain time.Parse(time.RFC3339, t.Format(time.RFC3339))
//         is t floored to the second with the same zone offset.
// The verdicts are computed here (fields law1/law2/law3) and again in Coq from
// the raw observations (Model/CodecLawCase.v), which also compares the concrete
// RFC 3339 formatter/parser and JSON printer/parser of Model/Rfc3339.v and
// Model/JsonLib.v (the instance of Properties/C17I.v) with the real library.

func init() {
	families["codeclaws"] = codecLaws
}

func cdGenLawTime(r *run, i int) (time.Time, string) {
	switch i % 12 {
	case 0: // beyond year 9999 / before year 0: outside the domain, law2 only
		if r.rng.IntN(2) == 0 {
			return time.Unix(cdYear9999End+1+r.rng.Int64N(400*365*86400), int64(r.rng.IntN(1000000000))).UTC(), "t:after-9999,z:utc"
		}
		return time.Unix(cdYear1Start-366*86400-1-r.rng.Int64N(400*365*86400), 0).UTC(), "t:before-0,z:utc"
	case 1: // year 0, which RFC 3339 allows
		return time.Unix(cdYear1Start-1-r.rng.Int64N(366*86400), int64(r.rng.IntN(1000000000))).UTC(), "t:year0,z:utc"
	case 2: // the edges of the domain in local time
		off := (r.rng.IntN(28*60+1) - 14*60) * 60
		edge := []int64{-62167219200, 253402300799}[r.rng.IntN(2)]
		return time.Unix(edge-int64(off)+int64(r.rng.IntN(3))-1, 0).In(time.FixedZone("", off)), "t:domain-edge,z:random-minutes"
	case 3: // leap days and month ends
		y := 1 + r.rng.IntN(9998)
		m := time.Month(1 + r.rng.IntN(12))
		t := time.Date(y, m+1, 1, 0, 0, 0, 0, time.UTC).Add(-time.Duration(1+r.rng.IntN(2)) * time.Second)
		off := (r.rng.IntN(28*60+1) - 14*60) * 60
		return t.In(time.FixedZone("", off)), "t:month-end,z:random-minutes"
	case 4: // offsets up to a day, whole minutes
		off := (r.rng.IntN(2*1439+1) - 1439) * 60
		return time.Unix(cdYear2000+r.rng.Int64N(40*365*86400), int64(r.rng.IntN(1000000000))).In(time.FixedZone("", off)), "t:recent,z:wide-minutes"
	case 5: // offsets with seconds, both signs: outside the domain
		off := r.rng.IntN(2*50000+1) - 50000
		return time.Unix(cdYear2000+r.rng.Int64N(40*365*86400), 0).In(time.FixedZone("", off)), "t:recent,z:seconds"
	}
	return cdGenTime(r, i%2 == 0)
}

func cdGenASCII(r *run) string {
	switch r.rng.IntN(4) {
	case 0:
		s, _ := cdGenString(r, false)
		ok := true
		for i := 0; i < len(s); i++ {
			if s[i] >= 0x80 {
				ok = false
			}
		}
		if ok {
			return s
		}
		return "x"
	case 1: // every ASCII byte in turn, including controls, quote, backslash, <, >, &, DEL
		b := make([]byte, 128)
		for i := range b {
			b[i] = byte(i)
		}
		lo := r.rng.IntN(128)
		return string(b[lo : lo+1+r.rng.IntN(128-lo)])
	default:
		b := make([]byte, r.rng.IntN(24))
		for i := range b {
			b[i] = byte(r.rng.IntN(128))
		}
		return string(b)
	}
}

func codecLaws(t *testing.T, r *run) {
	for i := 0; i < r.n; i++ {
		tm, kind := cdGenLawTime(r, i)
		ct := cdToCTime(tm)
		text := tm.Format(time.RFC3339)
		law2 := true
		for j := 0; j < len(text); j++ {
			if text[j] >= 0x80 {
				law2 = false
			}
		}
		back, perr := time.Parse(time.RFC3339, text)
		inDom := cdRfcDom(ct)
		backCoq := "None"
		law3 := !inDom
		if perr == nil {
			bc := cdToCTime(back)
			backCoq = "(Some " + cdCoqTime(bc) + ")"
			law3 = !inDom || (bc.Sec == ct.Sec && bc.Nsec == 0 && bc.Off == ct.Off)
		}
		s := cdGenASCII(r)
		sb, merr := json.Marshal(s)
		var sv interface{}
		law1 := merr == nil && json.Unmarshal(sb, &sv) == nil
		s2 := ""
		if law1 {
			var isStr bool
			s2, isStr = sv.(string)
			law1 = isStr && s2 == s
		}
		val := cdGenValue(r, 3, true)
		if i%50 == 7 { // json.Marshal must refuse these
			val = []interface{}{1, map[string]interface{}{"x": []float64{math.NaN(), math.Inf(1), math.Inf(-1)}[r.rng.IntN(3)]}}
		}
		cv, err := cdToCval(val)
		if err != nil {
			t.Fatal(err)
		}
		mb, verr := json.Marshal(val)
		treeCoq, treeKind := "None", "marshal-error"
		if verr == nil {
			var tree interface{}
			if err := json.Unmarshal(mb, &tree); err != nil {
				t.Fatalf("json.Unmarshal refuses json.Marshal's output %q: %v", mb, err)
			}
			tv, err := cdToCval(tree)
			if err != nil {
				t.Fatal(err)
			}
			treeCoq, treeKind = "(Some "+cdCoqCval(tv)+")", "tree:"+cv.K
		} else {
			mb = nil
		}
		r.emit(map[string]interface{}{
			"kind": []string{kind, treeKind}, "t": ct, "text": text, "parse_error": perr != nil, "in_domain": inDom,
			"ascii": cdHx(s), "ascii_back": cdHx(s2), "marshal": cdHx(string(mb)),
			"law1": law1, "law2": law2, "law3": law3,
			"coq": fmt.Sprintf("(mkLW %s %s %s %s %s %s %s %s)", cdCoqTime(ct), cdCoqHx([]byte(text)), backCoq,
				cdCoqHx([]byte(s)), cdCoqHx([]byte(s2)), cdCoqCval(cv), cdCoqHx(mb), treeCoq),
		})
	}
}
