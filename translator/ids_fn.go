package main

// Gen/IdsFn.v: the arithmetic of ids.go TRANSLATED from the Go AST into
// Gallina (not transcribed by hand as Model/Ids.v is). Proofs/IdsFnEquiv.v
// proves on every run that the translated functions equal the model's, so a
// semantic edit of the arithmetic breaks a proof while a rewrite that computes
// the same values does not.
//
// The subset of Go that is translated (ANYTHING else is a hard error that
// names the construct; nothing is skipped silently except the three
// statements listed below):
//
//	types       uint64, uint16, uint8/byte (values: N, every operation reduced
//	            modulo 2^width as Go does), int, int64 (values: Z; only
//	            conversion, comparison, %, / - no signed +,-,* which could
//	            overflow), untyped integer constants (folded exactly, then
//	            converted to the type of the other operand; must be representable),
//	            string literals and strings built from them (list N of bytes),
//	            [n]byte arrays (list N), bool (conditions only)
//	expressions + - * / % & | ^ << >> (shift counts: constants), == != < <= > >=,
//	            && || !, conversions uint64(x) uint16(x) uint8(x) byte(x) int(x)
//	            string(b) for a byte b, len(x), s[i] (nth, default 0),
//	            s + t on strings (++), parentheses, named package constants
//	statements  x := e, x = e, x op= e, x++, x--, var x T (zero value),
//	            if c { .. } [else { .. }] whose branches assign variables
//	            (let x' := if c then .. else ..), for _, b := range a over a
//	            byte array (fold_left), for i := 0; i < CONST; i++ { .. } whose
//	            body does not mention i (Nat.iter CONST), return e
//	division    x / y and x % y are N's (or Z.quot / Z.rem): a zero divisor, on
//	            which Go panics, gives 0 resp. x; an index out of range, on
//	            which Go panics, gives 0. Proofs/IdsFnEquiv.v shows divisors
//	            and indices of the translated functions are in range.
//
// In CUID the statements `lastMutex.Lock()`, `defer lastMutex.Unlock()` and
// `now := time.Now()` are skipped: where they stand is the business of
// Gen/CuidPos.v (Properties/C19K.v). `now.Unix()` and `now.Nanosecond()` become
// the parameters unix (int64) and nanos (int).
//
// CUID's body is emitted whole (gen_cuid_body) and in the pieces at which
// Model/CuidConc.v cuts it; a piece is the statements that assign its
// variables, and reading a variable that is not one of its parameters is an
// error:
//
//	gen_timestamp unix nanos                       timestamp
//	gen_counter_step lastTime lastCounter timestamp  lastCounter, lastTime
//	gen_machash macAddress                         macHash (declaration and range loop)
//	gen_bits timestamp lastCounter macHash         counter, spill, macHash (the if), mac, bits
//	gen_base62 bits                                chars, base, base64, the counted loop
//
// and from RandomID: gen_random_chars, gen_random_index b0 (the index expression
// of chars[...] with b[0] as parameter).

import (
	"fmt"
	"go/ast"
	"go/token"
	"math/big"
	"sort"
	"strconv"
	"strings"
)

type gtype int

const (
	tU8 gtype = iota
	tU16
	tU64
	tInt
	tInt64
	tUntyped
	tBool
	tStr
	tBytes
)

func (t gtype) String() string {
	return [...]string{"uint8", "uint16", "uint64", "int", "int64", "untyped constant", "bool", "string", "byte array"}[t]
}
func (t gtype) unsigned() bool { return t == tU8 || t == tU16 || t == tU64 }
func (t gtype) signed() bool   { return t == tInt || t == tInt64 }
func (t gtype) mod() string {
	switch t {
	case tU8:
		return "m8"
	case tU16:
		return "m16"
	}
	return "m64"
}
func (t gtype) bits() uint {
	switch t {
	case tU8:
		return 8
	case tU16:
		return 16
	}
	return 64
}
func (t gtype) coq() string {
	switch {
	case t.unsigned():
		return "N"
	case t.signed():
		return "Z"
	case t == tBool:
		return "bool"
	}
	return "list N"
}

type gval struct {
	code  string
	t     gtype
	c     *big.Int // tUntyped
	ascii bool     // see binding
}

type binding struct {
	coq   string
	t     gtype
	ascii bool // tStr: bound to a literal whose bytes are all below 0x80; tU8: a byte taken from such a string
}

type fnEnv struct {
	g       *idsFnGen
	vars    map[string]binding
	counter map[string]int // shared by all scopes of one function
	where   string
}

func (e *fnEnv) clone() *fnEnv {
	n := &fnEnv{g: e.g, vars: map[string]binding{}, counter: e.counter, where: e.where}
	for k, v := range e.vars {
		n.vars[k] = v
	}
	return n
}

// fresh gives the next Coq name of a Go variable: name'k. The apostrophe cannot
// occur in a Go identifier, so no Go variable (first_1 next to first, or one
// called uadd, st, m64 ...) can capture a generated name or a prelude name.
func (e *fnEnv) fresh(name string) string {
	k := e.counter[name]
	e.counter[name] = k + 1
	return fmt.Sprintf("%s'%d", name, k)
}

// declare introduces a NEW Go variable (:=, var, range value, loop variable). A
// name that is already in scope at any depth would shadow it in Go - the outer
// variable is then NOT assigned - which this translator does not model: hard error.
func (e *fnEnv) declare(n ast.Node, name string, t gtype) string {
	if _, ok := e.vars[name]; ok {
		e.g.fail(n, e.where, "`%s` is declared here but is already in scope: shadowing is outside the translated subset", name)
	}
	if e.g.pkgConst(name) != nil {
		e.g.fail(n, e.where, "`%s` is declared here but is a package constant: shadowing is outside the translated subset", name)
	}
	return e.bind(name, t)
}

func (e *fnEnv) bind(name string, t gtype) string {
	c := e.fresh(name)
	e.vars[name] = binding{coq: c, t: t}
	return c
}

type idsFnGen struct {
	p *pkg
}

type fnErr struct{ msg string }

func (g *idsFnGen) fail(n ast.Node, where, format string, a ...interface{}) {
	pos := g.p.fset.Position(n.Pos())
	panic(fnErr{fmt.Sprintf("ids_fn: %s: ids.go:%d: %s", where, pos.Line, fmt.Sprintf(format, a...))})
}

func init() {
	generators["IdsFn"] = func(p *pkg) (text string, err error) {
		defer func() {
			if r := recover(); r != nil {
				if fe, ok := r.(fnErr); ok {
					text, err = "", fmt.Errorf("%s", fe.msg)
					return
				}
				panic(r)
			}
		}()
		g := &idsFnGen{p: p}
		return g.generate(), nil
	}
}

const idsFnPrelude = `(* Generated from /repo/ids.go by /verif/translator (ids_fn.go). Do not edit.

   The arithmetic of CUID and RandomID translated from the Go AST. Values of
   unsigned Go types are N, reduced modulo 2^width after every operation that
   can leave the range; int and int64 are Z. The statements lastMutex.Lock(),
   defer lastMutex.Unlock() and now := time.Now() of CUID are skipped here
   (their position is pinned by Gen/CuidPos.v); now.Unix() and
   now.Nanosecond() are the parameters unix and nanos. A zero divisor or an
   index out of range, on which Go panics, yields N's x / 0 = 0, x mod 0 = x
   resp. the default 0 of nth. *)
From Coq Require Import List ZArith NArith Bool.
Import ListNotations.

Definition m8 : N := 256.
Definition m16 : N := 65536.
Definition m64 : N := 18446744073709551616.
(* the operations of an unsigned type with modulus m on operands below m *)
Definition uadd (m a b : N) : N := ((a + b) mod m)%N.
Definition usub (m a b : N) : N := ((a + (m - b mod m)) mod m)%N.
Definition umul (m a b : N) : N := ((a * b) mod m)%N.
Definition ushl (m a k : N) : N := (N.shiftl a k mod m)%N.
Definition unot (m a : N) : N := (m - 1 - a mod m)%N.
(* conversions to an unsigned type: from an unsigned type, from a signed one (two's complement) *)
Definition uconv (m a : N) : N := (a mod m)%N.
Definition sconv (m : N) (z : Z) : N := Z.to_N (z mod Z.of_N m).

`

func (g *idsFnGen) generate() string {
	cuid := g.p.funcDecl("", "CUID")
	if cuid == nil || cuid.Body == nil {
		panic(fnErr{"ids_fn: function CUID not found"})
	}
	rid := g.p.funcDecl("", "RandomID")
	if rid == nil || rid.Body == nil {
		panic(fnErr{"ids_fn: function RandomID not found"})
	}
	var b strings.Builder
	b.WriteString(idsFnPrelude)

	// classify CUID's top-level statements
	type seg struct {
		name   string
		params []string // Go names
		outs   []string
		stmts  []ast.Stmt
	}
	segs := []*seg{
		{name: "gen_timestamp", params: []string{"unix", "nanos"}, outs: []string{"timestamp"}},
		{name: "gen_counter_step", params: []string{"lastTime", "lastCounter", "timestamp"}, outs: []string{"lastTime", "lastCounter"}},
		{name: "gen_machash", params: []string{"macAddress"}, outs: []string{"macHash"}},
		{name: "gen_bits", params: []string{"timestamp", "lastCounter", "macHash"}, outs: []string{"bits"}},
		{name: "gen_base62", params: []string{"bits"}, outs: []string{"base64"}},
	}
	owner := map[string]int{"timestamp": 0, "lastCounter": 1, "lastTime": 1, "counter": 3, "spill": 3, "mac": 3, "bits": 3,
		"chars": 4, "base": 4, "base64": 4}
	var whole []ast.Stmt
	var ret *ast.ReturnStmt
	var skipped []string
	for _, st := range cuid.Body.List {
		txt := oneLine(g.p.text(st))
		if txt == "lastMutex.Lock()" || txt == "defer lastMutex.Unlock()" || txt == "now := time.Now()" {
			skipped = append(skipped, txt)
			continue
		}
		if r, ok := st.(*ast.ReturnStmt); ok {
			if ret != nil {
				g.fail(st, "CUID", "second return statement")
			}
			ret = r
			continue
		}
		if ret != nil {
			g.fail(st, "CUID", "statement after return")
		}
		whole = append(whole, st)
		k := -1
		switch x := st.(type) {
		case *ast.RangeStmt:
			k = 2
		case *ast.ForStmt:
			k = 4
		case *ast.DeclStmt:
			names := declNames(x)
			if len(names) == 1 && names[0] == "macHash" {
				k = 2
			} else if len(names) == 1 {
				if o, ok := owner[names[0]]; ok {
					k = o
				}
			}
		default:
			as := assignedNames(st)
			for _, a := range as {
				o, ok := owner[a]
				if a == "macHash" {
					o, ok = 3, true
				}
				if !ok || (k >= 0 && k != o) {
					g.fail(st, "CUID", "statement `%s` assigns %s: it does not belong to one piece (pieces are delimited by the variables timestamp | lastCounter lastTime | macHash | counter spill mac bits | chars base base64)", txt, strings.Join(as, ", "))
				}
				k = o
			}
		}
		if k < 0 {
			g.fail(st, "CUID", "statement `%s` is outside the translated subset (assigns nothing that delimits a piece)", txt)
		}
		segs[k].stmts = append(segs[k].stmts, st)
	}
	for _, want := range []string{"lastMutex.Lock()", "defer lastMutex.Unlock()", "now := time.Now()"} {
		n := 0
		for _, got := range skipped {
			if got == want {
				n++
			}
		}
		if n != 1 {
			panic(fnErr{fmt.Sprintf("ids_fn: CUID: the statement `%s` must occur exactly once at the top level of the body (it is skipped here and pinned by Gen/CuidPos.v); found %d", want, n)})
		}
	}
	g.stdImport("ids.go", "time")
	if ret == nil || len(ret.Results) != 1 {
		panic(fnErr{"ids_fn: CUID: no single-result return statement at the end"})
	}
	fmt.Fprintf(&b, "(* func CUID. Skipped (see Gen/CuidPos.v): %s *)\n\n", strings.Join(skipped, "; "))

	for _, s := range segs {
		if len(s.stmts) == 0 {
			panic(fnErr{"ids_fn: CUID: no statements found for " + s.name})
		}
		b.WriteString(g.function(s.name, s.params, s.stmts, s.outs, nil))
	}
	b.WriteString("(* the whole body, statements in source order *)\n")
	b.WriteString(g.function("gen_cuid_body", []string{"unix", "nanos", "lastTime", "lastCounter", "macAddress"}, whole,
		[]string{"lastTime", "lastCounter"}, ret.Results[0]))

	b.WriteString(g.randomID(rid))
	return b.String()
}

// stdImport: the file imports the standard package path under its own name.
func (g *idsFnGen) stdImport(file, path string) {
	f := g.p.files[file]
	if f == nil {
		panic(fnErr{"ids_fn: " + file + " not found"})
	}
	found := false
	for _, im := range f.Imports {
		ip, _ := strconv.Unquote(im.Path.Value)
		name := ip
		if i := strings.LastIndex(ip, "/"); i >= 0 {
			name = ip[i+1:]
		}
		if im.Name != nil {
			name = im.Name.Name
		}
		if name == path && ip != path {
			panic(fnErr{fmt.Sprintf("ids_fn: %s: the name %s is an import of %q, not of the standard package", file, path, ip)})
		}
		if ip == path && im.Name == nil {
			found = true
		}
	}
	if !found {
		panic(fnErr{fmt.Sprintf("ids_fn: %s does not import %q under its own name", file, path)})
	}
}

func declNames(d *ast.DeclStmt) []string {
	var out []string
	if gd, ok := d.Decl.(*ast.GenDecl); ok {
		for _, s := range gd.Specs {
			if vs, ok := s.(*ast.ValueSpec); ok {
				for _, n := range vs.Names {
					out = append(out, n.Name)
				}
			}
		}
	}
	return out
}

// names assigned anywhere inside a statement (sorted, without duplicates)
func assignedNames(st ast.Stmt) []string {
	set := map[string]bool{}
	ast.Inspect(st, func(n ast.Node) bool {
		switch x := n.(type) {
		case *ast.AssignStmt:
			for _, l := range x.Lhs {
				if id, ok := l.(*ast.Ident); ok {
					set[id.Name] = true
				}
			}
		case *ast.IncDecStmt:
			if id, ok := x.X.(*ast.Ident); ok {
				set[id.Name] = true
			}
		case *ast.DeclStmt:
			for _, n := range declNames(x) {
				set[n] = true
			}
		}
		return true
	})
	var out []string
	for k := range set {
		out = append(out, k)
	}
	sort.Strings(out)
	return out
}

// the Go type of a parameter of a generated function
func (g *idsFnGen) paramType(name string) gtype {
	switch name {
	case "unix":
		return tInt64
	case "nanos":
		return tInt
	case "lastTime", "lastCounter":
		if g.pkgVarType(name) != "uint64" {
			panic(fnErr{fmt.Sprintf("ids_fn: package variable %s is not declared uint64", name)})
		}
		return tU64
	case "macAddress":
		if !strings.HasSuffix(g.pkgVarType(name), "]byte") {
			panic(fnErr{fmt.Sprintf("ids_fn: package variable macAddress is not a byte array but %s", g.pkgVarType(name))})
		}
		return tBytes
	case "timestamp", "bits":
		return tU64
	case "macHash":
		return tU16
	case "b0":
		return tU8
	}
	panic(fnErr{"ids_fn: unknown parameter " + name})
}

func (g *idsFnGen) pkgVarType(name string) string {
	for _, f := range g.p.files {
		for _, d := range f.Decls {
			gd, ok := d.(*ast.GenDecl)
			if !ok || gd.Tok != token.VAR {
				continue
			}
			for _, s := range gd.Specs {
				vs := s.(*ast.ValueSpec)
				for _, n := range vs.Names {
					if n.Name == name && vs.Type != nil {
						return oneLine(g.p.text(vs.Type))
					}
				}
			}
		}
	}
	return "?"
}

func (g *idsFnGen) pkgConst(name string) ast.Expr {
	for _, f := range g.p.files {
		for _, d := range f.Decls {
			gd, ok := d.(*ast.GenDecl)
			if !ok || gd.Tok != token.CONST {
				continue
			}
			for _, s := range gd.Specs {
				vs := s.(*ast.ValueSpec)
				for i, n := range vs.Names {
					if n.Name == name && vs.Type == nil && i < len(vs.Values) {
						return vs.Values[i]
					}
				}
			}
		}
	}
	return nil
}

// function emits one Definition: the statements as a chain of lets, the result
// the tuple of the final values of outs (and of retExpr, last, if given).
func (g *idsFnGen) function(name string, params []string, stmts []ast.Stmt, outs []string, retExpr ast.Expr) string {
	env := &fnEnv{g: g, vars: map[string]binding{}, counter: map[string]int{}, where: name}
	var ps []string
	for _, p := range params {
		t := g.paramType(p)
		c := env.bind(p, t)
		ps = append(ps, fmt.Sprintf("(%s : %s)", c, t.coq()))
	}
	var lines []string
	for _, st := range stmts {
		lines = append(lines, env.stmt(st)...)
	}
	var res, rts []string
	for _, o := range outs {
		bd, ok := env.vars[o]
		if !ok {
			panic(fnErr{fmt.Sprintf("ids_fn: %s: result variable %s is never assigned", name, o)})
		}
		res = append(res, bd.coq)
		rts = append(rts, bd.t.coq())
	}
	if retExpr != nil {
		v := env.expr(retExpr)
		if v.t == tUntyped {
			g.fail(retExpr, name, "returns an untyped constant")
		}
		res = append(res, v.code)
		rts = append(rts, v.t.coq())
	}
	var b strings.Builder
	fmt.Fprintf(&b, "Definition %s %s : %s :=\n", name, strings.Join(ps, " "), strings.Join(rts, " * "))
	for _, l := range lines {
		b.WriteString("  " + l + "\n")
	}
	if len(res) == 1 {
		fmt.Fprintf(&b, "  %s.\n\n", res[0])
	} else {
		fmt.Fprintf(&b, "  (%s).\n\n", strings.Join(res, ", "))
	}
	return b.String()
}

func (g *idsFnGen) randomID(rid *ast.FuncDecl) string {
	var lit string
	found := false
	var idx ast.Expr
	ast.Inspect(rid.Body, func(n ast.Node) bool {
		switch x := n.(type) {
		case *ast.AssignStmt:
			if len(x.Lhs) == 1 && len(x.Rhs) == 1 {
				if id, ok := x.Lhs[0].(*ast.Ident); ok && id.Name == "chars" {
					bl, ok := x.Rhs[0].(*ast.BasicLit)
					if !ok || bl.Kind != token.STRING || found {
						g.fail(x, "RandomID", "chars is not assigned exactly once from a string literal")
					}
					s, err := strconv.Unquote(bl.Value)
					if err != nil {
						g.fail(x, "RandomID", "string literal: %v", err)
					}
					lit, found = s, true
				}
			}
		case *ast.IndexExpr:
			if id, ok := x.X.(*ast.Ident); ok && id.Name == "chars" {
				if idx != nil {
					g.fail(x, "RandomID", "chars is indexed more than once")
				}
				idx = x.Index
			}
		}
		return true
	})
	if !found || idx == nil {
		panic(fnErr{"ids_fn: RandomID: chars := \"...\" or chars[...] not found"})
	}
	env := &fnEnv{g: g, vars: map[string]binding{}, counter: map[string]int{}, where: "gen_random_index"}
	env.vars["chars"] = binding{coq: "gen_random_chars", t: tStr}
	env.vars["b[0]"] = binding{coq: "b'0", t: tU8}
	v := env.expr(idx)
	if v.t == tUntyped {
		g.fail(idx, "RandomID", "index is a constant")
	}
	var b strings.Builder
	b.WriteString("(* func RandomID: the alphabet and the index expression of chars[...], b[0] as parameter *)\n")
	fmt.Fprintf(&b, "Definition gen_random_chars : list N := %s%%N.\n", coqBytes(lit))
	fmt.Fprintf(&b, "Definition gen_random_index (b'0 : N) : %s :=\n  %s.\n", v.t.coq(), v.code)
	return b.String()
}

// ---- statements ----

func (e *fnEnv) stmts(list []ast.Stmt) []string {
	var out []string
	for _, s := range list {
		out = append(out, e.stmt(s)...)
	}
	return out
}

// assign gives variable name (which must exist unless define) the value v.
func (e *fnEnv) assign(n ast.Node, name string, v gval, define bool) []string {
	var t gtype
	if define {
		if v.t == tUntyped {
			v = e.convert(n, v, tInt)
		}
		if v.t == tBool {
			e.g.fail(n, e.where, "boolean variable %s is outside the translated subset", name)
		}
		t = v.t
	} else {
		bd, ok := e.vars[name]
		if !ok {
			e.g.fail(n, e.where, "assignment to %s, which is neither a local nor a parameter of this piece", name)
		}
		t = bd.t
		v = e.convert(n, v, t)
	}
	var c string
	if define {
		c = e.declare(n, name, t)
	} else {
		c = e.bind(name, t)
	}
	bd := e.vars[name]
	bd.ascii = v.ascii
	e.vars[name] = bd
	return []string{fmt.Sprintf("let %s := %s in", c, v.code)}
}

func (e *fnEnv) stmt(st ast.Stmt) []string {
	g := e.g
	switch x := st.(type) {
	case *ast.AssignStmt:
		if len(x.Lhs) != 1 || len(x.Rhs) != 1 {
			g.fail(x, e.where, "multiple assignment `%s` is outside the translated subset", oneLine(g.p.text(x)))
		}
		id, ok := x.Lhs[0].(*ast.Ident)
		if !ok {
			g.fail(x, e.where, "assignment to `%s` (not a variable) is outside the translated subset", oneLine(g.p.text(x.Lhs[0])))
		}
		switch x.Tok {
		case token.DEFINE:
			return e.assign(x, id.Name, e.expr(x.Rhs[0]), true)
		case token.ASSIGN:
			return e.assign(x, id.Name, e.expr(x.Rhs[0]), false)
		}
		ops := map[token.Token]token.Token{token.ADD_ASSIGN: token.ADD, token.SUB_ASSIGN: token.SUB, token.MUL_ASSIGN: token.MUL,
			token.QUO_ASSIGN: token.QUO, token.REM_ASSIGN: token.REM, token.AND_ASSIGN: token.AND, token.OR_ASSIGN: token.OR,
			token.XOR_ASSIGN: token.XOR, token.SHL_ASSIGN: token.SHL, token.SHR_ASSIGN: token.SHR}
		op, ok := ops[x.Tok]
		if !ok {
			g.fail(x, e.where, "assignment operator %s is outside the translated subset", x.Tok)
		}
		return e.assign(x, id.Name, e.binary(x, op, e.expr(id), e.expr(x.Rhs[0])), false)
	case *ast.IncDecStmt:
		id, ok := x.X.(*ast.Ident)
		if !ok {
			g.fail(x, e.where, "`%s` (not a variable) is outside the translated subset", oneLine(g.p.text(x)))
		}
		op := token.ADD
		if x.Tok == token.DEC {
			op = token.SUB
		}
		return e.assign(x, id.Name, e.binary(x, op, e.expr(id), gval{t: tUntyped, c: big.NewInt(1)}), false)
	case *ast.DeclStmt:
		gd, ok := x.Decl.(*ast.GenDecl)
		if !ok || gd.Tok != token.VAR || len(gd.Specs) != 1 {
			g.fail(x, e.where, "declaration `%s` is outside the translated subset", oneLine(g.p.text(x)))
		}
		vs := gd.Specs[0].(*ast.ValueSpec)
		if len(vs.Names) != 1 || len(vs.Values) != 0 || vs.Type == nil {
			g.fail(x, e.where, "declaration `%s` is outside the translated subset (only `var x T`)", oneLine(g.p.text(x)))
		}
		t, ok := e.typeOf(vs.Type)
		if !ok || t == tBytes {
			g.fail(x, e.where, "declared type %s is outside the translated subset", oneLine(g.p.text(vs.Type)))
		}
		zero := "0%N"
		if t.signed() {
			zero = "0%Z"
		} else if t == tStr {
			zero = "(@nil N)"
		}
		c := e.declare(x, vs.Names[0].Name, t)
		return []string{fmt.Sprintf("let %s := %s in", c, zero)}
	case *ast.IfStmt:
		if x.Init != nil {
			g.fail(x, e.where, "if with an init statement is outside the translated subset")
		}
		cond := e.expr(x.Cond)
		if cond.t != tBool {
			g.fail(x.Cond, e.where, "condition is not boolean")
		}
		te, ee := e.clone(), e.clone()
		tl := te.stmts(x.Body.List)
		var el []string
		switch els := x.Else.(type) {
		case nil:
		case *ast.BlockStmt:
			el = ee.stmts(els.List)
		default:
			g.fail(x.Else, e.where, "else-if is outside the translated subset")
		}
		ws := e.changed(te, ee)
		if len(ws) == 0 {
			g.fail(x, e.where, "if statement that assigns no outer variable")
		}
		pat, tres, eres := e.tuples(ws, te, ee)
		return []string{fmt.Sprintf("let %s := if %s then (%s %s) else (%s %s) in", pat, cond.code,
			strings.Join(tl, " "), tres, strings.Join(el, " "), eres)}
	case *ast.RangeStmt:
		if x.Tok != token.DEFINE || x.Value == nil {
			g.fail(x, e.where, "range statement `%s` is outside the translated subset (only `for _, v := range array`)", stmtHead(g.p, x))
		}
		if k, ok := x.Key.(*ast.Ident); !ok || k.Name != "_" {
			g.fail(x, e.where, "range with an index variable is outside the translated subset")
		}
		v, ok := x.Value.(*ast.Ident)
		if !ok {
			g.fail(x, e.where, "range value is not a variable")
		}
		arr := e.expr(x.X)
		if arr.t != tBytes {
			g.fail(x.X, e.where, "range over %s is outside the translated subset (only byte arrays)", arr.t)
		}
		noBranch(g, e.where, x.Body)
		be := e.clone()
		ws := e.assignedOuter(x.Body)
		if len(ws) == 0 {
			g.fail(x, e.where, "loop that assigns no outer variable")
		}
		// the carried variables become the lambda's state
		var stNames []string
		for _, w := range ws {
			stNames = append(stNames, be.bind(w, e.vars[w].t))
		}
		if _, ok := e.vars[v.Name]; ok || g.pkgConst(v.Name) != nil {
			g.fail(x, e.where, "range variable `%s` is already in scope: shadowing is outside the translated subset", v.Name)
		}
		for _, a := range assignedNames(x.Body) {
			if a == v.Name {
				g.fail(x, e.where, "the loop body assigns the range variable `%s`: outside the translated subset", v.Name)
			}
		}
		elem := be.bind(v.Name, tU8)
		body := be.stmts(x.Body.List)
		var cur, end []string
		for _, w := range ws {
			cur = append(cur, e.vars[w].coq)
			end = append(end, be.vars[w].coq)
		}
		var news []string
		for _, w := range ws {
			news = append(news, e.bind(w, e.vars[w].t))
		}
		return []string{fmt.Sprintf("let %s := fold_left (fun %s %s => %s %s) %s %s in", letPat(news),
			lamPat(stNames, "st"), elem, strings.Join(append(lamOpen(stNames, "st"), body...), " "), tuple(end), arr.code, tuple(cur))}
	case *ast.ForStmt:
		n := e.countedLoop(x)
		noBranch(g, e.where, x.Body)
		be := e.clone()
		ws := e.assignedOuter(x.Body)
		if len(ws) == 0 {
			g.fail(x, e.where, "loop that assigns no outer variable")
		}
		var stNames []string
		for _, w := range ws {
			stNames = append(stNames, be.bind(w, e.vars[w].t))
		}
		body := be.stmts(x.Body.List)
		var cur, end []string
		for _, w := range ws {
			cur = append(cur, e.vars[w].coq)
			end = append(end, be.vars[w].coq)
		}
		var news []string
		for _, w := range ws {
			news = append(news, e.bind(w, e.vars[w].t))
		}
		return []string{fmt.Sprintf("let %s := Nat.iter %d (fun %s => %s %s) %s in", letPat(news), n,
			lamPat(stNames, "st"), strings.Join(append(lamOpen(stNames, "st"), body...), " "), tuple(end), tuple(cur))}
	}
	g.fail(st, e.where, "statement `%s` (%T) is outside the translated subset", stmtHead(g.p, st), st)
	return nil
}

func stmtHead(p *pkg, n ast.Node) string {
	s := oneLine(p.text(n))
	if len(s) > 60 {
		s = s[:60] + "..."
	}
	return s
}

func tuple(xs []string) string {
	if len(xs) == 1 {
		return xs[0]
	}
	return "(" + strings.Join(xs, ", ") + ")"
}
func letPat(xs []string) string {
	if len(xs) == 1 {
		return xs[0]
	}
	return "'(" + strings.Join(xs, ", ") + ")"
}
func lamPat(xs []string, st string) string {
	if len(xs) == 1 {
		return xs[0]
	}
	return st
}
func lamOpen(xs []string, st string) []string {
	if len(xs) == 1 {
		return nil
	}
	return []string{fmt.Sprintf("let '(%s) := %s in", strings.Join(xs, ", "), st)}
}

func noBranch(g *idsFnGen, where string, body *ast.BlockStmt) {
	ast.Inspect(body, func(n ast.Node) bool {
		switch n.(type) {
		case *ast.BranchStmt, *ast.ReturnStmt, *ast.GoStmt, *ast.DeferStmt, *ast.FuncLit:
			g.fail(n, where, "break/continue/goto/return/go/defer/func literal inside a loop is outside the translated subset")
		}
		return true
	})
}

// variables of the outer scope whose binding differs in a or b
func (e *fnEnv) changed(a, b *fnEnv) []string {
	var ws []string
	for name, bd := range e.vars {
		if a.vars[name] != bd || b.vars[name] != bd {
			ws = append(ws, name)
		}
	}
	sort.Strings(ws)
	return ws
}

func (e *fnEnv) tuples(ws []string, a, b *fnEnv) (pat, ares, bres string) {
	var news, as, bs []string
	for _, w := range ws {
		as = append(as, a.vars[w].coq)
		bs = append(bs, b.vars[w].coq)
	}
	for _, w := range ws {
		news = append(news, e.bind(w, e.vars[w].t))
	}
	return letPat(news), tuple(as), tuple(bs)
}

// outer variables assigned in a loop body, in sorted order
func (e *fnEnv) assignedOuter(body *ast.BlockStmt) []string {
	var ws []string
	for _, n := range assignedNames(body) {
		if _, ok := e.vars[n]; ok {
			ws = append(ws, n)
		}
	}
	return ws
}

// for i := 0; i < CONST; i++ with a body that does not mention i
func (e *fnEnv) countedLoop(x *ast.ForStmt) int64 {
	g := e.g
	bad := func() {
		g.fail(x, e.where, "loop header `%s` is outside the translated subset (only `for i := 0; i < CONST; i++`)", stmtHead(g.p, x))
	}
	init, ok := x.Init.(*ast.AssignStmt)
	if !ok || init.Tok != token.DEFINE || len(init.Lhs) != 1 || len(init.Rhs) != 1 {
		bad()
	}
	iv, ok := init.Lhs[0].(*ast.Ident)
	if !ok {
		bad()
	}
	if _, ok := e.vars[iv.Name]; ok || g.pkgConst(iv.Name) != nil {
		g.fail(x, e.where, "loop variable `%s` is already in scope: shadowing is outside the translated subset", iv.Name)
	}
	zero := e.expr(init.Rhs[0])
	if zero.t != tUntyped || zero.c.Sign() != 0 {
		bad()
	}
	cond, ok := x.Cond.(*ast.BinaryExpr)
	if !ok || cond.Op != token.LSS {
		bad()
	}
	if l, ok := cond.X.(*ast.Ident); !ok || l.Name != iv.Name {
		bad()
	}
	bound := e.expr(cond.Y)
	if bound.t != tUntyped || !bound.c.IsInt64() || bound.c.Sign() < 0 || bound.c.Int64() > 4096 {
		bad()
	}
	post, ok := x.Post.(*ast.IncDecStmt)
	if !ok || post.Tok != token.INC {
		bad()
	}
	if l, ok := post.X.(*ast.Ident); !ok || l.Name != iv.Name {
		bad()
	}
	ast.Inspect(x.Body, func(n ast.Node) bool {
		if id, ok := n.(*ast.Ident); ok && id.Name == iv.Name {
			// `len` is also the builtin: a call len(...) in the body would refer to the loop variable in Go and not compile
			g.fail(id, e.where, "the loop body mentions the loop variable %s: outside the translated subset", iv.Name)
		}
		return true
	})
	return bound.c.Int64()
}

// ---- expressions ----

func (e *fnEnv) typeOf(t ast.Expr) (gtype, bool) {
	id, ok := t.(*ast.Ident)
	if !ok {
		return 0, false
	}
	switch id.Name {
	case "uint64":
		return tU64, true
	case "uint16":
		return tU16, true
	case "uint8", "byte":
		return tU8, true
	case "int":
		return tInt, true
	case "int64":
		return tInt64, true
	case "string":
		return tStr, true
	}
	return 0, false
}

func nLit(c *big.Int) string { return c.String() + "%N" }
func zLit(c *big.Int) string {
	if c.Sign() < 0 {
		return "(" + c.String() + ")%Z"
	}
	return c.String() + "%Z"
}

// convert v to type t (implicit conversion of untyped constants; identity otherwise)
func (e *fnEnv) convert(n ast.Node, v gval, t gtype) gval {
	if v.t == t {
		return v
	}
	if v.t != tUntyped {
		e.g.fail(n, e.where, "mismatched types %s and %s", v.t, t)
	}
	switch {
	case t.unsigned():
		lim := new(big.Int).Lsh(big.NewInt(1), t.bits())
		if v.c.Sign() < 0 || v.c.Cmp(lim) >= 0 {
			e.g.fail(n, e.where, "constant %s overflows %s", v.c, t)
		}
		return gval{code: nLit(v.c), t: t}
	case t.signed():
		lim := new(big.Int).Lsh(big.NewInt(1), 63)
		if v.c.CmpAbs(lim) >= 0 {
			e.g.fail(n, e.where, "constant %s overflows %s", v.c, t)
		}
		return gval{code: zLit(v.c), t: t}
	}
	e.g.fail(n, e.where, "constant %s used as %s", v.c, t)
	return v
}

func (e *fnEnv) expr(x ast.Expr) gval {
	g := e.g
	switch x := x.(type) {
	case *ast.ParenExpr:
		return e.expr(x.X)
	case *ast.BasicLit:
		switch x.Kind {
		case token.INT:
			c, ok := new(big.Int).SetString(strings.ReplaceAll(x.Value, "_", ""), 0)
			if !ok {
				g.fail(x, e.where, "integer literal %s", x.Value)
			}
			return gval{t: tUntyped, c: c}
		case token.STRING:
			s, err := strconv.Unquote(x.Value)
			if err != nil {
				g.fail(x, e.where, "string literal: %v", err)
			}
			ascii := true
			for i := 0; i < len(s); i++ {
				if s[i] >= 0x80 {
					ascii = false
				}
			}
			return gval{code: coqBytes(s) + "%N", t: tStr, ascii: ascii}
		}
		g.fail(x, e.where, "literal %s is outside the translated subset", x.Value)
	case *ast.Ident:
		if bd, ok := e.vars[x.Name]; ok {
			return gval{code: bd.coq, t: bd.t, ascii: bd.ascii}
		}
		if ce := g.pkgConst(x.Name); ce != nil {
			v := (&fnEnv{g: g, vars: map[string]binding{}, counter: map[string]int{}, where: e.where}).expr(ce)
			if v.t != tUntyped {
				g.fail(x, e.where, "package constant %s is not an untyped integer constant", x.Name)
			}
			return v
		}
		g.fail(x, e.where, "`%s` is not a local variable, a parameter of this piece (%s) or an untyped package constant", x.Name, e.params())
	case *ast.UnaryExpr:
		v := e.expr(x.X)
		switch x.Op {
		case token.NOT:
			if v.t == tBool {
				return gval{code: "(negb " + v.code + ")", t: tBool}
			}
		case token.SUB:
			if v.t == tUntyped {
				return gval{t: tUntyped, c: new(big.Int).Neg(v.c)}
			}
		case token.ADD:
			if v.t == tUntyped {
				return v
			}
		case token.XOR:
			if v.t.unsigned() {
				return gval{code: fmt.Sprintf("(unot %s %s)", v.t.mod(), v.code), t: v.t}
			}
		}
		g.fail(x, e.where, "unary %s on %s is outside the translated subset", x.Op, v.t)
	case *ast.BinaryExpr:
		return e.binary(x, x.Op, e.expr(x.X), e.expr(x.Y))
	case *ast.IndexExpr:
		if bd, ok := e.vars[oneLine(g.p.text(x))]; ok { // b[0] of RandomID
			return gval{code: bd.coq, t: bd.t}
		}
		s := e.expr(x.X)
		if s.t != tStr && s.t != tBytes {
			g.fail(x, e.where, "indexing %s is outside the translated subset", s.t)
		}
		i := e.expr(x.Index)
		switch {
		case i.t == tUntyped:
			if i.c.Sign() < 0 {
				g.fail(x, e.where, "negative index")
			}
			return gval{code: fmt.Sprintf("(nth (N.to_nat %s) %s 0%%N)", nLit(i.c), s.code), t: tU8, ascii: s.ascii && s.t == tStr}
		case i.t.unsigned():
			return gval{code: fmt.Sprintf("(nth (N.to_nat %s) %s 0%%N)", i.code, s.code), t: tU8, ascii: s.ascii && s.t == tStr}
		case i.t.signed():
			return gval{code: fmt.Sprintf("(nth (Z.to_nat %s) %s 0%%N)", i.code, s.code), t: tU8, ascii: s.ascii && s.t == tStr}
		}
		g.fail(x, e.where, "index of type %s", i.t)
	case *ast.CallExpr:
		return e.call(x)
	}
	g.fail(x, e.where, "expression `%s` (%T) is outside the translated subset", stmtHead(g.p, x), x)
	return gval{}
}

func (e *fnEnv) params() string {
	var ps []string
	for k := range e.vars {
		ps = append(ps, k)
	}
	sort.Strings(ps)
	return strings.Join(ps, ", ")
}

func (e *fnEnv) call(x *ast.CallExpr) gval {
	g := e.g
	txt := oneLine(g.p.text(x))
	if txt == "now.Unix()" || txt == "now.Nanosecond()" {
		name := map[string]string{"now.Unix()": "unix", "now.Nanosecond()": "nanos"}[txt]
		bd, ok := e.vars[name]
		if !ok {
			g.fail(x, e.where, "%s is read here, but %s is not a parameter of this piece", txt, name)
		}
		return gval{code: bd.coq, t: bd.t}
	}
	fn, ok := x.Fun.(*ast.Ident)
	if !ok || len(x.Args) != 1 || x.Ellipsis != token.NoPos {
		g.fail(x, e.where, "call `%s` is outside the translated subset", stmtHead(g.p, x))
	}
	if _, shadow := e.vars[fn.Name]; shadow {
		g.fail(x, e.where, "call of the local variable %s", fn.Name)
	}
	a := e.expr(x.Args[0])
	if fn.Name == "len" {
		if a.t != tStr && a.t != tBytes {
			g.fail(x, e.where, "len of %s is outside the translated subset", a.t)
		}
		return gval{code: fmt.Sprintf("(Z.of_nat (length %s))", a.code), t: tInt}
	}
	t, ok := e.typeOf(fn)
	if !ok {
		g.fail(x, e.where, "call of `%s` is outside the translated subset", fn.Name)
	}
	switch {
	case t == tStr:
		if a.t != tU8 {
			g.fail(x, e.where, "string(%s) is outside the translated subset (only string(b) for a byte b)", a.t)
		}
		// Go's string(b) is the UTF-8 encoding of the code point b: one byte only below 0x80
		if !a.ascii {
			g.fail(x, e.where, "string(b) for a byte that is not taken from a string literal with all bytes below 0x80 (Go would UTF-8-encode b >= 0x80 into two bytes) is outside the translated subset")
		}
		return gval{code: "[" + a.code + "]", t: tStr}
	case a.t == tUntyped:
		return e.convert(x, a, t)
	case t.unsigned() && a.t.unsigned():
		// also when widening, where the value is already in range: the translation
		// does not depend on a range argument
		return gval{code: fmt.Sprintf("(uconv %s %s)", t.mod(), a.code), t: t}
	case t.unsigned() && a.t.signed():
		return gval{code: fmt.Sprintf("(sconv %s %s)", t.mod(), a.code), t: t}
	case t.signed() && a.t.unsigned():
		if a.t.bits() >= 63 {
			g.fail(x, e.where, "%s(%s) may overflow: outside the translated subset", t, a.t)
		}
		return gval{code: fmt.Sprintf("(Z.of_N %s)", a.code), t: t}
	case t.signed() && a.t.signed():
		if t == tInt64 || a.t == tInt {
			return gval{code: a.code, t: t}
		}
	}
	g.fail(x, e.where, "conversion %s(%s) is outside the translated subset", t, a.t)
	return gval{}
}

func (e *fnEnv) binary(n ast.Node, op token.Token, a, b gval) gval {
	g := e.g
	// constant folding of untyped operands (exact, as the Go specification asks)
	if a.t == tUntyped && b.t == tUntyped {
		r := new(big.Int)
		switch op {
		case token.ADD:
			r.Add(a.c, b.c)
		case token.SUB:
			r.Sub(a.c, b.c)
		case token.MUL:
			r.Mul(a.c, b.c)
		case token.QUO:
			if b.c.Sign() == 0 {
				g.fail(n, e.where, "constant division by zero")
			}
			r.Quo(a.c, b.c)
		case token.REM:
			if b.c.Sign() == 0 {
				g.fail(n, e.where, "constant division by zero")
			}
			r.Rem(a.c, b.c)
		case token.SHL:
			if !b.c.IsInt64() || b.c.Sign() < 0 || b.c.Int64() > 512 {
				g.fail(n, e.where, "constant shift count %s", b.c)
			}
			r.Lsh(a.c, uint(b.c.Int64()))
		case token.SHR:
			if !b.c.IsInt64() || b.c.Sign() < 0 {
				g.fail(n, e.where, "constant shift count %s", b.c)
			}
			r.Rsh(a.c, uint(b.c.Int64()))
		case token.AND:
			r.And(a.c, b.c)
		case token.OR:
			r.Or(a.c, b.c)
		case token.XOR:
			r.Xor(a.c, b.c)
		default:
			g.fail(n, e.where, "operator %s on constants is outside the translated subset", op)
		}
		return gval{t: tUntyped, c: r}
	}
	if op == token.SHL || op == token.SHR {
		if b.t != tUntyped || b.c.Sign() < 0 || !b.c.IsInt64() {
			g.fail(n, e.where, "shift by a non-constant count is outside the translated subset")
		}
		if !a.t.unsigned() {
			g.fail(n, e.where, "shift of %s is outside the translated subset", a.t)
		}
		if op == token.SHL {
			return gval{code: fmt.Sprintf("(ushl %s %s %s)", a.t.mod(), a.code, nLit(b.c)), t: a.t}
		}
		return gval{code: fmt.Sprintf("(N.shiftr %s %s)", a.code, nLit(b.c)), t: a.t}
	}
	if op == token.LAND || op == token.LOR {
		if a.t != tBool || b.t != tBool {
			g.fail(n, e.where, "%s on %s and %s", op, a.t, b.t)
		}
		f := "andb"
		if op == token.LOR {
			f = "orb"
		}
		return gval{code: fmt.Sprintf("(%s %s %s)", f, a.code, b.code), t: tBool}
	}
	if a.t == tStr && b.t == tStr && op == token.ADD {
		return gval{code: fmt.Sprintf("(%s ++ %s)", a.code, b.code), t: tStr}
	}
	// bring an untyped operand to the type of the other
	if a.t == tUntyped {
		a = e.convert(n, a, b.t)
	}
	if b.t == tUntyped {
		b = e.convert(n, b, a.t)
	}
	if a.t != b.t {
		g.fail(n, e.where, "mismatched types %s and %s in %s", a.t, b.t, op)
	}
	t := a.t
	cmp := map[token.Token]string{token.EQL: "eqb", token.LSS: "ltb", token.LEQ: "leb"}
	switch op {
	case token.EQL, token.NEQ, token.LSS, token.LEQ, token.GTR, token.GEQ:
		if !t.unsigned() && !t.signed() {
			g.fail(n, e.where, "comparison of %s is outside the translated subset", t)
		}
		mod := "N"
		if t.signed() {
			mod = "Z"
		}
		switch op {
		case token.EQL, token.LSS, token.LEQ:
			return gval{code: fmt.Sprintf("(%s.%s %s %s)", mod, cmp[op], a.code, b.code), t: tBool}
		case token.NEQ:
			return gval{code: fmt.Sprintf("(negb (%s.eqb %s %s))", mod, a.code, b.code), t: tBool}
		case token.GTR:
			return gval{code: fmt.Sprintf("(%s.ltb %s %s)", mod, b.code, a.code), t: tBool}
		default:
			return gval{code: fmt.Sprintf("(%s.leb %s %s)", mod, b.code, a.code), t: tBool}
		}
	}
	if t.unsigned() {
		m := t.mod()
		switch op {
		case token.ADD:
			return gval{code: fmt.Sprintf("(uadd %s %s %s)", m, a.code, b.code), t: t}
		case token.SUB:
			return gval{code: fmt.Sprintf("(usub %s %s %s)", m, a.code, b.code), t: t}
		case token.MUL:
			return gval{code: fmt.Sprintf("(umul %s %s %s)", m, a.code, b.code), t: t}
		case token.QUO:
			return gval{code: fmt.Sprintf("(%s / %s)%%N", a.code, b.code), t: t}
		case token.REM:
			return gval{code: fmt.Sprintf("(%s mod %s)%%N", a.code, b.code), t: t}
		case token.AND:
			return gval{code: fmt.Sprintf("(N.land %s %s)", a.code, b.code), t: t}
		case token.OR:
			return gval{code: fmt.Sprintf("(N.lor %s %s)", a.code, b.code), t: t}
		case token.XOR:
			return gval{code: fmt.Sprintf("(N.lxor %s %s)", a.code, b.code), t: t}
		}
	}
	if t.signed() {
		switch op {
		case token.QUO:
			return gval{code: fmt.Sprintf("(Z.quot %s %s)", a.code, b.code), t: t}
		case token.REM:
			return gval{code: fmt.Sprintf("(Z.rem %s %s)", a.code, b.code), t: t}
		}
		g.fail(n, e.where, "signed %s (it may overflow) is outside the translated subset", op)
	}
	g.fail(n, e.where, "operator %s on %s is outside the translated subset", op, t)
	return gval{}
}
