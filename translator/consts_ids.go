package main

// Gen/Consts.v, section for C19: the literal constants of ids.go (and the
// length guard of session.go's Start) that Model/Ids.v is written over.
// Syntax extraction only. Anything that is not found in the expected form is
// a hard error.

import (
	"fmt"
	"go/ast"
	"go/token"
	"strconv"
	"strings"
)

func init() {
	constSections = append(constSections, idsConsts)
}

// intLit parses a Go integer literal (decimal, hex, octal, binary, with
// underscores) into a decimal string.
func intLit(lit *ast.BasicLit) (string, error) {
	if lit.Kind != token.INT {
		return "", fmt.Errorf("literal %s is not an integer", lit.Value)
	}
	v, err := strconv.ParseUint(strings.ReplaceAll(lit.Value, "_", ""), 0, 64)
	if err != nil {
		return "", fmt.Errorf("integer literal %s: %v", lit.Value, err)
	}
	return strconv.FormatUint(v, 10), nil
}

// charsLiteral finds `chars := "<literal>"` in a function body.
func charsLiteral(p *pkg, fd *ast.FuncDecl) (string, error) {
	var found []string
	var err error
	ast.Inspect(fd.Body, func(n ast.Node) bool {
		as, ok := n.(*ast.AssignStmt)
		if !ok || len(as.Lhs) != 1 || len(as.Rhs) != 1 {
			return true
		}
		id, ok := as.Lhs[0].(*ast.Ident)
		if !ok || id.Name != "chars" {
			return true
		}
		lit, ok := as.Rhs[0].(*ast.BasicLit)
		if !ok || lit.Kind != token.STRING || as.Tok != token.DEFINE {
			err = fmt.Errorf("%s: chars is assigned %s, expected a string literal", fd.Name.Name, p.text(as.Rhs[0]))
			return false
		}
		s, uerr := strconv.Unquote(lit.Value)
		if uerr != nil {
			err = uerr
			return false
		}
		found = append(found, s)
		return true
	})
	if err != nil {
		return "", err
	}
	if len(found) != 1 {
		return "", fmt.Errorf("%s: %d assignments to chars, expected one", fd.Name.Name, len(found))
	}
	return found[0], nil
}

// charsIndex finds the single index expression chars[...] in a function body.
func charsIndex(p *pkg, fd *ast.FuncDecl) (ast.Expr, error) {
	var found []ast.Expr
	ast.Inspect(fd.Body, func(n ast.Node) bool {
		ix, ok := n.(*ast.IndexExpr)
		if !ok {
			return true
		}
		if id, ok := ix.X.(*ast.Ident); ok && id.Name == "chars" {
			found = append(found, ix.Index)
		}
		return true
	})
	if len(found) != 1 {
		return nil, fmt.Errorf("%s: %d index expressions on chars, expected one", fd.Name.Name, len(found))
	}
	return found[0], nil
}

// modulus understands `<dividend> % <m>` where <m> is `len(chars)`, a name
// bound by `<name> := uint64(len(chars))`, or an integer literal; it returns
// the Coq term for m.
func modulus(p *pkg, fd *ast.FuncDecl, idx ast.Expr, dividend, charsName string) (string, error) {
	be, ok := idx.(*ast.BinaryExpr)
	if !ok || be.Op != token.REM || p.text(be.X) != dividend {
		return "", fmt.Errorf("%s: chars is indexed with %q, expected %s %% <modulus>", fd.Name.Name, p.text(idx), dividend)
	}
	switch m := be.Y.(type) {
	case *ast.BasicLit:
		return intLit(m)
	case *ast.CallExpr:
		if p.text(m) == "len(chars)" {
			return "N.of_nat (List.length " + charsName + ")", nil
		}
	case *ast.Ident:
		// the name must be defined exactly once, as uint64(len(chars))
		var defs []string
		ast.Inspect(fd.Body, func(n ast.Node) bool {
			as, ok := n.(*ast.AssignStmt)
			if !ok {
				return true
			}
			for i, l := range as.Lhs {
				if id, ok := l.(*ast.Ident); ok && id.Name == m.Name && i < len(as.Rhs) {
					defs = append(defs, p.text(as.Rhs[i]))
				}
			}
			return true
		})
		if len(defs) == 1 && defs[0] == "uint64(len(chars))" {
			return "N.of_nat (List.length " + charsName + ")", nil
		}
		return "", fmt.Errorf("%s: modulus %s is defined as %v, expected uint64(len(chars))", fd.Name.Name, m.Name, defs)
	}
	return "", fmt.Errorf("%s: modulus %q not understood", fd.Name.Name, p.text(be.Y))
}

func idsConsts(p *pkg, b *strings.Builder) error {
	f := p.files["ids.go"]
	if f == nil {
		return fmt.Errorf("ids.go not found")
	}

	// const referenceDate = <int>
	refDate := ""
	for _, d := range f.Decls {
		gd, ok := d.(*ast.GenDecl)
		if !ok || gd.Tok != token.CONST {
			continue
		}
		for _, spec := range gd.Specs {
			vs := spec.(*ast.ValueSpec)
			for i, n := range vs.Names {
				if n.Name != "referenceDate" {
					continue
				}
				if vs.Type != nil || i >= len(vs.Values) {
					return fmt.Errorf("ids.go: referenceDate is not an untyped literal constant")
				}
				lit, ok := vs.Values[i].(*ast.BasicLit)
				if !ok {
					return fmt.Errorf("ids.go: referenceDate = %s, expected an integer literal", p.text(vs.Values[i]))
				}
				v, err := intLit(lit)
				if err != nil {
					return err
				}
				refDate = v
			}
		}
	}
	if refDate == "" {
		return fmt.Errorf("ids.go: const referenceDate not found")
	}

	// generateSessionID: make([]byte, <int>) and base64.<Encoding>.EncodeToString
	gen := p.funcDecl("", "generateSessionID")
	if gen == nil {
		return fmt.Errorf("generateSessionID not found")
	}
	var sidBytes []string
	var encodings []string
	var err error
	ast.Inspect(gen.Body, func(n ast.Node) bool {
		call, ok := n.(*ast.CallExpr)
		if !ok {
			return true
		}
		if id, ok := call.Fun.(*ast.Ident); ok && id.Name == "make" {
			if len(call.Args) != 2 || p.text(call.Args[0]) != "[]byte" {
				err = fmt.Errorf("generateSessionID: %s, expected make([]byte, <literal>)", p.text(call))
				return false
			}
			lit, ok := call.Args[1].(*ast.BasicLit)
			if !ok {
				err = fmt.Errorf("generateSessionID: %s, expected make([]byte, <literal>)", p.text(call))
				return false
			}
			v, lerr := intLit(lit)
			if lerr != nil {
				err = lerr
				return false
			}
			sidBytes = append(sidBytes, v)
		}
		if sel, ok := call.Fun.(*ast.SelectorExpr); ok && sel.Sel.Name == "EncodeToString" {
			encodings = append(encodings, p.text(sel.X))
		}
		return true
	})
	if err != nil {
		return err
	}
	if len(sidBytes) != 1 {
		return fmt.Errorf("generateSessionID: %d make([]byte, n) calls, expected one", len(sidBytes))
	}
	if len(encodings) != 1 {
		return fmt.Errorf("generateSessionID: %d EncodeToString calls, expected one", len(encodings))
	}
	// which source of bytes fills the buffer
	sidSource := ""
	ast.Inspect(gen.Body, func(n ast.Node) bool {
		call, ok := n.(*ast.CallExpr)
		if !ok {
			return true
		}
		if sel, ok := call.Fun.(*ast.SelectorExpr); ok && (sel.Sel.Name == "Read" || sel.Sel.Name == "ReadFull") {
			sidSource += p.text(call) + ";"
		}
		return true
	})
	// which package the name "rand" refers to in ids.go
	randImport := ""
	for _, im := range f.Imports {
		path, _ := strconv.Unquote(im.Path.Value)
		name := path[strings.LastIndex(path, "/")+1:]
		if im.Name != nil {
			name = im.Name.Name
		}
		if name == "rand" {
			randImport = path
		}
	}

	// session.go, Start: if len(id) == <int>
	start := p.funcDecl("", "Start")
	if start == nil {
		return fmt.Errorf("Start not found")
	}
	var guards []string
	ast.Inspect(start.Body, func(n ast.Node) bool {
		is, ok := n.(*ast.IfStmt)
		if !ok {
			return true
		}
		be, ok := is.Cond.(*ast.BinaryExpr)
		if !ok {
			return true
		}
		if call, ok := be.X.(*ast.CallExpr); ok && p.text(call) == "len(id)" {
			lit, ok := be.Y.(*ast.BasicLit)
			if !ok || be.Op != token.EQL {
				err = fmt.Errorf("Start: length guard is %q, expected len(id) == <literal>", p.text(be))
				return false
			}
			v, lerr := intLit(lit)
			if lerr != nil {
				err = lerr
				return false
			}
			guards = append(guards, v)
		}
		return true
	})
	if err != nil {
		return err
	}
	if len(guards) != 1 {
		return fmt.Errorf("Start: %d guards of the form len(id) == n, expected one", len(guards))
	}

	// RandomID
	rid := p.funcDecl("", "RandomID")
	if rid == nil {
		return fmt.Errorf("RandomID not found")
	}
	ridChars, err := charsLiteral(p, rid)
	if err != nil {
		return err
	}
	ridIdx, err := charsIndex(p, rid)
	if err != nil {
		return err
	}
	ridMod, err := modulus(p, rid, ridIdx, "int(b[0])", "ids_rid_chars")
	if err != nil {
		return err
	}
	ridSource := ""
	ast.Inspect(rid.Body, func(n ast.Node) bool {
		call, ok := n.(*ast.CallExpr)
		if !ok {
			return true
		}
		if sel, ok := call.Fun.(*ast.SelectorExpr); ok && (sel.Sel.Name == "Read" || sel.Sel.Name == "ReadFull") {
			ridSource += p.text(call) + ";"
		}
		return true
	})

	// CUID
	cuid := p.funcDecl("", "CUID")
	if cuid == nil {
		return fmt.Errorf("CUID not found")
	}
	cuidChars, err := charsLiteral(p, cuid)
	if err != nil {
		return err
	}
	cuidIdx, err := charsIndex(p, cuid)
	if err != nil {
		return err
	}
	cuidMod, err := modulus(p, cuid, cuidIdx, "bits", "ids_cuid_chars")
	if err != nil {
		return err
	}
	// every integer literal of the body, in source order
	var lits []string
	ast.Inspect(cuid.Body, func(n ast.Node) bool {
		lit, ok := n.(*ast.BasicLit)
		if !ok || lit.Kind == token.STRING {
			return true
		}
		v, lerr := intLit(lit)
		if lerr != nil {
			err = fmt.Errorf("CUID: %v", lerr)
			return false
		}
		lits = append(lits, v)
		return true
	})
	if err != nil {
		return err
	}
	// the digit loop: for <v> := <int>; <v> < <int>; <v>++ { ... chars[...] ... }
	loopBound := ""
	ast.Inspect(cuid.Body, func(n ast.Node) bool {
		fs, ok := n.(*ast.ForStmt)
		if !ok {
			return true
		}
		inside := false
		ast.Inspect(fs.Body, func(m ast.Node) bool {
			if ix, ok := m.(*ast.IndexExpr); ok && p.text(ix.X) == "chars" {
				inside = true
			}
			return true
		})
		if !inside {
			return true
		}
		cond, ok := fs.Cond.(*ast.BinaryExpr)
		init, iok := fs.Init.(*ast.AssignStmt)
		post, pok := fs.Post.(*ast.IncDecStmt)
		if !ok || !iok || !pok || cond.Op != token.LSS || post.Tok != token.INC ||
			len(init.Lhs) != 1 || len(init.Rhs) != 1 || p.text(init.Rhs[0]) != "0" ||
			p.text(init.Lhs[0]) != p.text(cond.X) || p.text(post.X) != p.text(cond.X) {
			err = fmt.Errorf("CUID: digit loop header not of the form v := 0; v < n; v++")
			return false
		}
		lit, ok := cond.Y.(*ast.BasicLit)
		if !ok {
			err = fmt.Errorf("CUID: digit loop bound %s is not a literal", p.text(cond.Y))
			return false
		}
		loopBound, err = intLit(lit)
		return false
	})
	if err != nil {
		return err
	}
	if loopBound == "" {
		return fmt.Errorf("CUID: digit loop not found")
	}
	// lock discipline: the body starts with lastMutex.Lock(); defer
	// lastMutex.Unlock(), and lastTime/lastCounter occur in no other function
	locked := len(cuid.Body.List) >= 2 &&
		p.text(cuid.Body.List[0]) == "lastMutex.Lock()" &&
		p.text(cuid.Body.List[1]) == "defer lastMutex.Unlock()"
	for _, file := range p.files {
		for _, d := range file.Decls {
			fd, ok := d.(*ast.FuncDecl)
			if !ok || fd == cuid || fd.Body == nil {
				continue
			}
			ast.Inspect(fd.Body, func(n ast.Node) bool {
				if id, ok := n.(*ast.Ident); ok && (id.Name == "lastTime" || id.Name == "lastCounter") {
					locked = false
				}
				return true
			})
		}
	}

	fmt.Fprintf(b, "(* ids.go; session.go (length guard of Start) *)\n")
	fmt.Fprintf(b, "Definition ids_reference_date : N := %s.\n", refDate)
	fmt.Fprintf(b, "Definition ids_session_bytes : N := %s.\n", sidBytes[0])
	fmt.Fprintf(b, "Definition ids_session_encoding : string := %s%%string.\n", coqString(encodings[0]))
	fmt.Fprintf(b, "Definition ids_session_source : string := %s%%string.\n", coqString(sidSource))
	fmt.Fprintf(b, "Definition ids_rand_import : string := %s%%string.\n", coqString(randImport))
	fmt.Fprintf(b, "Definition ids_start_guard_len : N := %s.\n", guards[0])
	fmt.Fprintf(b, "Definition ids_rid_chars : list N := %s.\n", coqBytes(ridChars))
	fmt.Fprintf(b, "Definition ids_rid_modulus : N := %s.\n", ridMod)
	fmt.Fprintf(b, "Definition ids_rid_source : string := %s%%string.\n", coqString(ridSource))
	fmt.Fprintf(b, "Definition ids_cuid_chars : list N := %s.\n", coqBytes(cuidChars))
	fmt.Fprintf(b, "Definition ids_cuid_base : N := %s.\n", cuidMod)
	fmt.Fprintf(b, "Definition ids_cuid_literals : list N := [%s].\n", strings.Join(lits, "; "))
	fmt.Fprintf(b, "Definition ids_cuid_digits : N := %s.\n", loopBound)
	fmt.Fprintf(b, "Definition ids_cuid_locked : bool := %v.\n\n", locked)
	return nil
}
