package main

// Gen/MutexTbl.v: the syntax of mutexes.go that Model/Mutex.v was written
// against (C13, C14). Extraction only: statements are printed back in
// normalised form (comments dropped, white space collapsed) and compared in
// Coq with the pinned forms. Anything not found where it is expected is a hard
// error.

import (
	"bytes"
	"fmt"
	"go/ast"
	"go/printer"
	"go/token"
	"sort"
	"strings"
)

func init() {
	generators["MutexTbl"] = mutexTbl
}

// norm prints a node without comments and collapses white space.
func (p *pkg) norm(n ast.Node) string {
	var buf bytes.Buffer
	if err := printer.Fprint(&buf, token.NewFileSet(), n); err != nil {
		return "<print error: " + err.Error() + ">"
	}
	return strings.Join(strings.Fields(buf.String()), " ")
}

func (p *pkg) normStmts(l []ast.Stmt) []string {
	out := make([]string, len(l))
	for i, s := range l {
		out[i] = p.norm(s)
	}
	return out
}

func coqStrings(l []string) string {
	items := make([]string, len(l))
	for i, s := range l {
		items[i] = coqString(s) + "%string"
	}
	return "[" + strings.Join(items, "; ") + "]"
}

func mutexTbl(p *pkg) (string, error) {
	f := p.files["mutexes.go"]
	if f == nil {
		return "", fmt.Errorf("mutexes.go not found")
	}
	var b strings.Builder
	b.WriteString("(* Generated from /repo/mutexes.go by /verif/translator. Do not edit. *)\n")
	b.WriteString("From Coq Require Import List String.\nImport ListNotations.\n\n")

	// ---- newMutexes: channel construction, the manager loop, the ticker ----
	nm := p.funcDecl("", "newMutexes")
	if nm == nil || nm.Body == nil {
		return "", fmt.Errorf("newMutexes not found")
	}
	var lit *ast.CompositeLit
	var goes []*ast.GoStmt
	for _, s := range nm.Body.List {
		switch x := s.(type) {
		case *ast.AssignStmt:
			if len(x.Rhs) == 1 {
				if u, ok := x.Rhs[0].(*ast.UnaryExpr); ok && u.Op == token.AND {
					if cl, ok := u.X.(*ast.CompositeLit); ok && p.norm(cl.Type) == "mutexes" {
						lit = cl
					}
				}
			}
		case *ast.GoStmt:
			goes = append(goes, x)
		}
	}
	if lit == nil {
		return "", fmt.Errorf("newMutexes: composite literal &mutexes{...} not found")
	}
	var fields []string
	for _, e := range lit.Elts {
		kv, ok := e.(*ast.KeyValueExpr)
		if !ok {
			return "", fmt.Errorf("newMutexes: positional field in &mutexes{...}")
		}
		fields = append(fields, p.norm(kv.Key)+" = "+p.norm(kv.Value))
	}
	fmt.Fprintf(&b, "(* newMutexes: fields of &mutexes{...} *)\nDefinition mtx_new_fields : list string := %s.\n", coqStrings(fields))
	if len(goes) != 2 {
		return "", fmt.Errorf("newMutexes: expected 2 go statements, found %d", len(goes))
	}
	// manager: go func() { for { select { ... } } }()
	mf, ok := goes[0].Call.Fun.(*ast.FuncLit)
	if !ok || len(mf.Body.List) != 1 {
		return "", fmt.Errorf("newMutexes: manager goroutine is not a func literal with one statement")
	}
	loop, ok := mf.Body.List[0].(*ast.ForStmt)
	if !ok || loop.Init != nil || loop.Cond != nil || loop.Post != nil || len(loop.Body.List) != 1 {
		return "", fmt.Errorf("newMutexes: manager is not `for { select {...} }`")
	}
	sel, ok := loop.Body.List[0].(*ast.SelectStmt)
	if !ok {
		return "", fmt.Errorf("newMutexes: manager loop body is not a select")
	}
	var comms []string
	cases := map[string]*ast.CommClause{}
	for _, c := range sel.Body.List {
		cc := c.(*ast.CommClause)
		if cc.Comm == nil {
			return "", fmt.Errorf("newMutexes: manager select has a default case")
		}
		s := p.norm(cc.Comm)
		comms = append(comms, s)
		cases[s] = cc
	}
	fmt.Fprintf(&b, "(* the manager's select: communication of each case, in source order *)\nDefinition mtx_select_comms : list string := %s.\n", coqStrings(comms))
	acq, rel, pur := cases["key := <-m.acquire"], cases["key := <-m.release"], cases["<-m.purge"]
	if acq == nil || rel == nil || pur == nil || len(cases) != 3 {
		return "", fmt.Errorf("newMutexes: manager select does not have exactly the acquire/release/purge cases: %v", comms)
	}
	fmt.Fprintf(&b, "Definition mtx_acquire_case : list string := %s.\n", coqStrings(p.normStmts(acq.Body)))
	fmt.Fprintf(&b, "Definition mtx_release_case : list string := %s.\n", coqStrings(p.normStmts(rel.Body)))
	fmt.Fprintf(&b, "Definition mtx_purge_case : list string := %s.\n", coqStrings(p.normStmts(pur.Body)))

	// guards, extracted structurally
	guardOf := func(s ast.Stmt, what string) (*ast.IfStmt, error) {
		is, ok := s.(*ast.IfStmt)
		if !ok || is.Init != nil || is.Else != nil {
			return nil, fmt.Errorf("newMutexes: %s: expected a plain if statement, found %s", what, p.norm(s))
		}
		return is, nil
	}
	if len(acq.Body) != 3 {
		return "", fmt.Errorf("newMutexes: acquire case has %d statements, expected 3", len(acq.Body))
	}
	ag, err := guardOf(acq.Body[1], "acquire case")
	if err != nil {
		return "", err
	}
	fmt.Fprintf(&b, "Definition mtx_acquire_guard : string := %s.\n", coqString(p.norm(ag.Cond)))
	if len(rel.Body) != 2 {
		return "", fmt.Errorf("newMutexes: release case has %d statements, expected 2", len(rel.Body))
	}
	rg, err := guardOf(rel.Body[1], "release case")
	if err != nil {
		return "", err
	}
	fmt.Fprintf(&b, "Definition mtx_release_guard : string := %s.\n", coqString(p.norm(rg.Cond)))
	if len(rg.Body.List) != 2 {
		return "", fmt.Errorf("newMutexes: release case: guarded block has %d statements, expected 2", len(rg.Body.List))
	}
	rg2, err := guardOf(rg.Body.List[1], "release case (inner)")
	if err != nil {
		return "", err
	}
	fmt.Fprintf(&b, "Definition mtx_release_inner_guard : string := %s.\n", coqString(p.norm(rg2.Cond)))
	// purge: the range loop and its condition
	var rng *ast.RangeStmt
	for _, s := range pur.Body {
		if r, ok := s.(*ast.RangeStmt); ok {
			if rng != nil {
				return "", fmt.Errorf("newMutexes: purge case has two range loops")
			}
			rng = r
		}
	}
	if rng == nil || len(rng.Body.List) != 1 {
		return "", fmt.Errorf("newMutexes: purge case: range loop with a single statement not found")
	}
	pg, err := guardOf(rng.Body.List[0], "purge loop")
	if err != nil {
		return "", err
	}
	fmt.Fprintf(&b, "Definition mtx_purge_range : string := %s.\n", coqString(p.norm(rng.X)))
	fmt.Fprintf(&b, "Definition mtx_purge_cond : string := %s.\n", coqString(p.norm(pg.Cond)))
	fmt.Fprintf(&b, "Definition mtx_purge_then : list string := %s.\n", coqStrings(p.normStmts(pg.Body.List)))
	// Go's precedence: && binds tighter than ||; record the tree shape so
	// that added parentheses are seen even though the printer keeps them.
	shape := func(e ast.Expr) string {
		var f func(e ast.Expr) string
		f = func(e ast.Expr) string {
			switch x := e.(type) {
			case *ast.ParenExpr:
				return "(" + f(x.X) + ")"
			case *ast.BinaryExpr:
				if x.Op == token.LOR || x.Op == token.LAND {
					return "[" + f(x.X) + " " + x.Op.String() + " " + f(x.Y) + "]"
				}
			}
			return "e"
		}
		return f(e)
	}
	fmt.Fprintf(&b, "Definition mtx_purge_cond_shape : string := %s.\n", coqString(shape(pg.Cond)))

	// ticker
	tf, ok := goes[1].Call.Fun.(*ast.FuncLit)
	if !ok {
		return "", fmt.Errorf("newMutexes: ticker goroutine is not a func literal")
	}
	fmt.Fprintf(&b, "Definition mtx_ticker : list string := %s.\n", coqStrings(p.normStmts(tf.Body.List)))

	// ---- getItem, Lock, Unlock ----
	for _, name := range []string{"getItem", "Lock", "Unlock"} {
		fd := p.funcDecl("mutexes", name)
		if fd == nil || fd.Body == nil {
			return "", fmt.Errorf("(*mutexes).%s not found", name)
		}
		fmt.Fprintf(&b, "Definition mtx_%s_body : list string := %s.\n", strings.ToLower(name), coqStrings(p.normStmts(fd.Body.List)))
	}

	// ---- no other code touches the manager's state ----
	// Every selector .locks / .items / .acquire / .release / .purge in the
	// package outside mutexes.go would be an access the model does not have.
	var foreign []string
	for base, file := range p.files {
		if base == "mutexes.go" {
			continue
		}
		ast.Inspect(file, func(n ast.Node) bool {
			if se, ok := n.(*ast.SelectorExpr); ok {
				switch se.Sel.Name {
				case "locks", "itemsMutex", "acquire":
					foreign = append(foreign, fmt.Sprintf("%s: %s", base, p.norm(se)))
				}
			}
			return true
		})
	}
	sort.Strings(foreign)
	fmt.Fprintf(&b, "(* selectors .locks/.itemsMutex/.acquire outside mutexes.go *)\nDefinition mtx_foreign_accesses : list string := %s.\n", coqStrings(foreign))
	// functions and methods declared in mutexes.go
	var decls []string
	for _, d := range f.Decls {
		if fd, ok := d.(*ast.FuncDecl); ok {
			decls = append(decls, recvName(fd)+"."+fd.Name.Name)
		}
	}
	fmt.Fprintf(&b, "Definition mtx_funcs : list string := %s.\n", coqStrings(decls))
	return b.String(), nil
}
