package main

// Gen/Access.v (C15): for every function of the package, every access to a
// field of a struct type declared in the package and to a package-level
// variable, with the set of sync locks the function holds at that point.
//
// The lock state is computed by a path-sensitive walk over the statement
// lists. The walk understands x.Lock(), x.RLock(), x.Unlock(), x.RUnlock(),
// defer x.Unlock()/x.RUnlock(), early returns, if/for/range/switch/select
// bodies, and function literals started with `go` (separate threads, no lock
// inherited). It does not interpret anything else: a construct whose effect on
// the lock state or on the tracked memory it cannot read off the syntax is a
// hard error, so that a stale or wrong table can never be checked.
//
// Types are resolved with go/types. Imports are not loaded (that would take
// seconds on every run): every imported package is empty except a hand-made
// "sync" with Mutex and RWMutex, and type errors are tolerated. Everything
// declared in the package itself resolves exactly; a selector or a lock call
// that does not resolve and could concern tracked memory is a hard error.

import (
	"fmt"
	"go/ast"
	"go/token"
	"go/types"
	"path/filepath"
	"sort"
	"strings"
)

func init() { generators["Access"] = genAccess }

type heldLock struct {
	expr     string
	mode     string // "Sh" | "Ex"
	site     int    // line*1000+column of the acquiring call
	deferred bool
}

type lockState []heldLock // in acquisition order

func (s lockState) clone() lockState { return append(lockState(nil), s...) }

func (s lockState) find(expr string) int {
	for i, h := range s {
		if h.expr == expr {
			return i
		}
	}
	return -1
}

func (s lockState) equal(o lockState) bool {
	if len(s) != len(o) {
		return false
	}
	a, b := s.clone(), o.clone()
	sort.Slice(a, func(i, j int) bool { return a[i].expr < a[j].expr })
	sort.Slice(b, func(i, j int) bool { return b[i].expr < b[j].expr })
	for i := range a {
		if a[i] != b[i] {
			return false
		}
	}
	return true
}

func (s lockState) String() string {
	var parts []string
	for _, h := range s {
		parts = append(parts, fmt.Sprintf("%s:%s@%d", h.expr, h.mode, h.site/1000))
	}
	return "{" + strings.Join(parts, ",") + "}"
}

type accRow struct {
	fn, file         string
	line             int
	recv, strct, fld string
	write            bool
	held             lockState
	lit, decode      bool
	fresh            bool
	goIdx            int
	onrecv, loop     bool
	initTime         bool
}

type callRow struct {
	fn, file string
	line     int
	callee   string
	recv     string
	held     lockState
	goIdx    int
	deferred bool
	onrecv   bool
}

// persistence call or cache-method call, for the cache_calls table
type cacheCall struct {
	fn, file string
	line     int
	callee   string
	held     lockState
	goIdx    int
}

type accessGen struct {
	pcalls   []cacheCall
	fdecls   map[string]*ast.FuncDecl
	p        *pkg
	info     *types.Info
	tpkg     *types.Package
	fieldOf  map[*types.Var]string // field object -> declaring struct
	rows     []accRow
	calls    []callRow
	funcs    []string
	callers  map[string][]string
	declared map[string]bool
	err      error

	// per function
	fn       string
	file     string
	recvObj  types.Object
	goCount  int
	goIdx    int
	loop     int
	escape   map[types.Object]token.Pos // first use of a local other than as base of a selector
	freshDef map[types.Object]token.Pos // locals defined by := &T{...}
}

type bailout struct{ err error }

func (g *accessGen) fail(n ast.Node, format string, a ...interface{}) {
	pos := g.p.fset.Position(n.Pos())
	panic(bailout{fmt.Errorf("%s:%d: %s: %s", filepath.Base(pos.Filename), pos.Line, g.fn, fmt.Sprintf(format, a...))})
}

func (g *accessGen) line(n ast.Node) int { return g.p.fset.Position(n.Pos()).Line }

// ---- fake importer ----

type fakeImporter struct{ pkgs map[string]*types.Package }

func (f *fakeImporter) Import(path string) (*types.Package, error) {
	if p, ok := f.pkgs[path]; ok {
		return p, nil
	}
	name := path
	if i := strings.LastIndexByte(path, '/'); i >= 0 {
		name = path[i+1:]
	}
	p := types.NewPackage(path, name)
	if path == "sync" {
		for _, tn := range []struct {
			name    string
			methods []string
		}{{"Mutex", []string{"Lock", "Unlock"}}, {"RWMutex", []string{"Lock", "Unlock", "RLock", "RUnlock"}}} {
			obj := types.NewTypeName(token.NoPos, p, tn.name, nil)
			named := types.NewNamed(obj, types.NewStruct(nil, nil), nil)
			for _, m := range tn.methods {
				recv := types.NewVar(token.NoPos, p, "m", types.NewPointer(named))
				sig := types.NewSignatureType(recv, nil, nil, nil, nil, false)
				named.AddMethod(types.NewFunc(token.NoPos, p, m, sig))
			}
			p.Scope().Insert(obj)
		}
	}
	p.MarkComplete()
	f.pkgs[path] = p
	return p, nil
}

// ---- generator ----

func genAccess(p *pkg) (text string, err error) {
	g := &accessGen{p: p, fieldOf: map[*types.Var]string{}, callers: map[string][]string{}, declared: map[string]bool{}, fdecls: map[string]*ast.FuncDecl{}}
	defer func() {
		if r := recover(); r != nil {
			if b, ok := r.(bailout); ok {
				text, err = "", b.err
				return
			}
			panic(r)
		}
	}()
	var names []string
	for n := range p.files {
		names = append(names, n)
	}
	sort.Strings(names)
	var files []*ast.File
	for _, n := range names {
		files = append(files, p.files[n])
	}
	g.info = &types.Info{
		Types:      map[ast.Expr]types.TypeAndValue{},
		Defs:       map[*ast.Ident]types.Object{},
		Uses:       map[*ast.Ident]types.Object{},
		Selections: map[*ast.SelectorExpr]*types.Selection{},
	}
	conf := types.Config{Importer: &fakeImporter{pkgs: map[string]*types.Package{}}, Error: func(error) {}, FakeImportC: true}
	g.tpkg, _ = conf.Check("sessions", p.fset, files, g.info)
	if g.tpkg == nil {
		return "", fmt.Errorf("type checker returned no package")
	}
	// Struct types declared in the package and their fields.
	scope := g.tpkg.Scope()
	for _, name := range scope.Names() {
		tn, ok := scope.Lookup(name).(*types.TypeName)
		if !ok {
			continue
		}
		st, ok := tn.Type().Underlying().(*types.Struct)
		if !ok {
			continue
		}
		for i := 0; i < st.NumFields(); i++ {
			g.fieldOf[st.Field(i)] = name
		}
	}
	// Walk every function.
	type fnDecl struct {
		name string
		fd   *ast.FuncDecl
		file string
	}
	var fns []fnDecl
	for _, n := range names {
		for _, d := range p.files[n].Decls {
			fd, ok := d.(*ast.FuncDecl)
			if !ok {
				continue
			}
			name := fd.Name.Name
			if r := recvName(fd); r != "" {
				name = r + "." + name
			}
			fns = append(fns, fnDecl{name, fd, n})
			g.declared[name] = true
			g.fdecls[name] = fd
		}
	}
	for _, f := range fns {
		g.funcs = append(g.funcs, f.name)
		if f.fd.Body == nil {
			continue
		}
		g.walkFunc(f.name, f.file, f.fd)
	}
	// Functions that run only during package initialisation: `init`, and
	// unexported functions all of whose callers in the package are such.
	initTime := map[string]bool{"init": true}
	for changed := true; changed; {
		changed = false
		for _, f := range fns {
			if initTime[f.name] || ast.IsExported(f.fd.Name.Name) || f.fd.Recv != nil || len(g.callers[f.name]) == 0 {
				continue
			}
			all := true
			for _, c := range g.callers[f.name] {
				if !initTime[c] {
					all = false
				}
			}
			if all {
				initTime[f.name] = true
				changed = true
			}
		}
	}
	for i := range g.rows {
		g.rows[i].initTime = initTime[g.rows[i].fn] && g.rows[i].goIdx == 0
	}
	return g.render(), nil
}

func (g *accessGen) walkFunc(name, file string, fd *ast.FuncDecl) {
	g.fn, g.file = name, file
	g.recvObj = nil
	g.goCount, g.goIdx, g.loop = 0, 0, 0
	if fd.Recv != nil && len(fd.Recv.List) == 1 && len(fd.Recv.List[0].Names) == 1 {
		g.recvObj = g.info.Defs[fd.Recv.List[0].Names[0]]
	}
	g.computeFresh(fd.Body)
	st, term := g.stmts(fd.Body.List, lockState{}, nil)
	if !term {
		g.checkExit(fd.Body, st, "end of function")
	}
}

// computeFresh finds locals defined by `x := &T{...}` (T a struct of the
// package) and, for each, the first position at which x is used other than as
// the base of a field selector: before that position the object cannot be
// known to any other goroutine.
func (g *accessGen) computeFresh(body *ast.BlockStmt) {
	g.freshDef = map[types.Object]token.Pos{}
	g.escape = map[types.Object]token.Pos{}
	ast.Inspect(body, func(n ast.Node) bool {
		as, ok := n.(*ast.AssignStmt)
		if !ok || as.Tok != token.DEFINE || len(as.Lhs) != len(as.Rhs) {
			return true
		}
		for i, l := range as.Lhs {
			id, ok := l.(*ast.Ident)
			if !ok {
				continue
			}
			u, ok := as.Rhs[i].(*ast.UnaryExpr)
			if !ok || u.Op != token.AND {
				continue
			}
			cl, ok := u.X.(*ast.CompositeLit)
			if !ok || g.structName(g.info.TypeOf(cl)) == "" {
				continue
			}
			if obj := g.info.Defs[id]; obj != nil {
				g.freshDef[obj] = as.End()
			}
		}
		return true
	})
	if len(g.freshDef) == 0 {
		return
	}
	note := func(id *ast.Ident) {
		obj := g.info.Uses[id]
		if obj == nil {
			return
		}
		if _, ok := g.freshDef[obj]; !ok {
			return
		}
		if old, ok := g.escape[obj]; !ok || id.Pos() < old {
			g.escape[obj] = id.Pos()
		}
	}
	ast.Inspect(body, func(m ast.Node) bool {
		switch x := m.(type) {
		case *ast.FuncLit:
			// captured by a closure (possibly another goroutine): every use
			// inside counts as an escape at the position of the literal
			ast.Inspect(x.Body, func(k ast.Node) bool {
				if id, ok := k.(*ast.Ident); ok {
					if obj := g.info.Uses[id]; obj != nil {
						if _, tracked := g.freshDef[obj]; tracked {
							if old, ok := g.escape[obj]; !ok || x.Pos() < old {
								g.escape[obj] = x.Pos()
							}
						}
					}
				}
				return true
			})
			return false
		case *ast.SelectorExpr:
			if _, ok := x.X.(*ast.Ident); ok {
				if s := g.info.Selections[x]; s != nil && s.Kind() == types.FieldVal {
					return false // field access through the local: not an escape
				}
			}
		case *ast.Ident:
			note(x) // any other use, including a later assignment to it
		}
		return true
	})
}

func (g *accessGen) isFresh(base ast.Expr, at token.Pos) bool {
	id, ok := base.(*ast.Ident)
	if !ok {
		return false
	}
	obj := g.info.Uses[id]
	if obj == nil {
		return false
	}
	def, ok := g.freshDef[obj]
	if !ok || at < def {
		return false
	}
	esc, ok := g.escape[obj]
	return !ok || at < esc
}

// checkExit: a function may leave only with locks whose release is deferred.
func (g *accessGen) checkExit(n ast.Node, st lockState, where string) {
	for _, h := range st {
		if !h.deferred {
			g.fail(n, "%s reached while holding %s (acquired at line %d) without a deferred release", where, h.expr, h.site/1000)
		}
	}
}

// loopCtx carries the lock states a break and a continue must agree with
// (cont is nil inside a switch/select that is not inside a loop).
type loopCtx struct {
	brk  lockState
	cont lockState
	loop bool
}

// stmts walks a statement list; it returns the state after it and whether
// control cannot fall out of its end.
func (g *accessGen) stmts(list []ast.Stmt, st lockState, lc *loopCtx) (lockState, bool) {
	for i, s := range list {
		var term bool
		st, term = g.stmt(s, st, lc)
		if term {
			// statements after a terminating one are unreachable; they are
			// still walked (with the state at that point) so that no access is
			// left out of the table
			if i+1 < len(list) {
				if _, isLabel := list[i+1].(*ast.LabeledStmt); isLabel {
					g.fail(list[i+1], "labelled statement after a terminating statement")
				}
				g.stmts(list[i+1:], st.clone(), lc)
			}
			return st, true
		}
	}
	return st, false
}

func (g *accessGen) join(n ast.Node, outs []lockState) lockState {
	for i := 1; i < len(outs); i++ {
		if !outs[0].equal(outs[i]) {
			g.fail(n, "lock state differs between the branches that join here: %s vs %s", outs[0], outs[i])
		}
	}
	return outs[0]
}

func (g *accessGen) stmt(s ast.Stmt, st lockState, lc *loopCtx) (lockState, bool) {
	switch x := s.(type) {
	case nil:
		return st, false
	case *ast.EmptyStmt:
		return st, false
	case *ast.BlockStmt:
		return g.stmts(x.List, st, lc)
	case *ast.LabeledStmt:
		g.fail(x, "labelled statement")
	case *ast.ExprStmt:
		if call, ok := x.X.(*ast.CallExpr); ok {
			if op, lockExpr, ok := g.lockOp(call); ok {
				return g.applyLock(call, st, op, lockExpr), false
			}
			if id, ok := call.Fun.(*ast.Ident); ok && id.Name == "panic" && g.info.Uses[id] != nil && g.info.Uses[id].Pkg() == nil {
				g.expr(x.X, st)
				return st, true
			}
		}
		g.expr(x.X, st)
		return st, false
	case *ast.DeferStmt:
		if op, lockExpr, ok := g.lockOp(x.Call); ok {
			if op != "Unlock" && op != "RUnlock" {
				g.fail(x, "deferred %s", op)
			}
			i := st.find(lockExpr)
			if i < 0 {
				g.fail(x, "deferred release of %s, which is not held here", lockExpr)
			}
			if (op == "Unlock") != (st[i].mode == "Ex") {
				g.fail(x, "deferred %s of %s held in mode %s", op, lockExpr, st[i].mode)
			}
			if st[i].deferred {
				g.fail(x, "second deferred release of %s", lockExpr)
			}
			st = st.clone()
			st[i].deferred = true
			return st, false
		}
		if lit, ok := x.Call.Fun.(*ast.FuncLit); ok {
			g.opaqueLit(lit, "deferred function literal")
			for _, a := range x.Call.Args {
				g.expr(a, st)
			}
			return st, false
		}
		// arguments are evaluated now; the call runs at exit, when exactly the
		// locks with a deferred release registered so far are still held
		var atExit lockState
		for _, h := range st {
			if h.deferred {
				atExit = append(atExit, h)
			}
		}
		g.call(x.Call, st, atExit, true)
		return st, false
	case *ast.GoStmt:
		for _, a := range x.Call.Args {
			g.expr(a, st)
		}
		if lit, ok := x.Call.Fun.(*ast.FuncLit); ok {
			g.goCount++
			savedGo, savedLoop := g.goIdx, g.loop
			g.goIdx, g.loop = g.goCount, 0
			out, term := g.stmts(lit.Body.List, lockState{}, nil)
			if !term {
				g.checkExit(lit, out, "end of goroutine")
			}
			g.goIdx, g.loop = savedGo, savedLoop
			return st, false
		}
		// go f(x): the callee starts with no lock
		savedGo := g.goIdx
		g.goCount++
		g.goIdx = g.goCount
		g.callNoArgs(x.Call, lockState{}, false)
		g.goIdx = savedGo
		return st, false
	case *ast.AssignStmt:
		for _, r := range x.Rhs {
			g.expr(r, st)
		}
		for _, l := range x.Lhs {
			// Locks are identified by the text of the expression they were
			// taken on. That is sound only while the variable at its root keeps
			// its value: an assignment to it while such a lock is held would
			// make later accesses through the variable look protected.
			if id, ok := l.(*ast.Ident); ok && id.Name != "_" {
				for _, h := range st {
					if h.expr == id.Name || strings.HasPrefix(h.expr, id.Name+".") {
						g.fail(x, "%s is assigned while the lock on %s (line %d) is held", id.Name, h.expr, h.site/1000)
					}
				}
			}
			if x.Tok == token.DEFINE {
				if _, ok := l.(*ast.Ident); ok {
					continue
				}
			}
			g.write(l, st)
		}
		return st, false
	case *ast.IncDecStmt:
		g.write(x.X, st)
		return st, false
	case *ast.SendStmt:
		g.expr(x.Chan, st)
		g.expr(x.Value, st)
		return st, false
	case *ast.DeclStmt:
		gd, ok := x.Decl.(*ast.GenDecl)
		if !ok {
			g.fail(x, "declaration statement")
		}
		for _, spec := range gd.Specs {
			if vs, ok := spec.(*ast.ValueSpec); ok {
				for _, v := range vs.Values {
					g.expr(v, st)
				}
			}
		}
		return st, false
	case *ast.ReturnStmt:
		for _, r := range x.Results {
			g.expr(r, st)
		}
		g.checkExit(x, st, "return")
		return st, true
	case *ast.BranchStmt:
		switch x.Tok {
		case token.BREAK, token.CONTINUE:
			if x.Label != nil {
				g.fail(x, "labelled %s", x.Tok)
			}
			if lc == nil || x.Tok == token.CONTINUE && !lc.loop {
				g.fail(x, "%s outside a loop, switch or select of this function", x.Tok)
			}
			want := lc.brk
			if x.Tok == token.CONTINUE {
				want = lc.cont
			}
			if !st.equal(want) {
				g.fail(x, "%s with lock state %s, but the enclosing statement was entered with %s", x.Tok, st, want)
			}
			return st, true
		default:
			g.fail(x, "%s statement", x.Tok)
		}
	case *ast.IfStmt:
		st, _ = g.stmt(x.Init, st, lc)
		g.expr(x.Cond, st)
		var outs []lockState
		o, term := g.stmts(x.Body.List, st.clone(), lc)
		if !term {
			outs = append(outs, o)
		}
		if x.Else != nil {
			o, term = g.stmt(x.Else, st.clone(), lc)
			if !term {
				outs = append(outs, o)
			}
		} else {
			outs = append(outs, st)
		}
		if len(outs) == 0 {
			return st, true
		}
		return g.join(x, outs), false
	case *ast.ForStmt:
		st, _ = g.stmt(x.Init, st, lc)
		if x.Cond != nil {
			g.expr(x.Cond, st)
		}
		g.loop++
		inner := &loopCtx{brk: st.clone(), cont: st.clone(), loop: true}
		o, term := g.stmts(x.Body.List, st.clone(), inner)
		if !term {
			if !o.equal(st) {
				g.fail(x, "loop body changes the lock state from %s to %s", st, o)
			}
			g.stmt(x.Post, o, inner)
		}
		g.loop--
		// `for {}` without condition and without break never falls through
		if x.Cond == nil && !hasBreak(x.Body) {
			return st, true
		}
		return st, false
	case *ast.RangeStmt:
		g.expr(x.X, st)
		if x.Tok == token.ASSIGN {
			if x.Key != nil {
				g.write(x.Key, st)
			}
			if x.Value != nil {
				g.write(x.Value, st)
			}
		}
		g.loop++
		inner := &loopCtx{brk: st.clone(), cont: st.clone(), loop: true}
		o, term := g.stmts(x.Body.List, st.clone(), inner)
		if !term && !o.equal(st) {
			g.fail(x, "loop body changes the lock state from %s to %s", st, o)
		}
		g.loop--
		return st, false
	case *ast.SwitchStmt:
		st, _ = g.stmt(x.Init, st, lc)
		if x.Tag != nil {
			g.expr(x.Tag, st)
		}
		return g.clauses(x, x.Body, st, lc)
	case *ast.TypeSwitchStmt:
		st, _ = g.stmt(x.Init, st, lc)
		switch a := x.Assign.(type) {
		case *ast.ExprStmt:
			g.expr(a.X, st)
		case *ast.AssignStmt:
			for _, r := range a.Rhs {
				g.expr(r, st)
			}
		}
		return g.clauses(x, x.Body, st, lc)
	case *ast.SelectStmt:
		return g.clauses(x, x.Body, st, lc)
	}
	g.fail(s, "statement of kind %T", s)
	return st, false
}

func hasBreak(body *ast.BlockStmt) bool {
	found := false
	var visit func(n ast.Node) bool
	visit = func(n ast.Node) bool {
		switch x := n.(type) {
		case *ast.ForStmt, *ast.RangeStmt, *ast.SwitchStmt, *ast.TypeSwitchStmt, *ast.SelectStmt, *ast.FuncLit:
			// an unlabelled break inside these belongs to them (labelled ones
			// are rejected by the walk)
			return false
		case *ast.BranchStmt:
			if x.Tok == token.BREAK {
				found = true
			}
		}
		return true
	}
	for _, s := range body.List {
		ast.Inspect(s, visit)
	}
	return found
}

// clauses handles the bodies of switch, type switch and select: every clause
// starts from the state at entry; the states of the clauses that can fall out
// of the statement must agree.
func (g *accessGen) clauses(n ast.Node, body *ast.BlockStmt, st lockState, lc *loopCtx) (lockState, bool) {
	var outs []lockState
	hasDefault := false
	_, isSelect := n.(*ast.SelectStmt)
	// `break` inside a clause leaves the switch/select, `continue` belongs to
	// the enclosing loop.
	inner := &loopCtx{brk: st.clone()}
	if lc != nil && lc.loop {
		inner.cont, inner.loop = lc.cont, true
	}
	for _, c := range body.List {
		var list []ast.Stmt
		cst := st.clone()
		switch cc := c.(type) {
		case *ast.CaseClause:
			if cc.List == nil {
				hasDefault = true
			}
			for _, e := range cc.List {
				if g.info.Types[e].IsType() {
					continue
				}
				g.expr(e, cst)
			}
			list = cc.Body
		case *ast.CommClause:
			if cc.Comm == nil {
				hasDefault = true
			} else {
				cst, _ = g.stmt(cc.Comm, cst, inner)
			}
			list = cc.Body
		}
		for _, s := range list {
			if b, ok := s.(*ast.BranchStmt); ok && b.Tok == token.FALLTHROUGH {
				g.fail(b, "fallthrough")
			}
		}
		o, term := g.stmts(list, cst, inner)
		if !term {
			outs = append(outs, o)
		}
	}
	if !hasDefault && !isSelect {
		outs = append(outs, st)
	}
	if len(outs) == 0 {
		if isSelect && len(body.List) == 0 {
			return st, true // select {} blocks forever
		}
		// every clause terminates: but a clause ending in `break` reaches the
		// end of the statement with the entry state
		return st, !clausesBreak(body)
	}
	return g.join(n, outs), false
}

func clausesBreak(body *ast.BlockStmt) bool {
	for _, c := range body.List {
		var list []ast.Stmt
		switch cc := c.(type) {
		case *ast.CaseClause:
			list = cc.Body
		case *ast.CommClause:
			list = cc.Body
		}
		if hasBreak(&ast.BlockStmt{List: list}) {
			return true
		}
	}
	return false
}

// lockOp recognises x.Lock(), x.RLock(), x.Unlock(), x.RUnlock() on a
// sync.Mutex / sync.RWMutex (possibly embedded). The lock is named by the
// source text of x.
func (g *accessGen) lockOp(call *ast.CallExpr) (op, lockExpr string, ok bool) {
	sel, isSel := call.Fun.(*ast.SelectorExpr)
	if !isSel {
		return "", "", false
	}
	name := sel.Sel.Name
	if name != "Lock" && name != "RLock" && name != "Unlock" && name != "RUnlock" && name != "TryLock" && name != "TryRLock" && name != "RLocker" {
		return "", "", false
	}
	s := g.info.Selections[sel]
	if s == nil {
		if id, isId := sel.X.(*ast.Ident); isId {
			if _, isPkg := g.info.Uses[id].(*types.PkgName); isPkg {
				return "", "", false
			}
		}
		g.fail(call, "cannot resolve %s: it may be a lock operation", g.p.text(call.Fun))
	}
	if s.Kind() != types.MethodVal || s.Obj().Pkg() == nil || s.Obj().Pkg().Path() != "sync" {
		return "", "", false
	}
	if name == "TryLock" || name == "TryRLock" || name == "RLocker" {
		g.fail(call, "%s is not interpreted", name)
	}
	if len(call.Args) != 0 {
		g.fail(call, "lock operation with arguments")
	}
	return name, g.p.text(sel.X), true
}

func (g *accessGen) applyLock(call *ast.CallExpr, st lockState, op, lockExpr string) lockState {
	// the expression naming the lock is itself evaluated (m.itemsMutex reads m)
	if sel, ok := call.Fun.(*ast.SelectorExpr); ok {
		g.expr(sel.X, st)
	}
	st = st.clone()
	i := st.find(lockExpr)
	switch op {
	case "Lock", "RLock":
		if i >= 0 {
			g.fail(call, "%s of %s, which this function already holds (acquired at line %d)", op, lockExpr, st[i].site/1000)
		}
		mode := "Ex"
		if op == "RLock" {
			mode = "Sh"
		}
		pos := g.p.fset.Position(call.Pos())
		return append(st, heldLock{expr: lockExpr, mode: mode, site: pos.Line*1000 + pos.Column})
	default:
		if i < 0 {
			g.fail(call, "%s of %s, which this function does not hold here", op, lockExpr)
		}
		if (op == "Unlock") != (st[i].mode == "Ex") {
			g.fail(call, "%s of %s held in mode %s", op, lockExpr, st[i].mode)
		}
		if st[i].deferred {
			g.fail(call, "%s of %s whose release is already deferred", op, lockExpr)
		}
		return append(st[:i], st[i+1:]...)
	}
}

// opaqueLit: a function literal that is not started with `go` runs at a point
// the walk does not know. It is accepted only if it cannot matter.
func (g *accessGen) opaqueLit(lit *ast.FuncLit, what string) {
	ast.Inspect(lit.Body, func(n ast.Node) bool {
		switch x := n.(type) {
		case *ast.CallExpr:
			if _, _, ok := g.lockOp(x); ok {
				g.fail(x, "lock operation inside a %s", what)
			}
			if callee, _, _ := g.callee(x); callee != "" {
				g.fail(x, "call of %s inside a %s", callee, what)
			}
		case *ast.SelectorExpr:
			if s := g.info.Selections[x]; s != nil && s.Kind() == types.FieldVal {
				if v, ok := s.Obj().(*types.Var); ok && g.fieldOf[v] != "" {
					g.fail(x, "access to %s inside a %s", g.p.text(x), what)
				}
			}
			g.unresolved(x)
		case *ast.Ident:
			if v, ok := g.info.Uses[x].(*types.Var); ok && v.Parent() == g.tpkg.Scope() {
				g.fail(x, "access to package variable %s inside a %s", x.Name, what)
			}
		}
		return true
	})
}

func isSyncLock(t types.Type) bool {
	if t == nil {
		return false
	}
	if p, ok := t.(*types.Pointer); ok {
		t = p.Elem()
	}
	n, ok := t.(*types.Named)
	return ok && n.Obj().Pkg() != nil && n.Obj().Pkg().Path() == "sync"
}

func (g *accessGen) structName(t types.Type) string {
	if t == nil {
		return ""
	}
	if p, ok := t.(*types.Pointer); ok {
		t = p.Elem()
	}
	n, ok := t.(*types.Named)
	if !ok || n.Obj().Pkg() != g.tpkg {
		return ""
	}
	if _, ok := n.Underlying().(*types.Struct); !ok {
		return ""
	}
	return n.Obj().Name()
}

// unresolved rejects a selector the type checker could not resolve if its
// name is the name of a tracked field.
func (g *accessGen) unresolved(sel *ast.SelectorExpr) {
	if g.info.Selections[sel] != nil {
		return
	}
	if id, ok := sel.X.(*ast.Ident); ok {
		if _, isPkg := g.info.Uses[id].(*types.PkgName); isPkg {
			return
		}
	}
	if _, isType := g.info.Types[sel]; isType && g.info.Types[sel].IsType() {
		return
	}
	for f := range g.fieldOf {
		if f.Name() == sel.Sel.Name {
			g.fail(sel, "cannot resolve %s, and %s is the name of a field of %s", g.p.text(sel), sel.Sel.Name, g.fieldOf[f])
		}
	}
}

func (g *accessGen) emit(n ast.Node, recv ast.Expr, strct, fld string, write bool, st lockState, lit bool) {
	r := accRow{fn: g.fn, file: g.file, line: g.line(n), strct: strct, fld: fld, write: write, held: st.clone(), lit: lit, goIdx: g.goIdx, loop: g.loop > 0}
	if lit {
		r.recv = "(literal)"
	} else if recv != nil {
		r.recv = g.p.text(recv)
		if id, ok := recv.(*ast.Ident); ok && g.recvObj != nil && g.info.Uses[id] == g.recvObj {
			r.onrecv = true
		}
		r.fresh = g.isFresh(recv, n.Pos())
	}
	if r.onrecv && (g.fn == "Session.GobDecode" || g.fn == "Session.UnmarshalJSON") {
		r.decode = true
	}
	g.rows = append(g.rows, r)
}

// field returns (struct, field) if e selects a field of a struct declared in
// the package.
func (g *accessGen) field(sel *ast.SelectorExpr) (string, string, bool) {
	s := g.info.Selections[sel]
	if s == nil || s.Kind() != types.FieldVal {
		return "", "", false
	}
	v, ok := s.Obj().(*types.Var)
	if !ok {
		return "", "", false
	}
	owner := g.fieldOf[v]
	if owner == "" || isSyncLock(v.Type()) {
		return "", "", false
	}
	return owner, v.Name(), true
}

func (g *accessGen) global(id *ast.Ident) (string, bool) {
	v, ok := g.info.Uses[id].(*types.Var)
	if !ok || v.Parent() != g.tpkg.Scope() || isSyncLock(v.Type()) {
		return "", false
	}
	return v.Name(), true
}

// expr records the reads an expression performs.
func (g *accessGen) expr(e ast.Expr, st lockState) {
	switch x := e.(type) {
	case nil:
	case *ast.BadExpr:
		g.fail(x, "bad expression")
	case *ast.Ident:
		if name, ok := g.global(x); ok {
			g.emit(x, nil, "(global)", name, false, st, false)
		}
		if fo, ok := g.info.Uses[x].(*types.Func); ok && fo.Pkg() == g.tpkg {
			g.fail(x, "function %s used as a value: where it is called is not visible", x.Name)
		}
	case *ast.BasicLit:
	case *ast.Ellipsis:
	case *ast.ParenExpr:
		g.expr(x.X, st)
	case *ast.SelectorExpr:
		if s := g.info.Selections[x]; s != nil && s.Kind() != types.FieldVal {
			if fo, ok := s.Obj().(*types.Func); ok && fo.Pkg() == g.tpkg {
				if _, isIface := fo.Type().(*types.Signature).Recv().Type().Underlying().(*types.Interface); !isIface {
					g.fail(x, "method %s used as a value: where it is called is not visible", g.p.text(x))
				}
			}
		}
		g.selector(x, st)
	default:
		g.expr2(e, st)
	}
}

// selector records the read a field selector performs and walks its base.
func (g *accessGen) selector(x *ast.SelectorExpr, st lockState) {
	{
		if owner, fld, ok := g.field(x); ok {
			g.emit(x, x.X, owner, fld, false, st, false)
		} else {
			g.unresolved(x)
		}
		if id, ok := x.X.(*ast.Ident); ok {
			if _, isPkg := g.info.Uses[id].(*types.PkgName); isPkg {
				return
			}
		}
		g.expr(x.X, st)
	}
}

func (g *accessGen) expr2(e ast.Expr, st lockState) {
	switch x := e.(type) {
	case *ast.IndexExpr:
		g.expr(x.X, st)
		g.expr(x.Index, st)
	case *ast.IndexListExpr:
		g.expr(x.X, st)
		for _, i := range x.Indices {
			g.expr(i, st)
		}
	case *ast.SliceExpr:
		// slicing an array takes its address: what happens through the slice
		// is not visible here, so it counts as a write
		if _, isArr := typeUnder(g.info.TypeOf(x.X)).(*types.Array); isArr {
			g.write(x.X, st)
		} else {
			g.expr(x.X, st)
		}
		g.expr(x.Low, st)
		g.expr(x.High, st)
		g.expr(x.Max, st)
	case *ast.StarExpr:
		if tv, ok := g.info.Types[x]; ok && tv.IsValue() && g.structName(tv.Type) != "" {
			if _, isPtr := tv.Type.(*types.Pointer); !isPtr {
				g.fail(x, "copy of a whole %s value through %s", g.structName(tv.Type), g.p.text(x))
			}
		}
		g.expr(x.X, st)
	case *ast.UnaryExpr:
		if x.Op == token.AND {
			if cl, ok := x.X.(*ast.CompositeLit); ok {
				g.expr(cl, st)
				return
			}
			// address taken: what the callee does with it is not visible
			g.write(x.X, st)
			return
		}
		g.expr(x.X, st)
	case *ast.BinaryExpr:
		g.expr(x.X, st)
		g.expr(x.Y, st)
	case *ast.KeyValueExpr:
		g.expr(x.Key, st)
		g.expr(x.Value, st)
	case *ast.TypeAssertExpr:
		g.expr(x.X, st)
	case *ast.CompositeLit:
		g.compositeLit(x, st)
	case *ast.FuncLit:
		g.opaqueLit(x, "function literal that is not started with go")
	case *ast.CallExpr:
		g.call(x, st, st, false)
	case *ast.ArrayType, *ast.MapType, *ast.ChanType, *ast.FuncType, *ast.InterfaceType, *ast.StructType:
	default:
		g.fail(e, "expression of kind %T", e)
	}
}

func typeUnder(t types.Type) types.Type {
	if t == nil {
		return nil
	}
	return t.Underlying()
}

func (g *accessGen) compositeLit(x *ast.CompositeLit, st lockState) {
	t := g.info.TypeOf(x)
	name := g.structName(t)
	if name == "" {
		if _, isStruct := typeUnder(t).(*types.Struct); isStruct {
			// anonymous struct: keys are field names
			for _, el := range x.Elts {
				if kv, ok := el.(*ast.KeyValueExpr); ok {
					g.expr(kv.Value, st)
				} else {
					g.expr(el, st)
				}
			}
			return
		}
		if t == nil || t == types.Typ[types.Invalid] {
			// type from an import that is not loaded: values only; keys of a
			// struct literal are not expressions, keys of map literals of
			// foreign types cannot touch tracked memory except through
			// expressions, which are walked when they are not bare identifiers
			for _, el := range x.Elts {
				if kv, ok := el.(*ast.KeyValueExpr); ok {
					if _, bare := kv.Key.(*ast.Ident); !bare {
						g.expr(kv.Key, st)
					}
					g.expr(kv.Value, st)
				} else {
					g.expr(el, st)
				}
			}
			return
		}
		for _, el := range x.Elts {
			g.expr(el, st)
		}
		return
	}
	strct := typeUnder(t)
	if p, ok := strct.(*types.Pointer); ok {
		strct = p.Elem().Underlying()
	}
	s := strct.(*types.Struct)
	for i, el := range x.Elts {
		if kv, ok := el.(*ast.KeyValueExpr); ok {
			id, ok := kv.Key.(*ast.Ident)
			if !ok {
				g.fail(kv, "composite literal key")
			}
			if !isSyncLockField(s, id.Name) {
				g.emit(kv, nil, name, id.Name, true, st, true)
			}
			g.expr(kv.Value, st)
		} else {
			if i >= s.NumFields() {
				g.fail(el, "too many values in composite literal")
			}
			if !isSyncLock(s.Field(i).Type()) {
				g.emit(el, nil, name, s.Field(i).Name(), true, st, true)
			}
			g.expr(el, st)
		}
	}
}

func isSyncLockField(s *types.Struct, name string) bool {
	for i := 0; i < s.NumFields(); i++ {
		if s.Field(i).Name() == name {
			return isSyncLock(s.Field(i).Type())
		}
	}
	return false
}

// write records a write to the location e denotes (and the reads needed to
// compute the location).
func (g *accessGen) write(e ast.Expr, st lockState) {
	switch x := e.(type) {
	case *ast.ParenExpr:
		g.write(x.X, st)
	case *ast.Ident:
		if x.Name == "_" {
			return
		}
		if name, ok := g.global(x); ok {
			g.emit(x, nil, "(global)", name, true, st, false)
		}
	case *ast.SelectorExpr:
		if owner, fld, ok := g.field(x); ok {
			g.emit(x, x.X, owner, fld, true, st, false)
		} else {
			g.unresolved(x)
		}
		g.expr(x.X, st)
	case *ast.IndexExpr:
		// element of a map, array or slice held in a field: the field's
		// content changes (for a slice, the backing array is treated as part
		// of the field)
		g.expr(x.Index, st)
		switch typeUnder(g.info.TypeOf(x.X)).(type) {
		case *types.Pointer:
			g.expr(x.X, st)
		default:
			g.write(x.X, st)
		}
	case *ast.SliceExpr:
		g.write(x.X, st)
		g.expr(x.Low, st)
		g.expr(x.High, st)
		g.expr(x.Max, st)
	case *ast.StarExpr:
		if tv, ok := g.info.Types[x]; ok && g.structName(tv.Type) != "" {
			g.fail(x, "assignment to a whole %s value through %s", g.structName(tv.Type), g.p.text(x))
		}
		g.expr(x.X, st)
	default:
		g.expr(e, st)
	}
}

// callee names a function or method of the package that a call invokes:
// "Type.method" or "function"; recv is the receiver expression of a method.
func (g *accessGen) callee(call *ast.CallExpr) (name string, recv ast.Expr, fn *types.Func) {
	switch f := call.Fun.(type) {
	case *ast.Ident:
		if fo, ok := g.info.Uses[f].(*types.Func); ok && fo.Pkg() == g.tpkg {
			return fo.Name(), nil, fo
		}
	case *ast.SelectorExpr:
		s := g.info.Selections[f]
		if s == nil || s.Kind() != types.MethodVal {
			return "", nil, nil
		}
		fo, ok := s.Obj().(*types.Func)
		if !ok || fo.Pkg() != g.tpkg {
			return "", nil, nil
		}
		sig := fo.Type().(*types.Signature)
		if sig.Recv() == nil {
			return "", nil, nil
		}
		rn := g.structName(sig.Recv().Type())
		if rn == "" {
			if n, ok := sig.Recv().Type().(*types.Named); ok {
				rn = n.Obj().Name()
			} else if p, ok := sig.Recv().Type().(*types.Pointer); ok {
				if n, ok := p.Elem().(*types.Named); ok {
					rn = n.Obj().Name()
				}
			}
		}
		if _, isIface := sig.Recv().Type().Underlying().(*types.Interface); isIface {
			return "", nil, nil
		}
		return rn + "." + fo.Name(), f.X, fo
	}
	return "", nil, nil
}

func (g *accessGen) call(call *ast.CallExpr, st, atCall lockState, deferred bool) {
	if _, _, ok := g.lockOp(call); ok {
		g.fail(call, "lock operation in a position the walk does not interpret")
	}
	// builtins that write through their first argument
	if id, ok := call.Fun.(*ast.Ident); ok {
		if b, isBuiltin := g.info.Uses[id].(*types.Builtin); isBuiltin {
			switch b.Name() {
			case "delete", "copy", "clear":
				if len(call.Args) > 0 {
					g.write(call.Args[0], st)
					for _, a := range call.Args[1:] {
						g.expr(a, st)
					}
					return
				}
			}
		}
	}
	switch f := call.Fun.(type) {
	case *ast.FuncLit:
		g.opaqueLit(f, "function literal called in place")
	case *ast.SelectorExpr:
		g.selector(f, st)
	case *ast.Ident:
		if name, ok := g.global(f); ok {
			g.emit(f, nil, "(global)", name, false, st, false)
		}
	default:
		g.expr(call.Fun, st)
	}
	for _, a := range call.Args {
		g.expr(a, st)
	}
	g.callNoArgs(call, atCall, deferred)
}

func (g *accessGen) callNoArgs(call *ast.CallExpr, atCall lockState, deferred bool) {
	// calls through the package-level persistence layer
	if sel, ok := call.Fun.(*ast.SelectorExpr); ok {
		if id, ok := sel.X.(*ast.Ident); ok && id.Name == "Persistence" {
			if v, ok := g.info.Uses[id].(*types.Var); ok && v.Parent() == g.tpkg.Scope() {
				g.pcalls = append(g.pcalls, cacheCall{fn: g.fn, file: g.file, line: g.line(call), callee: "Persistence." + sel.Sel.Name, held: atCall.clone(), goIdx: g.goIdx})
			}
		}
	}
	name, recv, _ := g.callee(call)
	if name == "" {
		return
	}
	r := callRow{fn: g.fn, file: g.file, line: g.line(call), callee: name, held: atCall.clone(), goIdx: g.goIdx, deferred: deferred}
	if recv != nil {
		r.recv = g.p.text(recv)
		if id, ok := recv.(*ast.Ident); ok && g.recvObj != nil && g.info.Uses[id] == g.recvObj {
			r.onrecv = true
		}
	}
	g.calls = append(g.calls, r)
	g.callers[name] = append(g.callers[name], g.fn)
}

// ---- output ----

func coqHeld(st lockState) string {
	var parts []string
	for _, h := range st {
		parts = append(parts, fmt.Sprintf("(%s, %s, %d%%N)", coqString(h.expr), h.mode, h.site))
	}
	return "[" + strings.Join(parts, "; ") + "]"
}

func coqB(b bool) string {
	if b {
		return "true"
	}
	return "false"
}

func (g *accessGen) render() string {
	var b strings.Builder
	b.WriteString("(* Generated from /repo/*.go by /verif/translator (access.go). Do not edit. *)\n")
	b.WriteString("From Coq Require Import List NArith String.\nFrom Sessions Require Import Model.Lockset.\nImport ListNotations.\nLocal Open Scope string_scope.\n\n")
	b.WriteString("(* mkRow func file line receiver struct field rw held literal decode fresh go-index on-receiver in-loop init-time *)\n")
	b.WriteString("Definition table : list row := [\n")
	for i, r := range g.rows {
		rw := "Rd"
		if r.write {
			rw = "Wr"
		}
		fmt.Fprintf(&b, "  mkRow %s %s %d%%N %s %s %s %s %s %s %s %s %d%%N %s %s %s", coqString(r.fn), coqString(r.file), r.line,
			coqString(r.recv), coqString(r.strct), coqString(r.fld), rw, coqHeld(r.held),
			coqB(r.lit), coqB(r.decode), coqB(r.fresh), r.goIdx, coqB(r.onrecv), coqB(r.loop), coqB(r.initTime))
		if i+1 < len(g.rows) {
			b.WriteString(";")
		}
		b.WriteString("\n")
	}
	b.WriteString("].\n\n")
	b.WriteString("(* mkCall func file line callee receiver held go-index deferred on-receiver *)\n")
	b.WriteString("Definition calls : list call_row := [\n")
	for i, c := range g.calls {
		fmt.Fprintf(&b, "  mkCall %s %s %d%%N %s %s %s %d%%N %s %s", coqString(c.fn), coqString(c.file), c.line,
			coqString(c.callee), coqString(c.recv), coqHeld(c.held), c.goIdx, coqB(c.deferred), coqB(c.onrecv))
		if i+1 < len(g.calls) {
			b.WriteString(";")
		}
		b.WriteString("\n")
	}
	b.WriteString("].\n\n")
	g.renderCacheCalls(&b)
	b.WriteString("Definition functions : list string := [\n")
	for i, f := range g.funcs {
		b.WriteString("  " + coqString(f))
		if i+1 < len(g.funcs) {
			b.WriteString(";")
		}
		b.WriteString("\n")
	}
	b.WriteString("].\n")
	return b.String()
}

// ---- cache_calls: granularity of the cache operations ----

// cacheExpr names the cache object a function works on: the receiver of a
// method of cache, otherwise the receiver expression of the function's first
// access to a field of cache outside a composite literal ("" if none).
func (g *accessGen) cacheExpr(fn string) string {
	if fd := g.fdecls[fn]; fd != nil && recvName(fd) == "cache" && len(fd.Recv.List[0].Names) == 1 {
		return fd.Recv.List[0].Names[0].Name
	}
	for _, r := range g.rows {
		if r.fn == fn && r.strct == "cache" && !r.lit && r.recv != "" {
			return r.recv
		}
	}
	return ""
}

// wholeBody: the function body starts with x.Lock(); defer x.Unlock() and
// contains no other lock operation on x: from its first statement to every
// return it is one critical section of x.
func (g *accessGen) wholeBody(fn, x string) bool {
	fd := g.fdecls[fn]
	if fd == nil || fd.Body == nil || len(fd.Body.List) < 2 || x == "" {
		return false
	}
	first, ok := fd.Body.List[0].(*ast.ExprStmt)
	if !ok {
		return false
	}
	c1, ok := first.X.(*ast.CallExpr)
	if !ok {
		return false
	}
	saved := g.fn
	g.fn = fn
	defer func() { g.fn = saved }()
	op, le, ok := g.lockOp(c1)
	if !ok || op != "Lock" || le != x {
		return false
	}
	d, ok := fd.Body.List[1].(*ast.DeferStmt)
	if !ok {
		return false
	}
	op, le, ok = g.lockOp(d.Call)
	if !ok || op != "Unlock" || le != x {
		return false
	}
	n := 0
	ast.Inspect(fd.Body, func(m ast.Node) bool {
		if c, ok := m.(*ast.CallExpr); ok {
			if _, le, ok := g.lockOp(c); ok && le == x {
				n++
			}
		}
		return true
	})
	return n == 2
}

func (g *accessGen) renderCacheCalls(b *strings.Builder) {
	b.WriteString("(* mkCacheCall func file line callee cache-expression held go-index whole-body-is-one-critical-section *)\n")
	b.WriteString("Definition cache_calls : list cache_call_row := [\n")
	var lines []string
	emit := func(fn, file string, line int, callee string, held lockState, goIdx int) {
		x := g.cacheExpr(fn)
		if x == "" {
			return
		}
		lines = append(lines, fmt.Sprintf("  mkCacheCall %s %s %d%%N %s %s %s %d%%N %s", coqString(fn), coqString(file), line,
			coqString(callee), coqString(x), coqHeld(held), goIdx, coqB(g.wholeBody(fn, x))))
	}
	type item struct {
		file string
		line int
		f    func()
	}
	var items []item
	for _, c := range g.pcalls {
		c := c
		items = append(items, item{c.file, c.line, func() { emit(c.fn, c.file, c.line, c.callee, c.held, c.goIdx) }})
	}
	for _, c := range g.calls {
		c := c
		if strings.HasPrefix(c.callee, "cache.") {
			items = append(items, item{c.file, c.line, func() { emit(c.fn, c.file, c.line, c.callee, c.held, c.goIdx) }})
		}
	}
	sort.SliceStable(items, func(i, j int) bool {
		if items[i].file != items[j].file {
			return items[i].file < items[j].file
		}
		return items[i].line < items[j].line
	})
	for _, it := range items {
		it.f()
	}
	b.WriteString(strings.Join(lines, ";\n"))
	if len(lines) > 0 {
		b.WriteString("\n")
	}
	b.WriteString("].\n\n")
}
