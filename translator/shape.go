package main

// Gen/SessShape.v: the decision logic of the functions that Model/Sess.v
// models, as text: for every function of session.go / cache.go other than the
// codecs, its `if` and `for` conditions, in source order (printed from the AST,
// so comments and layout do not matter). The model was written against these;
// Properties/Shape.v pins them, so an edited comparison (>= for >, a changed
// bound, a dropped conjunct) breaks an obligation even in a branch that the
// generated histories reach rarely.
//
// Exception: the conditions that translator/purefn.go translates into Gallina
// (Gen/PureFn.v, Gen/PureFnIP.v) appear as "<translated: gen_x (Gen/F.v)>":
// what they mean is proved on every run (Properties/C03P.v, C06P.v), so a
// harmless rewrite does not trip the pin; their presence, number, order and
// function still do. If the translation fails, the source text is listed.

import (
	"bytes"
	"fmt"
	"go/ast"
	"go/printer"
	"sort"
	"strings"
)

func init() {
	generators["SessShape"] = func(p *pkg) (string, error) {
		skip := map[string]bool{"GobEncode": true, "GobDecode": true, "MarshalJSON": true, "UnmarshalJSON": true}
		type fn struct {
			name  string
			conds []string
		}
		var fns []fn
		for _, file := range []string{"session.go", "cache.go"} {
			f := p.files[file]
			if f == nil {
				return "", fmt.Errorf("%s not found", file)
			}
			for _, d := range f.Decls {
				fd, ok := d.(*ast.FuncDecl)
				if !ok || fd.Body == nil || skip[fd.Name.Name] {
					continue
				}
				name := fd.Name.Name
				if r := recvName(fd); r != "" {
					name = r + "." + name
				}
				var conds []string
				ast.Inspect(fd.Body, func(n ast.Node) bool {
					var e ast.Expr
					kind := ""
					switch x := n.(type) {
					case *ast.IfStmt:
						e, kind = x.Cond, "if"
						if x.Init != nil {
							var ib bytes.Buffer
							printer.Fprint(&ib, p.fset, x.Init)
							kind = "if " + oneLine(ib.String()) + ";"
						}
					case *ast.ForStmt:
						if x.Cond != nil {
							e, kind = x.Cond, "for"
						}
					case *ast.ReturnStmt:
						// decision logic written as a returned boolean expression (Expired)
						if len(x.Results) == 1 {
							if be, ok := x.Results[0].(*ast.BinaryExpr); ok {
								e, kind = be, "return"
							}
						}
					}
					if e != nil {
						// A condition that the generators PureFn / PureFnIP
						// translated (this very AST node) is listed by the
						// name of its translation: its meaning is proved
						// (Properties/C03P.v, C06P.v), so its wording is not
						// pinned. Position and function stay as they are.
						if ph, ok := pfPlaceholder(p, e); ok {
							conds = append(conds, kind+" "+ph)
						} else {
							var b bytes.Buffer
							printer.Fprint(&b, p.fset, e)
							conds = append(conds, kind+" "+oneLine(b.String()))
						}
					}
					return true
				})
				fns = append(fns, fn{name, conds})
			}
		}
		sort.Slice(fns, func(i, j int) bool { return fns[i].name < fns[j].name })
		var b strings.Builder
		b.WriteString("(* Generated from /repo/session.go and /repo/cache.go by /verif/translator. Do not edit. *)\n")
		b.WriteString("From Coq Require Import List String.\nImport ListNotations.\nLocal Open Scope string_scope.\n\n")
		b.WriteString("Definition sess_conditions : list (string * list string) := [\n")
		for i, f := range fns {
			if i > 0 {
				b.WriteString(";\n")
			}
			b.WriteString("  (" + coqString(f.name) + ", [")
			for j, c := range f.conds {
				if j > 0 {
					b.WriteString(";\n     ")
				}
				b.WriteString(coqString(c))
			}
			b.WriteString("])")
		}
		b.WriteString("].\n\n")
		// every use of the per-ID lock manager in the package (function, statement)
		var uses []string
		var names []string
		for name := range p.files {
			names = append(names, name)
		}
		sort.Strings(names)
		for _, name := range names {
			for _, d := range p.files[name].Decls {
				fd, ok := d.(*ast.FuncDecl)
				if !ok || fd.Body == nil {
					continue
				}
				fname := fd.Name.Name
				if r := recvName(fd); r != "" {
					fname = r + "." + fname
				}
				ast.Inspect(fd.Body, func(n ast.Node) bool {
					var call *ast.CallExpr
					prefix := ""
					switch x := n.(type) {
					case *ast.DeferStmt:
						call, prefix = x.Call, "defer "
					case *ast.GoStmt:
						call, prefix = x.Call, "go "
					case *ast.ExprStmt:
						if c, ok := x.X.(*ast.CallExpr); ok {
							call = c
						}
					}
					if call == nil {
						return true
					}
					var cb bytes.Buffer
					printer.Fprint(&cb, p.fset, call)
					txt := oneLine(cb.String())
					if strings.HasPrefix(txt, "sessionIDMutexes.") {
						uses = append(uses, "("+coqString(fname)+", "+coqString(prefix+txt)+")")
						return false
					}
					return true
				})
			}
		}
		b.WriteString("Definition idlock_uses : list (string * string) := [\n  " + strings.Join(uses, ";\n  ") + "].\n")
		return b.String(), nil
	}
}

func oneLine(s string) string {
	return strings.Join(strings.Fields(s), " ")
}
