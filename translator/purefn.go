package main

// Gen/PureFn.v: the pure decision code of the package, TRANSLATED from the Go
// AST into Gallina (not transcribed by hand, not pinned as text).
// Proofs/PureFnEquiv.v proves, on every run and against what the code says
// now, that the translated functions equal the decisions of the hand-written
// model (Model/Sess.v); Properties/C03P.v states it.
//
// The subset of Go that is translated (anything else is a hard error naming
// the construct; nothing is skipped silently except the lock statements listed
// below, which are reported in a comment of the output):
//
//   types       time.Duration / int64 (Coq Z, with Go's wrap-around),
//               bool, time.Time (only as the argument of time.Since),
//               string (only the fields listed below, compared with ""),
//               uint64 (only the user-agent hashes, compared with == / !=)
//   expressions integer literals; true, false; ( e ); !e; -e;
//               a + b, a - b on durations    -> wrap64 (a + b), wrap64 (a - b)
//               a < b, <=, >, >=, ==, != on durations -> Z.ltb / Z.leb / Z.eqb
//               a == b, a != b on hashes / booleans
//               f == "", f != "" on a string field that the model holds as an
//                 option (referenceID -> r_ref r): "" is None
//               a && b, a || b               -> andb, orb
//               time.Since(t)                -> since t now   (Model/Base.v)
//               math.MaxInt64                -> max64
//               addDurations(a, b)           -> gen_addDurations a b
//               session fields (through the receiver of a method of Session,
//                 or through the variable named `session` in Start/compact):
//                 lastAccess -> r_access r, created -> r_created r,
//                 referenceID -> r_ref r, lastUserAgentHash -> r_ua r
//               configuration variables: SessionExpiry -> c_expiry c,
//                 SessionIDExpiry -> c_idexpiry c, SessionIDGracePeriod ->
//                 c_grace c, SessionCacheExpiry -> c_cacheexpiry c,
//                 AcceptChangingUserAgent -> c_acceptua c
//                 (generator PureFnIP, below, adds AcceptRemoteIP, len, x[i],
//                 comparisons of x[i], and a counted loop with break)
//               a local variable of the enclosing function that is defined
//                 exactly once (x := e), never assigned again, never has its
//                 address taken: replaced by its defining expression
//   statements  (function bodies) x := e -> let; if cond { return e } (no
//               else, no init) -> if-then-else with the rest of the body;
//               return e as the last statement;
//               skipped: recv.Lock() / recv.RLock() as a statement and
//               defer recv.Unlock() / defer recv.RUnlock()
//
// What is translated:
//   addDurations (session.go)        -> gen_addDurations a b
//   (*Session).Expired               -> gen_Expired c r now
//   Start: the `if` whose condition mentions SessionExpiry (its body must be
//          `valid = false`)          -> gen_stale c r now
//          the `if` whose body begins with the call of RegenerateID
//                                    -> gen_rotate c r now
//          its `else if` (body calls sessions.Delete and returns)
//                                    -> gen_backstop c r now
//          the `if` whose condition mentions AcceptChangingUserAgent (its body
//          must be `valid = e`): the new value of valid
//                                    -> gen_ua_ok c r valid agentHash
//   (*cache).compact: the `if` whose condition mentions SessionCacheExpiry
//                                    -> gen_idle c r now
// Each of these must be found exactly once, and WHERE it stands is checked
// too (pfStartLayout, pfCompactLayout: the look-up guard and `if session !=
// nil` are statements of Start's body; staleness test, remote-address block,
// user-agent test and `if !valid` are consecutive statements of the body of
// `if session != nil`; the rotation test is the first statement of the else
// branch of `if !valid`, the backstop test its `else if`; between the look-up
// and the backstop condition nothing assigns to `session` or a field of it or
// takes its address, except in the then-branch of `if !valid`; a once-defined
// local is inlined only where its definition stands before the use in a
// block enclosing it; the idle test is a statement of the body of `for ...,
// session := range c.sessions` with no write to `session` before it).
// Conventions: several time.Since calls inside one function are translated
// with one `now` (the model's request reads the clock once); Go's int is
// taken as 64-bit.

import (
	"fmt"
	"go/ast"
	"go/token"
	"strconv"
	"strings"
)

func init() {
	generators["PureFn"] = genPureFn
}

type pfType int

const (
	pfDur pfType = iota
	pfBool
	pfTime
	pfStrOpt
	pfHash
	pfIntLit
	pfEmptyStr
	pfCaps  // []string: the result of FindStringSubmatch (Coq list bytes)
	pfStr   // string (Coq bytes), only under len
	pfOStr  // x[i]: option bytes, None = index out of range (Go panics)
	pfPBool // a comparison of two x[i]: option bool, None = Go panics
)

func (t pfType) String() string {
	return [...]string{"time.Duration/int", "bool", "time.Time", "string field", "uint64 hash", "integer literal", `""`, "[]string", "string", "indexed string", "comparison of indexed strings"}[t]
}

func (t pfType) coq() string {
	switch t {
	case pfDur, pfTime:
		return "Z"
	case pfBool:
		return "bool"
	case pfHash:
		return "N"
	}
	return "?"
}

type pfVal struct {
	term string
	typ  pfType
}

var pfConfig = map[string]pfVal{
	"SessionExpiry":           {"(c_expiry c)", pfDur},
	"SessionIDExpiry":         {"(c_idexpiry c)", pfDur},
	"SessionIDGracePeriod":    {"(c_grace c)", pfDur},
	"SessionCacheExpiry":      {"(c_cacheexpiry c)", pfDur},
	"AcceptChangingUserAgent": {"(c_acceptua c)", pfBool},
	"AcceptRemoteIP":          {"(c_acceptip c)", pfDur}, // int: 64-bit, same arithmetic as int64
}

var pfFields = map[string]pfVal{
	"lastAccess":        {"(r_access r)", pfTime},
	"created":           {"(r_created r)", pfTime},
	"referenceID":       {"(r_ref r)", pfStrOpt},
	"lastUserAgentHash": {"(r_ua r)", pfHash},
}

type pfEnv struct {
	parents map[ast.Node]ast.Node        // of the enclosing function (position checks)
	defStmt map[string]*ast.AssignStmt // the defining statement of each once-defined local
	fn      string                  // the generated function's name (for the marks)
	mark    func(ast.Node, string) // records an AST node as translated into a generated function
	p       *pkg
	where   string              // for error messages
	recs    map[string]bool     // identifiers that denote the session record
	bound   map[string]pfVal    // let-bound locals and parameters
	inline  map[string]ast.Expr // once-defined locals of the enclosing function
	busy    map[string]bool     // inlining in progress (cycle guard)
	inlined []string            // what was inlined, for the output comment
	skipped []string            // lock statements skipped, for the output comment
}

func (e *pfEnv) errf(n ast.Node, format string, a ...interface{}) error {
	pos := e.p.fset.Position(n.Pos())
	return fmt.Errorf("%s (%s:%d): %s: `%s`", e.where, pos.Filename[strings.LastIndex(pos.Filename, "/")+1:], pos.Line,
		fmt.Sprintf(format, a...), oneLine(e.p.text(n)))
}

func pfCoerce(v pfVal, to pfType) pfVal {
	if v.typ == pfIntLit {
		switch to {
		case pfDur:
			return pfVal{"(" + v.term + ")%Z", pfDur}
		case pfHash:
			return pfVal{"(" + v.term + ")%N", pfHash}
		}
	}
	return v
}

func (e *pfEnv) expr(x ast.Expr) (pfVal, error) {
	switch n := x.(type) {
	case *ast.ParenExpr:
		return e.expr(n.X)
	case *ast.Ident:
		if v, ok := e.bound[n.Name]; ok {
			return v, nil
		}
		if d, ok := e.inline[n.Name]; ok {
			if e.busy[n.Name] {
				return pfVal{}, e.errf(n, "local variable defined in terms of itself")
			}
			if st := e.defStmt[n.Name]; st != nil && e.parents != nil {
				// the definition must stand before the use, in a block that encloses it
				encl := false
				for x := ast.Node(n); x != nil; x = e.parents[x] {
					if x == e.parents[st] {
						encl = true
						break
					}
				}
				if _, isBlock := e.parents[st].(*ast.BlockStmt); !isBlock || !encl || st.End() > n.Pos() {
					return pfVal{}, e.errf(n, "local variable whose definition `%s` does not stand before this use in a block enclosing it", oneLine(e.p.text(st)))
				}
			}
			e.busy[n.Name] = true
			v, err := e.expr(d)
			delete(e.busy, n.Name)
			if err == nil {
				note := n.Name + " := " + oneLine(e.p.text(d))
				seen := false
				for _, s := range e.inlined {
					seen = seen || s == note
				}
				if !seen {
					e.inlined = append(e.inlined, note)
				}
			}
			return v, err
		}
		if v, ok := pfConfig[n.Name]; ok {
			return v, nil
		}
		switch n.Name {
		case "true", "false":
			return pfVal{n.Name, pfBool}, nil
		}
		return pfVal{}, e.errf(n, "identifier outside the translated subset (not a parameter, a once-defined local, a known configuration variable)")
	case *ast.BasicLit:
		switch n.Kind {
		case token.INT:
			s, err := intLit(n)
			if err != nil {
				return pfVal{}, e.errf(n, "%v", err)
			}
			return pfVal{s, pfIntLit}, nil
		case token.STRING:
			s, err := strconv.Unquote(n.Value)
			if err != nil || s != "" {
				return pfVal{}, e.errf(n, "string literal other than \"\"")
			}
			return pfVal{"", pfEmptyStr}, nil
		}
		return pfVal{}, e.errf(n, "literal of kind %s", n.Kind)
	case *ast.SelectorExpr:
		id, ok := n.X.(*ast.Ident)
		if !ok {
			return pfVal{}, e.errf(n, "selector on something that is not an identifier")
		}
		if e.recs[id.Name] {
			if v, ok := pfFields[n.Sel.Name]; ok {
				return v, nil
			}
			return pfVal{}, e.errf(n, "session field outside the translated subset")
		}
		if id.Name == "math" && n.Sel.Name == "MaxInt64" {
			return pfVal{"max64", pfDur}, nil
		}
		return pfVal{}, e.errf(n, "selector outside the translated subset")
	case *ast.UnaryExpr:
		v, err := e.expr(n.X)
		if err != nil {
			return pfVal{}, err
		}
		switch n.Op {
		case token.NOT:
			if v.typ == pfPBool {
				return pfVal{"(option_map negb " + v.term + ")", pfPBool}, nil
			}
			if v.typ != pfBool {
				return pfVal{}, e.errf(n, "! applied to %s", v.typ)
			}
			return pfVal{"(negb " + v.term + ")", pfBool}, nil
		case token.SUB:
			v = pfCoerce(v, pfDur)
			if v.typ != pfDur {
				return pfVal{}, e.errf(n, "unary - applied to %s", v.typ)
			}
			return pfVal{"(wrap64 (- " + v.term + "))", pfDur}, nil
		}
		return pfVal{}, e.errf(n, "unary operator %s", n.Op)
	case *ast.IndexExpr:
		x, err := e.expr(n.X)
		if err != nil {
			return pfVal{}, err
		}
		i, err := e.expr(n.Index)
		if err != nil {
			return pfVal{}, err
		}
		i = pfCoerce(i, pfDur)
		if x.typ != pfCaps || i.typ != pfDur {
			return pfVal{}, e.errf(n, "index expression on %s with %s", x.typ, i.typ)
		}
		return pfVal{"(caps_idx " + x.term + " " + i.term + ")", pfOStr}, nil
	case *ast.BinaryExpr:
		return e.binary(n)
	case *ast.CallExpr:
		return e.call(n)
	}
	return pfVal{}, e.errf(x, "expression form %T outside the translated subset", x)
}

func (e *pfEnv) binary(n *ast.BinaryExpr) (pfVal, error) {
	a, err := e.expr(n.X)
	if err != nil {
		return pfVal{}, err
	}
	b, err := e.expr(n.Y)
	if err != nil {
		return pfVal{}, err
	}
	// an integer literal takes the type of the other operand
	if a.typ == pfIntLit && b.typ != pfIntLit {
		a = pfCoerce(a, b.typ)
	}
	if b.typ == pfIntLit && a.typ != pfIntLit {
		b = pfCoerce(b, a.typ)
	}
	bad := func() (pfVal, error) {
		return pfVal{}, e.errf(n, "operator %s on %s and %s", n.Op, a.typ, b.typ)
	}
	switch n.Op {
	case token.LAND, token.LOR:
		if a.typ != pfBool || b.typ != pfBool {
			return bad()
		}
		f := "andb"
		if n.Op == token.LOR {
			f = "orb"
		}
		return pfVal{"(" + f + " " + a.term + " " + b.term + ")", pfBool}, nil
	case token.ADD, token.SUB:
		if a.typ != pfDur || b.typ != pfDur {
			return bad()
		}
		op := "+"
		if n.Op == token.SUB {
			op = "-"
		}
		return pfVal{"(wrap64 (" + a.term + " " + op + " " + b.term + "))", pfDur}, nil
	case token.LSS, token.LEQ, token.GTR, token.GEQ:
		if a.typ != pfDur || b.typ != pfDur {
			return bad()
		}
		switch n.Op {
		case token.LSS:
			return pfVal{"(Z.ltb " + a.term + " " + b.term + ")", pfBool}, nil
		case token.LEQ:
			return pfVal{"(Z.leb " + a.term + " " + b.term + ")", pfBool}, nil
		case token.GTR:
			return pfVal{"(Z.ltb " + b.term + " " + a.term + ")", pfBool}, nil
		default:
			return pfVal{"(Z.leb " + b.term + " " + a.term + ")", pfBool}, nil
		}
	case token.EQL, token.NEQ:
		var t string
		switch {
		case a.typ == pfDur && b.typ == pfDur:
			t = "(Z.eqb " + a.term + " " + b.term + ")"
		case a.typ == pfHash && b.typ == pfHash:
			t = "(N.eqb " + a.term + " " + b.term + ")"
		case a.typ == pfBool && b.typ == pfBool:
			t = "(Bool.eqb " + a.term + " " + b.term + ")"
		case a.typ == pfOStr && b.typ == pfOStr:
			t = "(ostr_eq " + a.term + " " + b.term + ")"
			if n.Op == token.NEQ {
				t = "(option_map negb " + t + ")"
			}
			return pfVal{t, pfPBool}, nil
		case a.typ == pfStrOpt && b.typ == pfEmptyStr:
			t = "(match " + a.term + " with None => true | Some _ => false end)"
		case a.typ == pfEmptyStr && b.typ == pfStrOpt:
			t = "(match " + b.term + " with None => true | Some _ => false end)"
		default:
			return bad()
		}
		if n.Op == token.NEQ {
			t = "(negb " + t + ")"
		}
		return pfVal{t, pfBool}, nil
	}
	return pfVal{}, e.errf(n, "binary operator %s outside the translated subset", n.Op)
}

func (e *pfEnv) call(n *ast.CallExpr) (pfVal, error) {
	if n.Ellipsis != token.NoPos {
		return pfVal{}, e.errf(n, "variadic call")
	}
	switch f := n.Fun.(type) {
	case *ast.SelectorExpr:
		if id, ok := f.X.(*ast.Ident); ok && id.Name == "time" && f.Sel.Name == "Since" && len(n.Args) == 1 {
			v, err := e.expr(n.Args[0])
			if err != nil {
				return pfVal{}, err
			}
			if v.typ != pfTime {
				return pfVal{}, e.errf(n, "time.Since applied to %s", v.typ)
			}
			return pfVal{"(since " + v.term + " now)", pfDur}, nil
		}
	case *ast.Ident:
		if f.Name == "len" && len(n.Args) == 1 {
			v, err := e.expr(n.Args[0])
			if err != nil {
				return pfVal{}, err
			}
			if v.typ != pfCaps && v.typ != pfStr {
				return pfVal{}, e.errf(n, "len applied to %s", v.typ)
			}
			return pfVal{"(Z.of_nat (length " + v.term + "))", pfDur}, nil
		}
		if f.Name == "addDurations" && len(n.Args) == 2 {
			var args []string
			for _, a := range n.Args {
				v, err := e.expr(a)
				if err != nil {
					return pfVal{}, err
				}
				v = pfCoerce(v, pfDur)
				if v.typ != pfDur {
					return pfVal{}, e.errf(n, "addDurations applied to %s", v.typ)
				}
				args = append(args, v.term)
			}
			return pfVal{"(gen_addDurations " + strings.Join(args, " ") + ")", pfDur}, nil
		}
	}
	return pfVal{}, e.errf(n, "call outside the translated subset (only time.Since, addDurations, len)")
}

// lockCall: recv.Lock() / RLock() / Unlock() / RUnlock() without arguments on
// one of the record variables.
func (e *pfEnv) lockCall(c *ast.CallExpr, names ...string) bool {
	sel, ok := c.Fun.(*ast.SelectorExpr)
	if !ok || len(c.Args) != 0 {
		return false
	}
	id, ok := sel.X.(*ast.Ident)
	if !ok || !e.recs[id.Name] {
		return false
	}
	for _, n := range names {
		if sel.Sel.Name == n {
			return true
		}
	}
	return false
}

// body translates a statement list ending in a return into a term of type ret.
func (e *pfEnv) body(stmts []ast.Stmt, ret pfType, indent string) (string, error) {
	if len(stmts) == 0 {
		return "", fmt.Errorf("%s: the function body ends without a return", e.where)
	}
	st, rest := stmts[0], stmts[1:]
	switch n := st.(type) {
	case *ast.ExprStmt:
		if c, ok := n.X.(*ast.CallExpr); ok && e.lockCall(c, "Lock", "RLock") {
			e.skipped = append(e.skipped, oneLine(e.p.text(n)))
			return e.body(rest, ret, indent)
		}
		return "", e.errf(n, "expression statement outside the translated subset")
	case *ast.DeferStmt:
		if e.lockCall(n.Call, "Unlock", "RUnlock") {
			e.skipped = append(e.skipped, oneLine(e.p.text(n)))
			return e.body(rest, ret, indent)
		}
		return "", e.errf(n, "defer outside the translated subset")
	case *ast.AssignStmt:
		if n.Tok != token.DEFINE || len(n.Lhs) != 1 || len(n.Rhs) != 1 {
			return "", e.errf(n, "assignment other than `x := e`")
		}
		id, ok := n.Lhs[0].(*ast.Ident)
		if !ok || id.Name == "_" {
			return "", e.errf(n, "assignment other than `x := e`")
		}
		if _, dup := e.bound[id.Name]; dup {
			return "", e.errf(n, "redefinition of %s", id.Name)
		}
		v, err := e.expr(n.Rhs[0])
		if err != nil {
			return "", err
		}
		v = pfCoerce(v, pfDur)
		if v.typ != pfDur && v.typ != pfBool && v.typ != pfHash && v.typ != pfTime {
			return "", e.errf(n, "local variable of type %s", v.typ)
		}
		e.bound[id.Name] = pfVal{"v_" + id.Name, v.typ}
		r, err := e.body(rest, ret, indent)
		if err != nil {
			return "", err
		}
		return indent + "let v_" + id.Name + " := " + v.term + " in\n" + r, nil
	case *ast.IfStmt:
		if n.Init != nil || n.Else != nil || len(n.Body.List) != 1 {
			return "", e.errf(n, "if statement other than `if cond { return e }`")
		}
		rs, ok := n.Body.List[0].(*ast.ReturnStmt)
		if !ok || len(rs.Results) != 1 {
			return "", e.errf(n, "if statement other than `if cond { return e }`")
		}
		c, err := e.expr(n.Cond)
		e.note(n.Cond)
		if err != nil {
			return "", err
		}
		if c.typ != pfBool {
			return "", e.errf(n.Cond, "condition of type %s", c.typ)
		}
		v, err := e.expr(rs.Results[0])
		if err != nil {
			return "", err
		}
		v = pfCoerce(v, ret)
		if v.typ != ret {
			return "", e.errf(rs, "returns %s where %s is expected", v.typ, ret)
		}
		r, err := e.body(rest, ret, indent+"  ")
		if err != nil {
			return "", err
		}
		return indent + "if " + c.term + "\n" + indent + "then " + v.term + "\n" + indent + "else\n" + r, nil
	case *ast.ReturnStmt:
		if len(rest) != 0 || len(n.Results) != 1 {
			return "", e.errf(n, "return that is not the last statement or does not return one value")
		}
		v, err := e.expr(n.Results[0])
		e.note(n.Results[0])
		if err != nil {
			return "", err
		}
		v = pfCoerce(v, ret)
		if v.typ != ret {
			return "", e.errf(n, "returns %s where %s is expected", v.typ, ret)
		}
		return indent + v.term, nil
	}
	return "", e.errf(st, "statement form %T outside the translated subset", st)
}

// pfOnceDefined: the local variables of a function that are defined exactly
// once by `x := e` and not otherwise written (assignment, ++/--, var, range
// variable, address taken, captured by a function literal is not checked
// separately: a function literal in the function is an error).
func pfOnceDefined(e *pfEnv, fd *ast.FuncDecl) (map[string]ast.Expr, error) {
	writes := map[string]int{}
	defs := map[string]ast.Expr{}
	stmts := map[string]*ast.AssignStmt{}
	var err error
	ast.Inspect(fd.Body, func(n ast.Node) bool {
		switch x := n.(type) {
		case *ast.AssignStmt:
			for i, l := range x.Lhs {
				if id, ok := l.(*ast.Ident); ok {
					writes[id.Name]++
					if x.Tok == token.DEFINE && len(x.Lhs) == 1 && len(x.Rhs) == 1 && i == 0 {
						defs[id.Name] = x.Rhs[0]
						stmts[id.Name] = x
					}
				}
			}
		case *ast.IncDecStmt:
			if id, ok := x.X.(*ast.Ident); ok {
				writes[id.Name]++
			}
		case *ast.ValueSpec:
			for _, id := range x.Names {
				writes[id.Name] += 2
			}
		case *ast.RangeStmt:
			for _, kv := range []ast.Expr{x.Key, x.Value} {
				if id, ok := kv.(*ast.Ident); ok {
					writes[id.Name] += 2
				}
			}
		case *ast.UnaryExpr:
			if id, ok := x.X.(*ast.Ident); ok && x.Op == token.AND {
				writes[id.Name] += 2
			}
		case *ast.FuncLit:
			err = e.errf(x, "function literal in a function whose conditions are translated")
			return false
		}
		return true
	})
	if err != nil {
		return nil, err
	}
	res := map[string]ast.Expr{}
	e.defStmt = map[string]*ast.AssignStmt{}
	for name, d := range defs {
		if writes[name] == 1 {
			res[name] = d
			e.defStmt[name] = stmts[name]
		}
	}
	e.parents = pfParents(fd.Body)
	return res, nil
}

func pfMentions(n ast.Node, name string) bool {
	found := false
	ast.Inspect(n, func(x ast.Node) bool {
		if id, ok := x.(*ast.Ident); ok && id.Name == name {
			found = true
		}
		return !found
	})
	return found
}

// pfIfs: the if statements of a function satisfying pred, in source order.
func pfIfs(fd *ast.FuncDecl, pred func(*ast.IfStmt) bool) []*ast.IfStmt {
	var res []*ast.IfStmt
	ast.Inspect(fd.Body, func(n ast.Node) bool {
		if s, ok := n.(*ast.IfStmt); ok && pred(s) {
			res = append(res, s)
		}
		return true
	})
	return res
}

// pfCallsIn: does the statement contain a call of recv.name / name?
func pfCalls(n ast.Node, recv, name string) bool {
	found := false
	ast.Inspect(n, func(x ast.Node) bool {
		c, ok := x.(*ast.CallExpr)
		if !ok {
			return true
		}
		switch f := c.Fun.(type) {
		case *ast.SelectorExpr:
			if id, ok := f.X.(*ast.Ident); ok && f.Sel.Name == name && (recv == "" || id.Name == recv) {
				found = true
			}
		case *ast.Ident:
			if recv == "" && f.Name == name {
				found = true
			}
		}
		return !found
	})
	return found
}


// pfParents: child -> parent for every node below root.
func pfParents(root ast.Node) map[ast.Node]ast.Node {
	par := map[ast.Node]ast.Node{}
	var stack []ast.Node
	ast.Inspect(root, func(n ast.Node) bool {
		if n == nil {
			stack = stack[:len(stack)-1]
			return true
		}
		if len(stack) > 0 {
			par[n] = stack[len(stack)-1]
		}
		stack = append(stack, n)
		return true
	})
	return par
}

// pfRecWrites: every place below root where the record variable rec, or a
// field of it, is written syntactically: assignment, ++/--, address taken.
func pfRecWrites(root ast.Node, rec string) []ast.Node {
	isRec := func(x ast.Expr) bool {
		for {
			switch y := x.(type) {
			case *ast.ParenExpr:
				x = y.X
				continue
			case *ast.StarExpr:
				x = y.X
				continue
			case *ast.SelectorExpr:
				x = y.X
				continue
			case *ast.IndexExpr:
				x = y.X
				continue
			case *ast.Ident:
				return y.Name == rec
			}
			return false
		}
	}
	var res []ast.Node
	ast.Inspect(root, func(n ast.Node) bool {
		switch x := n.(type) {
		case *ast.AssignStmt:
			for _, l := range x.Lhs {
				if isRec(l) {
					res = append(res, x)
					break
				}
			}
		case *ast.IncDecStmt:
			if isRec(x.X) {
				res = append(res, x)
			}
		case *ast.UnaryExpr:
			if x.Op == token.AND && isRec(x.X) {
				res = append(res, x)
			}
		case *ast.RangeStmt:
			for _, kv := range []ast.Expr{x.Key, x.Value} {
				if kv != nil && isRec(kv) && n != root {
					res = append(res, x)
				}
			}
		}
		return true
	})
	return res
}

// pfLayout: where the translated fragments of Start stand. The translation
// of a condition says what the condition means; that it is evaluated at the
// point, and on the record, the model evaluates it is a matter of structure,
// checked here (anything else is a translator error):
//
//   func Start(...) {
//       ...
//       if <look-up guard> { sessionIDMutexes.Lock(id); ...; session, err = sessions.Get(id); ... }   (statement of the function body)
//       if session != nil {                                                                       (statement of the function body)
//           ... x := e (the once-defined locals) ...
//           if <stale> { valid = false }          \
//           if <ip guard> { ... }                  | consecutive statements of this block,
//           if <ua guard> { valid = e }            | in this order
//           if !valid { ... } else {              /
//               if <rotate> { ... } else if <backstop> { ... }      (first statement of the else block)
//               ...
//           }
//       }
//       ...
//   }
//
// and between the look-up `session, err = sessions.Get(id)` and the end of
// the backstop condition nothing assigns to `session` or to a field of it, or
// takes its address, except inside the then-branch of `if !valid` (which is
// not on the way to the rotation test).
type pfLayout struct {
	guard, sess, stale, ip, ua, valid, rotate, backstop *ast.IfStmt
	lookup                                              ast.Stmt
}

var pfLayoutMemo = map[*pkg]*pfLayout{}
var pfLayoutErr = map[*pkg]error{}

func pfStartLayout(p *pkg, start *ast.FuncDecl) (*pfLayout, error) {
	if l, ok := pfLayoutMemo[p]; ok {
		return l, pfLayoutErr[p]
	}
	l, err := pfStartLayout1(p, start)
	pfLayoutMemo[p], pfLayoutErr[p] = l, err
	return l, err
}

func pfStartLayout1(p *pkg, start *ast.FuncDecl) (*pfLayout, error) {
	par := pfParents(start.Body)
	line := func(n ast.Node) string {
		pos := p.fset.Position(n.Pos())
		return fmt.Sprintf("session.go:%d `%s`", pos.Line, oneLine(p.text(n)))
	}
	one := func(what string, pred func(*ast.IfStmt) bool) (*ast.IfStmt, error) {
		l := pfIfs(start, pred)
		if len(l) != 1 {
			return nil, fmt.Errorf("Start: %s: found %d times, expected exactly once", what, len(l))
		}
		return l[0], nil
	}
	var err error
	l := &pfLayout{}
	if l.stale, err = one("an if statement whose condition mentions SessionExpiry", func(s *ast.IfStmt) bool { return pfMentions(s.Cond, "SessionExpiry") }); err != nil {
		return nil, err
	}
	if l.ip, err = one("an if statement on AcceptRemoteIP whose body compiles the pattern", func(s *ast.IfStmt) bool {
		return pfMentions(s.Cond, "AcceptRemoteIP") && pfCalls(s.Body, "regexp", "MustCompile")
	}); err != nil {
		return nil, err
	}
	if l.ua, err = one("an if statement whose condition mentions AcceptChangingUserAgent", func(s *ast.IfStmt) bool { return pfMentions(s.Cond, "AcceptChangingUserAgent") }); err != nil {
		return nil, err
	}
	if l.rotate, err = one("an if statement whose body begins with a call of RegenerateID", func(s *ast.IfStmt) bool {
		return len(s.Body.List) > 0 && pfCalls(s.Body.List[0], "", "RegenerateID")
	}); err != nil {
		return nil, err
	}
	if l.guard, err = one("an if statement whose body begins with sessionIDMutexes.Lock", func(s *ast.IfStmt) bool {
		return len(s.Body.List) > 0 && pfCalls(s.Body.List[0], "sessionIDMutexes", "Lock")
	}); err != nil {
		return nil, err
	}
	var ok bool
	if l.backstop, ok = l.rotate.Else.(*ast.IfStmt); !ok {
		return nil, fmt.Errorf("Start: the rotation test %s is expected to be followed by `else if <backstop> {...}`", line(l.rotate.Cond))
	}
	// the block of `if session != nil`
	block, ok := par[l.stale].(*ast.BlockStmt)
	if !ok {
		return nil, fmt.Errorf("Start: the staleness test %s is not a statement of a block", line(l.stale.Cond))
	}
	l.sess, ok = par[block].(*ast.IfStmt)
	if !ok || l.sess.Body != block || l.sess.Init != nil || oneLine(p.text(l.sess.Cond)) != "session != nil" || par[l.sess] != ast.Node(start.Body) {
		return nil, fmt.Errorf("Start: the staleness test %s is expected to be a statement of the body of `if session != nil`, itself a statement of the function body", line(l.stale.Cond))
	}
	idx := -1
	for i, st := range block.List {
		if st == ast.Stmt(l.stale) {
			idx = i
		}
	}
	if idx < 0 || idx+3 >= len(block.List) || block.List[idx+1] != ast.Stmt(l.ip) || block.List[idx+2] != ast.Stmt(l.ua) {
		return nil, fmt.Errorf("Start: the staleness test, the remote-address block and the user-agent test are expected to be consecutive statements, in this order, of the body of `if session != nil` (found %s, %s, %s)", line(l.stale.Cond), line(l.ip.Cond), line(l.ua.Cond))
	}
	l.valid, ok = block.List[idx+3].(*ast.IfStmt)
	if !ok || l.valid.Init != nil || oneLine(p.text(l.valid.Cond)) != "!valid" {
		return nil, fmt.Errorf("Start: the user-agent test is expected to be followed by `if !valid {...} else {...}`")
	}
	eb, ok := l.valid.Else.(*ast.BlockStmt)
	if !ok || len(eb.List) == 0 || eb.List[0] != ast.Stmt(l.rotate) {
		return nil, fmt.Errorf("Start: the rotation test %s is expected to be the first statement of the else branch of `if !valid`", line(l.rotate.Cond))
	}
	// the look-up
	if par[l.guard] != ast.Node(start.Body) || l.guard.Pos() > l.sess.Pos() || l.guard.Init != nil || l.guard.Else != nil {
		return nil, fmt.Errorf("Start: the look-up guard %s is expected to be a statement of the function body before `if session != nil`, without init or else", line(l.guard.Cond))
	}
	for _, st := range l.guard.Body.List {
		as, ok := st.(*ast.AssignStmt)
		if !ok || len(as.Lhs) == 0 || len(as.Rhs) != 1 {
			continue
		}
		if id, ok := as.Lhs[0].(*ast.Ident); ok && id.Name == "session" && pfCalls(as.Rhs[0], "sessions", "Get") {
			if l.lookup != nil {
				return nil, fmt.Errorf("Start: two look-ups `session, ... = sessions.Get(...)` under the look-up guard")
			}
			l.lookup = st
		}
	}
	if l.lookup == nil {
		return nil, fmt.Errorf("Start: no look-up `session, ... = sessions.Get(...)` as a statement of the look-up guard's body")
	}
	// nothing writes the record between the look-up and the last fragment
	for _, w := range pfRecWrites(start.Body, "session") {
		if w.Pos() <= l.lookup.Pos() || w.Pos() >= l.backstop.Cond.End() {
			continue
		}
		if w.Pos() >= l.valid.Body.Pos() && w.End() <= l.valid.Body.End() {
			continue
		}
		return nil, fmt.Errorf("Start: `session` or one of its fields is written between the look-up and the translated conditions: %s", line(w))
	}
	return l, nil
}

// pfCompactLayout: the idle test is a statement of the body of `for id,
// session := range c.sessions`, itself a statement of compact's body, and
// nothing in that body writes `session` or a field of it before the test.
func pfCompactLayout(p *pkg, fd *ast.FuncDecl, idle *ast.IfStmt) error {
	par := pfParents(fd.Body)
	block, ok := par[idle].(*ast.BlockStmt)
	var rng *ast.RangeStmt
	if ok {
		rng, ok = par[block].(*ast.RangeStmt)
	}
	if !ok || rng.Body != block || par[rng] != ast.Node(fd.Body) || oneLine(p.text(rng.X)) != "c.sessions" {
		return fmt.Errorf("compact: the idle test is expected to be a statement of the body of `for ..., session := range c.sessions`, itself a statement of the function body")
	}
	if v, ok := rng.Value.(*ast.Ident); !ok || v.Name != "session" || rng.Tok != token.DEFINE {
		return fmt.Errorf("compact: the loop over c.sessions is expected to bind the session as `session`")
	}
	for _, w := range pfRecWrites(block, "session") {
		if w.Pos() < idle.Cond.End() {
			pos := p.fset.Position(w.Pos())
			return fmt.Errorf("compact: `session` or one of its fields is written before the idle test: cache.go:%d `%s`", pos.Line, oneLine(p.text(w)))
		}
	}
	return nil
}

func pfComment(s string) string {
	s = strings.ReplaceAll(s, "(*", "( *")
	s = strings.ReplaceAll(s, "*)", "* )")
	return strings.ReplaceAll(s, `"`, "'")
}

// pfMark: an AST node (by position) whose meaning is carried by a generated
// function. translator/shape.go and translator/addr_re.go print a placeholder
// for exactly these nodes instead of their source text.
type pfMark struct {
	pos  token.Pos
	name string
}

func (e *pfEnv) note(n ast.Node) {
	if e.mark != nil && e.fn != "" {
		e.mark(n, e.fn)
	}
}

var pfMarksMemo = map[*pkg]map[token.Pos]string{}

// pfTranslatedNodes: position -> "gen_x (Gen/File.v)" for every node that the
// generators PureFn and PureFnIP translated on this tree. A generator that
// fails contributes nothing (its Gen file does not compile, and the text pins
// keep guarding the source text).
func pfTranslatedNodes(p *pkg) map[token.Pos]string {
	if m, ok := pfMarksMemo[p]; ok {
		return m
	}
	m := map[token.Pos]string{}
	for _, g := range []struct {
		file string
		gen  func(*pkg, *[]pfMark) (string, error)
	}{{"Gen/PureFn.v", genPureFnM}, {"Gen/PureFnIP.v", genPureFnIPM}} {
		var marks []pfMark
		if _, err := g.gen(p, &marks); err != nil {
			continue
		}
		for _, k := range marks {
			m[k.pos] = k.name + " (" + g.file + ")"
		}
	}
	pfMarksMemo[p] = m
	return m
}

// pfPlaceholder: the text printed instead of a translated node.
func pfPlaceholder(p *pkg, n ast.Node) (string, bool) {
	if n == nil {
		return "", false
	}
	name, ok := pfTranslatedNodes(p)[n.Pos()]
	if !ok {
		return "", false
	}
	return "<translated: " + name + ">", true
}

func genPureFn(p *pkg) (string, error) {
	var marks []pfMark
	return genPureFnM(p, &marks)
}

func genPureFnM(p *pkg, marks *[]pfMark) (string, error) {
	mark := func(n ast.Node, name string) { *marks = append(*marks, pfMark{n.Pos(), name}) }
	var b strings.Builder
	b.WriteString("(* Generated from /repo/*.go by /verif/translator (purefn.go). Do not edit.\n")
	b.WriteString("   The pure decision code of the package translated from the Go AST (the subset\n")
	b.WriteString("   is listed at the head of translator/purefn.go). a + b on durations is\n")
	b.WriteString("   wrap64 (a + b); time.Since(t) is since t now; session fields are projections\n")
	b.WriteString("   of Sess.rec, configuration variables projections of Sess.cfg. *)\n")
	b.WriteString("From Sessions Require Import Model.Base Model.Sess.\nLocal Open Scope Z_scope.\n\n")

	newEnv := func(where string, recs ...string) *pfEnv {
		e := &pfEnv{p: p, where: where, recs: map[string]bool{}, bound: map[string]pfVal{}, inline: map[string]ast.Expr{}, busy: map[string]bool{}, mark: mark}
		for _, r := range recs {
			e.recs[r] = true
		}
		return e
	}
	notes := func(e *pfEnv) string {
		var s string
		if len(e.inlined) > 0 {
			s += "   inlined: " + pfComment(strings.Join(e.inlined, "; ")) + "\n"
		}
		if len(e.skipped) > 0 {
			s += "   skipped (locking): " + pfComment(strings.Join(e.skipped, "; ")) + "\n"
		}
		return s
	}
	durParam := func(e *pfEnv, f *ast.Field) bool {
		return p.text(f.Type) == "time.Duration" || p.text(f.Type) == "int64"
	}

	// ---- addDurations
	{
		fd := p.funcDecl("", "addDurations")
		if fd == nil || fd.Body == nil {
			return "", fmt.Errorf("func addDurations not found")
		}
		e := newEnv("addDurations")
		e.fn = "gen_addDurations"
		var params []string
		for _, f := range fd.Type.Params.List {
			if !durParam(e, f) {
				return "", e.errf(f, "parameter type outside the translated subset")
			}
			for _, n := range f.Names {
				e.bound[n.Name] = pfVal{"v_" + n.Name, pfDur}
				params = append(params, "v_"+n.Name)
			}
		}
		if len(params) != 2 || fd.Type.Results == nil || len(fd.Type.Results.List) != 1 || p.text(fd.Type.Results.List[0].Type) != "time.Duration" {
			return "", fmt.Errorf("addDurations: expected func(a, b time.Duration) time.Duration, found %s", oneLine(p.text(fd.Type)))
		}
		term, err := e.body(fd.Body.List, pfDur, "  ")
		if err != nil {
			return "", err
		}
		fmt.Fprintf(&b, "(* session.go: %s\n%s*)\n", pfComment(oneLine(p.text(fd.Type))), notes(e))
		fmt.Fprintf(&b, "Definition gen_addDurations (%s : Z) : Z :=\n%s.\n\n", strings.Join(params, " "), term)
	}

	// ---- (*Session).Expired
	{
		fd := p.funcDecl("Session", "Expired")
		if fd == nil || fd.Body == nil {
			return "", fmt.Errorf("method (*Session).Expired not found")
		}
		if fd.Recv == nil || len(fd.Recv.List) != 1 || len(fd.Recv.List[0].Names) != 1 {
			return "", fmt.Errorf("Expired: unnamed receiver")
		}
		if len(fd.Type.Params.List) != 0 || fd.Type.Results == nil || len(fd.Type.Results.List) != 1 || p.text(fd.Type.Results.List[0].Type) != "bool" {
			return "", fmt.Errorf("Expired: expected func() bool, found %s", oneLine(p.text(fd.Type)))
		}
		e := newEnv("Session.Expired", fd.Recv.List[0].Names[0].Name)
		e.fn = "gen_Expired"
		term, err := e.body(fd.Body.List, pfBool, "  ")
		if err != nil {
			return "", err
		}
		fmt.Fprintf(&b, "(* session.go: func (%s *Session) Expired() bool\n%s*)\n", fd.Recv.List[0].Names[0].Name, notes(e))
		fmt.Fprintf(&b, "Definition gen_Expired (c : cfg) (r : rec) (now : Z) : bool :=\n%s.\n\n", term)
	}

	// ---- the conditions of Start
	start := p.funcDecl("", "Start")
	if start == nil || start.Body == nil {
		return "", fmt.Errorf("func Start not found")
	}
	lay, err := pfStartLayout(p, start)
	if err != nil {
		return "", err
	}
	one := func(what string, l []*ast.IfStmt) (*ast.IfStmt, error) {
		if len(l) != 1 {
			return nil, fmt.Errorf("%s: found %d times, expected exactly once", what, len(l))
		}
		return l[0], nil
	}
	cond := func(e *pfEnv, x ast.Expr) (string, error) {
		v, err := e.expr(x)
		if err != nil {
			return "", err
		}
		if v.typ != pfBool {
			return "", e.errf(x, "condition of type %s", v.typ)
		}
		return v.term, nil
	}
	fragEnv := func(where string, fd *ast.FuncDecl) (*pfEnv, error) {
		e := newEnv(where, "session")
		in, err := pfOnceDefined(e, fd)
		if err != nil {
			return nil, err
		}
		e.inline = in
		return e, nil
	}
	// valid = <expr> as the only statement of the body
	validAssign := func(s *ast.IfStmt) ast.Expr {
		if s.Init != nil || s.Else != nil || len(s.Body.List) != 1 {
			return nil
		}
		as, ok := s.Body.List[0].(*ast.AssignStmt)
		if !ok || as.Tok != token.ASSIGN || len(as.Lhs) != 1 || len(as.Rhs) != 1 {
			return nil
		}
		if id, ok := as.Lhs[0].(*ast.Ident); !ok || id.Name != "valid" {
			return nil
		}
		return as.Rhs[0]
	}
	emitCond := func(name, src string, e *pfEnv, term string, extra string) {
		fmt.Fprintf(&b, "(* %s\n%s*)\n", pfComment(src), notes(e))
		fmt.Fprintf(&b, "Definition %s (c : cfg) (r : rec) (now : Z)%s : bool :=\n  %s.\n\n", name, extra, term)
	}

	// staleness
	{
		s := lay.stale
		e, err := fragEnv("Start, staleness test", start)
		if err != nil {
			return "", err
		}
		rhs := validAssign(s)
		if rhs == nil || p.text(rhs) != "false" {
			return "", e.errf(s, "the if statement on SessionExpiry is expected to have the body `valid = false` and no else")
		}
		term, err := cond(e, s.Cond)
		if err != nil {
			return "", err
		}
		mark(s.Cond, "gen_stale")
		emitCond("gen_stale", "session.go, Start: if "+oneLine(p.text(s.Cond))+" { valid = false }", e, term, "")
	}
	// rotation and backstop
	{
		s := lay.rotate
		e, err := fragEnv("Start, rotation test", start)
		if err != nil {
			return "", err
		}
		if s.Init != nil {
			return "", e.errf(s, "if statement with an init clause")
		}
		term, err := cond(e, s.Cond)
		if err != nil {
			return "", err
		}
		mark(s.Cond, "gen_rotate")
		emitCond("gen_rotate", "session.go, Start: if "+oneLine(p.text(s.Cond))+" { err = session.RegenerateID(response) ... }", e, term, "")

		el, ok := s.Else.(*ast.IfStmt)
		e2, err := fragEnv("Start, backstop test", start)
		if err != nil {
			return "", err
		}
		if !ok || el.Init != nil || el.Else != nil || !pfCalls(el.Body, "sessions", "Delete") {
			return "", e2.errf(s, "the rotation test is expected to be followed by `else if cond { ... sessions.Delete(id) ... return }` without a further else")
		}
		if _, isRet := el.Body.List[len(el.Body.List)-1].(*ast.ReturnStmt); !isRet {
			return "", e2.errf(el, "the body of the backstop test is expected to end in a return")
		}
		term2, err := cond(e2, el.Cond)
		if err != nil {
			return "", err
		}
		mark(el.Cond, "gen_backstop")
		emitCond("gen_backstop", "session.go, Start: else if "+oneLine(p.text(el.Cond))+" { sessions.Delete(id); return nil, errors.New(...) }", e2, term2, "")
	}
	// user agent
	{
		s := lay.ua
		e, err := fragEnv("Start, user-agent rule", start)
		if err != nil {
			return "", err
		}
		rhs := validAssign(s)
		if rhs == nil {
			return "", e.errf(s, "the if statement on AcceptChangingUserAgent is expected to have the body `valid = e` and no else")
		}
		e.bound["valid"] = pfVal{"v_valid", pfBool}
		e.bound["agentHash"] = pfVal{"v_agentHash", pfHash}
		delete(e.inline, "valid")
		delete(e.inline, "agentHash")
		c, err := cond(e, s.Cond)
		if err != nil {
			return "", err
		}
		v, err := cond(e, rhs)
		if err != nil {
			return "", err
		}
		mark(s.Cond, "gen_ua_ok")
		emitCond("gen_ua_ok", "session.go, Start: if "+oneLine(p.text(s.Cond))+" { valid = "+oneLine(p.text(rhs))+" } - the value of valid afterwards", e,
			"if "+c+"\n  then "+v+"\n  else v_valid", " (v_valid : bool) (v_agentHash : N)")
	}
	// idle test of compact
	{
		fd := p.funcDecl("cache", "compact")
		if fd == nil || fd.Body == nil {
			return "", fmt.Errorf("method (*cache).compact not found")
		}
		s, err := one("compact: an if statement whose condition mentions SessionCacheExpiry", pfIfs(fd, func(s *ast.IfStmt) bool { return pfMentions(s.Cond, "SessionCacheExpiry") }))
		if err != nil {
			return "", err
		}
		e, err := fragEnv("compact, idle test", fd)
		if err != nil {
			return "", err
		}
		if s.Init != nil || s.Else != nil || !pfCalls(s.Body, "Persistence", "SaveSession") || !pfCalls(s.Body, "", "delete") {
			return "", e.errf(s, "the if statement on SessionCacheExpiry is expected to save the session and delete it from the cache, without init or else")
		}
		// where the test stands, and that the record is not written before it;
		// the once-defined locals it uses must be defined before it in a block
		// enclosing it (checked where they are inlined)
		if err := pfCompactLayout(p, fd, s); err != nil {
			return "", err
		}
		term, err := cond(e, s.Cond)
		if err != nil {
			return "", err
		}
		mark(s.Cond, "gen_idle")
		emitCond("gen_idle", "cache.go, compact: if "+oneLine(p.text(s.Cond))+" { Persistence.SaveSession(id, session); delete(c.sessions, id) }", e, term, "")
	}
	return b.String(), nil
}

// ---------------------------------------------------------------------------
// Gen/PureFnIP.v (generator PureFnIP): the remaining decision code of Start.
//
// The remote-address block
//     if G1 {                                   // mentions AcceptRemoteIP, body holds regexp.MustCompile
//         re := regexp.MustCompile(<literal>)   // not translated: Gen/AddrRe.v, addr_pattern_pinned
//         x := re.FindStringSubmatch(ip)                  // not translated: AddrRe.submatch;
//         y := re.FindStringSubmatch(request.RemoteAddr)  //   x, y become parameters ([]string)
//         if G2 { for i := e0; C; i++ { if B { valid = E; break } } }
//     }
// -> gen_ip_loop (the loop, a nat-fuelled recursion over i) and
//    gen_ip_ok c valid prevCaps curCaps : option bool - the value of valid
//    afterwards; None: Go panics (index out of range) or the translation's loop
//    bound (pfLoopFuel iterations) is exceeded.
// Additional subset: AcceptRemoteIP -> c_acceptip c (int: 64-bit, arithmetic as
// for int64); len(x) of a []string / string -> Z.of_nat (length x); x[i] ->
// caps_idx x i (option: None when i is negative or >= len x); ==, != of two
// x[i] -> option bool; ! of that; `for i := e0; C; i++ { if B { valid = E;
// break } }` with B such a comparison or a boolean expression.
// Which capture list is the recorded address's is decided by the argument of
// FindStringSubmatch: `ip` with ip := session.lastIP (or session.lastIP
// itself) is the recorded one, request.RemoteAddr the request's.
//
// The look-up guard: the `if` of Start whose body begins with
// sessionIDMutexes.Lock(...) -> gen_lookup_guard id (id : bytes).

const pfLoopFuel = 6

func init() {
	generators["PureFnIP"] = genPureFnIP
}

func genPureFnIP(p *pkg) (string, error) {
	var marks []pfMark
	return genPureFnIPM(p, &marks)
}

func genPureFnIPM(p *pkg, marks *[]pfMark) (string, error) {
	mark := func(n ast.Node, name string) { *marks = append(*marks, pfMark{n.Pos(), name}) }
	var b strings.Builder
	b.WriteString("(* Generated from /repo/*.go by /verif/translator (purefn.go, generator PureFnIP).\n")
	b.WriteString("   Do not edit. The remote-address block and the look-up guard of Start translated\n")
	b.WriteString("   from the Go AST. A []string is a list of byte strings; x[i] is caps_idx x i\n")
	b.WriteString("   (None: index out of range - Go panics); a result None of gen_ip_ok / gen_ip_loop\n")
	b.WriteString("   means: Go panics, or more than the translation's bound of loop iterations. *)\n")
	b.WriteString("From Sessions Require Import Model.Base Model.Sess.\nLocal Open Scope Z_scope.\n\n")
	b.WriteString("Definition caps_idx (x : list bytes) (i : Z) : option bytes :=\n  if i <? 0 then None else nth_error x (Z.to_nat i).\n\n")
	b.WriteString("Definition ostr_eq (a b : option bytes) : option bool :=\n  match a, b with Some x, Some y => Some (bytes_eqb x y) | _, _ => None end.\n\n")

	start := p.funcDecl("", "Start")
	if start == nil || start.Body == nil {
		return "", fmt.Errorf("func Start not found")
	}
	lay, err := pfStartLayout(p, start)
	if err != nil {
		return "", err
	}
	newEnv := func(where string) (*pfEnv, error) {
		e := &pfEnv{p: p, where: where, recs: map[string]bool{"session": true}, bound: map[string]pfVal{}, inline: map[string]ast.Expr{}, busy: map[string]bool{}}
		in, err := pfOnceDefined(e, start)
		if err != nil {
			return nil, err
		}
		e.inline = in
		return e, nil
	}
	boolOf := func(e *pfEnv, x ast.Expr) (string, error) {
		v, err := e.expr(x)
		if err != nil {
			return "", err
		}
		if v.typ != pfBool {
			return "", e.errf(x, "condition of type %s", v.typ)
		}
		return v.term, nil
	}

	// ---- the remote-address block
	{
		e, err := newEnv("Start, remote-address block")
		if err != nil {
			return "", err
		}
		o := lay.ip
		if o.Init != nil || o.Else != nil {
			return "", e.errf(o, "the if statement around the address pattern has an init clause or an else")
		}
		var reName, prevName, curName string
		var inner *ast.IfStmt
		var notes []string
		for i, st := range o.Body.List {
			if s, ok := st.(*ast.IfStmt); ok && i == len(o.Body.List)-1 {
				inner = s
				continue
			}
			as, ok := st.(*ast.AssignStmt)
			if !ok || as.Tok != token.DEFINE || len(as.Lhs) != 1 || len(as.Rhs) != 1 {
				return "", e.errf(st, "statement in the remote-address block other than `x := ...` and a final if")
			}
			lhs, ok := as.Lhs[0].(*ast.Ident)
			call, ok2 := as.Rhs[0].(*ast.CallExpr)
			if !ok || !ok2 {
				return "", e.errf(st, "statement in the remote-address block other than `x := f(...)`")
			}
			sel, ok := call.Fun.(*ast.SelectorExpr)
			recv, ok2 := (ast.Expr)(nil), false
			if ok {
				recv = sel.X
				_, ok2 = recv.(*ast.Ident)
			}
			if !ok || !ok2 || len(call.Args) != 1 {
				return "", e.errf(st, "call in the remote-address block other than regexp.MustCompile(lit) / re.FindStringSubmatch(s)")
			}
			rid := recv.(*ast.Ident).Name
			switch {
			case rid == "regexp" && sel.Sel.Name == "MustCompile" && reName == "":
				if lit, ok := call.Args[0].(*ast.BasicLit); !ok || lit.Kind != token.STRING {
					return "", e.errf(st, "regexp.MustCompile of something that is not a string literal")
				}
				reName = lhs.Name
				notes = append(notes, "not translated (Gen/AddrRe.v, AddrRe.submatch): "+oneLine(p.text(st)))
			case reName != "" && rid == reName && sel.Sel.Name == "FindStringSubmatch":
				arg := call.Args[0]
				if id, ok := arg.(*ast.Ident); ok {
					if d, ok := e.inline[id.Name]; ok {
						arg = d
					}
				}
				switch oneLine(p.text(arg)) {
				case "session.lastIP":
					if prevName != "" {
						return "", e.errf(st, "the recorded address is matched twice")
					}
					prevName = lhs.Name
				case "request.RemoteAddr":
					if curName != "" {
						return "", e.errf(st, "the request's address is matched twice")
					}
					curName = lhs.Name
				default:
					return "", e.errf(st, "FindStringSubmatch of something that is neither session.lastIP (possibly through a once-defined local) nor request.RemoteAddr")
				}
				notes = append(notes, "parameter (AddrRe.submatch of the string): "+oneLine(p.text(st)))
			default:
				return "", e.errf(st, "call in the remote-address block other than regexp.MustCompile(lit) / re.FindStringSubmatch(s)")
			}
		}
		if inner == nil || prevName == "" || curName == "" {
			return "", e.errf(o, "the remote-address block is expected to match session.lastIP and request.RemoteAddr and to end in an if statement")
		}
		if inner.Init != nil || inner.Else != nil || len(inner.Body.List) != 1 {
			return "", e.errf(inner, "the inner if statement is expected to have no init, no else and a single for loop as its body")
		}
		loop, ok := inner.Body.List[0].(*ast.ForStmt)
		if !ok {
			return "", e.errf(inner, "the inner if statement is expected to have a single for loop as its body")
		}
		// the variables of the block are not once-defined locals to be inlined
		for _, n := range []string{"valid", prevName, curName, reName} {
			delete(e.inline, n)
		}
		e.bound["valid"] = pfVal{"v_valid", pfBool}
		e.bound[prevName] = pfVal{"v_" + prevName, pfCaps}
		e.bound[curName] = pfVal{"v_" + curName, pfCaps}
		mark(o.Cond, "gen_ip_ok")
		mark(inner.Cond, "gen_ip_ok")
		g1, err := boolOf(e, o.Cond)
		if err != nil {
			return "", err
		}
		g2, err := boolOf(e, inner.Cond)
		if err != nil {
			return "", err
		}
		// for i := e0; C; i++ { if B { valid = E; break } }
		init, ok := loop.Init.(*ast.AssignStmt)
		if !ok || init.Tok != token.DEFINE || len(init.Lhs) != 1 || len(init.Rhs) != 1 {
			return "", e.errf(loop, "for loop whose init is not `i := e`")
		}
		iv, ok := init.Lhs[0].(*ast.Ident)
		if !ok {
			return "", e.errf(loop, "for loop whose init is not `i := e`")
		}
		i0, err := e.expr(init.Rhs[0])
		if err != nil {
			return "", err
		}
		i0 = pfCoerce(i0, pfDur)
		if i0.typ != pfDur {
			return "", e.errf(init, "loop variable of type %s", i0.typ)
		}
		post, ok := loop.Post.(*ast.IncDecStmt)
		if !ok || post.Tok != token.INC || p.text(post.X) != iv.Name {
			return "", e.errf(loop, "for loop whose post statement is not `%s++`", iv.Name)
		}
		if loop.Cond == nil {
			return "", e.errf(loop, "for loop without a condition")
		}
		if _, dup := e.bound[iv.Name]; dup {
			return "", e.errf(loop, "loop variable %s shadows a variable of the block", iv.Name)
		}
		delete(e.inline, iv.Name)
		e.bound[iv.Name] = pfVal{"v_" + iv.Name, pfDur}
		mark(loop, "gen_ip_loop")
		mark(loop.Cond, "gen_ip_loop")
		lc, err := boolOf(e, loop.Cond)
		if err != nil {
			return "", err
		}
		if len(loop.Body.List) != 1 {
			return "", e.errf(loop, "loop body other than a single if statement")
		}
		bi, ok := loop.Body.List[0].(*ast.IfStmt)
		if !ok || bi.Init != nil || bi.Else != nil || len(bi.Body.List) != 2 {
			return "", e.errf(loop, "loop body other than `if B { valid = E; break }`")
		}
		as, ok := bi.Body.List[0].(*ast.AssignStmt)
		br, ok2 := bi.Body.List[1].(*ast.BranchStmt)
		if !ok || !ok2 || as.Tok != token.ASSIGN || len(as.Lhs) != 1 || len(as.Rhs) != 1 || p.text(as.Lhs[0]) != "valid" || br.Tok != token.BREAK || br.Label != nil {
			return "", e.errf(bi, "loop body other than `if B { valid = E; break }`")
		}
		mark(bi.Cond, "gen_ip_loop")
		bv, err := e.expr(bi.Cond)
		if err != nil {
			return "", err
		}
		switch bv.typ {
		case pfPBool:
		case pfBool:
			bv = pfVal{"(Some " + bv.term + ")", pfPBool}
		default:
			return "", e.errf(bi.Cond, "condition of type %s", bv.typ)
		}
		ev, err := boolOf(e, as.Rhs[0])
		if err != nil {
			return "", err
		}
		params := fmt.Sprintf("(c : cfg) (v_valid : bool) (v_%s v_%s : list bytes)", prevName, curName)
		args := fmt.Sprintf("c v_valid v_%s v_%s", prevName, curName)
		fmt.Fprintf(&b, "(* session.go, Start: %s\n   the value of valid when the loop is left, from %s on *)\n", pfComment(stmtLine(p.fset, loop)), iv.Name)
		fmt.Fprintf(&b, "Fixpoint gen_ip_loop %s (fuel : nat) (v_%s : Z) : option bool :=\n", params, iv.Name)
		fmt.Fprintf(&b, "  match fuel with\n  | O => None\n  | S fuel' =>\n    if %s then\n      match %s with\n      | None => None\n      | Some true => Some %s\n", lc, bv.term, ev)
		fmt.Fprintf(&b, "      | Some false => gen_ip_loop %s fuel' (wrap64 (v_%s + 1))\n      end\n    else Some v_valid\n  end.\n\n", args, iv.Name)
		fmt.Fprintf(&b, "(* session.go, Start: if %s { ...; if %s { for ... } } - the value of valid afterwards;\n", pfComment(oneLine(p.text(o.Cond))), pfComment(oneLine(p.text(inner.Cond))))
		fmt.Fprintf(&b, "   v_%s: the captures of the recorded address (session.lastIP), v_%s: of request.RemoteAddr\n", prevName, curName)
		for _, n := range notes {
			fmt.Fprintf(&b, "   %s\n", pfComment(n))
		}
		if len(e.inlined) > 0 {
			fmt.Fprintf(&b, "   inlined: %s\n", pfComment(strings.Join(e.inlined, "; ")))
		}
		fmt.Fprintf(&b, "*)\nDefinition gen_ip_ok %s : option bool :=\n", params)
		fmt.Fprintf(&b, "  if %s\n  then (if %s\n        then gen_ip_loop %s %d%%nat %s\n        else Some v_valid)\n  else Some v_valid.\n\n", g1, g2, args, pfLoopFuel, i0.term)
	}

	// ---- the look-up guard
	{
		e, err := newEnv("Start, look-up guard")
		if err != nil {
			return "", err
		}
		s := lay.guard
		if s.Init != nil || s.Else != nil {
			return "", e.errf(s, "the look-up guard has an init clause or an else")
		}
		c, ok := s.Body.List[0].(*ast.ExprStmt)
		var arg string
		if ok {
			if call, ok := c.X.(*ast.CallExpr); ok && len(call.Args) == 1 {
				if id, ok := call.Args[0].(*ast.Ident); ok {
					arg = id.Name
				}
			}
		}
		if arg == "" {
			return "", e.errf(s, "the look-up guard's body is expected to begin with sessionIDMutexes.Lock(<variable>)")
		}
		delete(e.inline, arg)
		e.bound[arg] = pfVal{"v_" + arg, pfStr}
		mark(s.Cond, "gen_lookup_guard")
		g, err := boolOf(e, s.Cond)
		if err != nil {
			return "", err
		}
		fmt.Fprintf(&b, "(* session.go, Start: if %s { sessionIDMutexes.Lock(%s); ...; sessions.Get(%s) } - is the cookie value looked up at all *)\n", pfComment(oneLine(p.text(s.Cond))), arg, arg)
		fmt.Fprintf(&b, "Definition gen_lookup_guard (v_%s : bytes) : bool :=\n  %s.\n", arg, g)
	}
	return b.String(), nil
}
