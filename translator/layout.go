package main

// Gen/Layout.v: what the two codecs of session.go say, as tables for
// Model/Codec.v (DESIGN.md §2.6, §5 C16/C17).
//
//   gob_version, gob_enc, gob_dec : the ordered Encode/Decode calls of
//       GobEncode/GobDecode with the conditional around the user ID;
//   json_enc : the entries of the map MarshalJSON builds (key, condition,
//       value expression, radix and time layout);
//   json_dec : the validation cascade of UnmarshalJSON, one block per key
//       (mandatory or optional, the guarding type assertion and whether it is
//       in comma-ok form, what the value is used for).
//
// The generator recognises the statement shapes these four functions are
// written in and nothing else; any other statement is a hard error.

import (
	"fmt"
	"go/ast"
	"go/token"
	"strconv"
	"strings"
)

func init() {
	generators["Layout"] = genLayout
}

func laySqueeze(s string) string {
	return strings.Join(strings.Fields(s), "")
}

func (p *pkg) laySq(n ast.Node) string { return laySqueeze(p.text(n)) }

func layRecvVar(fd *ast.FuncDecl) (string, error) {
	if fd.Recv == nil || len(fd.Recv.List) != 1 || len(fd.Recv.List[0].Names) != 1 {
		return "", fmt.Errorf("%s: no named receiver", fd.Name.Name)
	}
	return fd.Recv.List[0].Names[0].Name, nil
}

// layErrReturn: a block consisting of one return statement whose last result
// is not the literal nil (i.e. an error is returned).
func (p *pkg) layErrReturn(b *ast.BlockStmt, results int) bool {
	if b == nil || len(b.List) != 1 {
		return false
	}
	r, ok := b.List[0].(*ast.ReturnStmt)
	if !ok || len(r.Results) != results {
		return false
	}
	last := p.laySq(r.Results[results-1])
	if last == "nil" {
		return false
	}
	for _, e := range r.Results[:results-1] {
		if p.laySq(e) != "nil" {
			return false
		}
	}
	return true
}

func genLayout(p *pkg) (string, error) {
	var b strings.Builder
	b.WriteString("(* Generated from /repo/session.go by /verif/translator. Do not edit. *)\n")
	b.WriteString("From Sessions Require Import Model.Base Model.Codec.\nLocal Open Scope N_scope.\n\n")
	if err := gobEncodeLayout(p, &b); err != nil {
		return "", err
	}
	if err := gobDecodeLayout(p, &b); err != nil {
		return "", err
	}
	if err := jsonMarshalTable(p, &b); err != nil {
		return "", err
	}
	if err := jsonUnmarshalTable(p, &b); err != nil {
		return "", err
	}
	return b.String(), nil
}

// ---------------------------------------------------------------- gob

type layGobEntry struct {
	field string   // GF field
	body  []string // GIf body (when field == "")
	src   string
}

func layGobEntries(es []layGobEntry) string {
	var items []string
	for _, e := range es {
		if e.field != "" {
			items = append(items, "GF "+e.field)
		} else {
			items = append(items, "GIf ["+strings.Join(e.body, "; ")+"]")
		}
	}
	return "[" + strings.Join(items, "; ") + "]"
}

// layCodecCall matches `if err := <obj>.<method>(<arg>); err != nil { return …error… }`
// and returns the argument.
func (p *pkg) layCodecCall(st ast.Stmt, obj, method string, results int) (ast.Expr, bool) {
	is, ok := st.(*ast.IfStmt)
	if !ok || is.Init == nil || is.Else != nil {
		return nil, false
	}
	as, ok := is.Init.(*ast.AssignStmt)
	if !ok || as.Tok != token.DEFINE || len(as.Lhs) != 1 || len(as.Rhs) != 1 {
		return nil, false
	}
	errName := p.laySq(as.Lhs[0])
	call, ok := as.Rhs[0].(*ast.CallExpr)
	if !ok || len(call.Args) != 1 || p.laySq(call.Fun) != obj+"."+method {
		return nil, false
	}
	if p.laySq(is.Cond) != errName+"!=nil" || !p.layErrReturn(is.Body, results) {
		return nil, false
	}
	return call.Args[0], true
}

func gobEncodeLayout(p *pkg, b *strings.Builder) error {
	fd := p.funcDecl("Session", "GobEncode")
	if fd == nil {
		return fmt.Errorf("GobEncode not found")
	}
	s, err := layRecvVar(fd)
	if err != nil {
		return err
	}
	fields := map[string]string{
		s + ".created": "GCreated", s + ".lastAccess": "GAccess", s + ".lastIP": "GIP",
		s + ".lastUserAgentHash": "GUA", s + ".referenceID": "GRef", s + ".user!=nil": "GLogin",
		"struct{Vinterface{}}{V:" + s + ".user.GetID()}": "GUserID", s + ".data": "GData",
	}
	neutral := map[string]bool{
		s + ".RLock()": true, "defer" + s + ".RUnlock()": true, s + ".Lock()": true, "defer" + s + ".Unlock()": true,
		"varbufferbytes.Buffer": true, "encoder:=gob.NewEncoder(&buffer)": true,
	}
	version := ""
	classify := func(e ast.Expr) (string, error) {
		t := p.laySq(e)
		if f, ok := fields[t]; ok {
			return f, nil
		}
		if call, ok := e.(*ast.CallExpr); ok && p.laySq(call.Fun) == "uint8" && len(call.Args) == 1 {
			if lit, ok := call.Args[0].(*ast.BasicLit); ok && lit.Kind == token.INT {
				if version != "" {
					return "", fmt.Errorf("GobEncode: two version values")
				}
				v, err := strconv.ParseUint(lit.Value, 0, 8)
				if err != nil {
					return "", fmt.Errorf("GobEncode: version literal %s", lit.Value)
				}
				version = strconv.FormatUint(v, 10)
				return "GVersion", nil
			}
		}
		return "", fmt.Errorf("GobEncode: encoded expression not understood: %s", p.text(e))
	}
	var entries []layGobEntry
	n := len(fd.Body.List)
	for i, st := range fd.Body.List {
		t := p.laySq(st)
		if neutral[t] {
			continue
		}
		if i == n-1 && t == "returnbuffer.Bytes(),nil" {
			continue
		}
		if arg, ok := p.layCodecCall(st, "encoder", "Encode", 2); ok {
			f, err := classify(arg)
			if err != nil {
				return err
			}
			entries = append(entries, layGobEntry{field: f, src: p.text(arg)})
			continue
		}
		if is, ok := st.(*ast.IfStmt); ok && is.Init == nil && is.Else == nil && p.laySq(is.Cond) == s+".user!=nil" {
			var body []string
			for _, in := range is.Body.List {
				arg, ok := p.layCodecCall(in, "encoder", "Encode", 2)
				if !ok {
					return fmt.Errorf("GobEncode: statement not understood inside `if %s`: %s", p.text(is.Cond), p.text(in))
				}
				f, err := classify(arg)
				if err != nil {
					return err
				}
				body = append(body, f)
			}
			entries = append(entries, layGobEntry{body: body, src: "if " + p.text(is.Cond)})
			continue
		}
		return fmt.Errorf("GobEncode: statement not understood: %s", p.text(st))
	}
	if version == "" {
		version = "0"
		for _, e := range entries {
			if e.field == "GVersion" {
				return fmt.Errorf("GobEncode: version without value")
			}
		}
	}
	fmt.Fprintf(b, "(* session.go: GobEncode *)\nDefinition gob_version : N := %s.\n", version)
	fmt.Fprintf(b, "Definition gob_enc : list gentry := %s.\n\n", layGobEntries(entries))
	return nil
}

func gobDecodeLayout(p *pkg, b *strings.Builder) error {
	fd := p.funcDecl("Session", "GobDecode")
	if fd == nil {
		return fmt.Errorf("GobDecode not found")
	}
	s, err := layRecvVar(fd)
	if err != nil {
		return err
	}
	if len(fd.Type.Params.List) != 1 || len(fd.Type.Params.List[0].Names) != 1 {
		return fmt.Errorf("GobDecode: unexpected parameters")
	}
	from := fd.Type.Params.List[0].Names[0].Name
	fields := map[string]string{
		"&" + s + ".created": "GCreated", "&" + s + ".lastAccess": "GAccess", "&" + s + ".lastIP": "GIP",
		"&" + s + ".lastUserAgentHash": "GUA", "&" + s + ".referenceID": "GRef", "&" + s + ".data": "GData",
	}
	neutral := map[string]bool{
		s + ".Lock()": true, "defer" + s + ".Unlock()": true,
		"buffer:=bytes.NewReader(" + from + ")": true, "decoder:=gob.NewDecoder(buffer)": true,
	}
	// local variables the decoder fills: name -> (type text, field)
	wantType := map[string]string{"GVersion": "uint8", "GLogin": "bool", "GUserID": "struct{Vinterface{}}"}
	locals := map[string]string{} // &name -> declared type
	errVar := ""
	declare := func(gd *ast.GenDecl) error {
		if gd.Tok != token.VAR {
			return fmt.Errorf("GobDecode: declaration not understood: %s", p.text(gd))
		}
		for _, sp := range gd.Specs {
			vs := sp.(*ast.ValueSpec)
			if vs.Type == nil || len(vs.Values) != 0 {
				return fmt.Errorf("GobDecode: declaration not understood: %s", p.text(vs))
			}
			for _, n := range vs.Names {
				locals["&"+n.Name] = p.laySq(vs.Type)
				if p.laySq(vs.Type) == "error" {
					errVar = n.Name
				}
			}
		}
		return nil
	}
	flagVar, idVar := "", ""
	classify := func(e ast.Expr) (string, error) {
		t := p.laySq(e)
		if f, ok := fields[t]; ok {
			return f, nil
		}
		if ty, ok := locals[t]; ok {
			for f, want := range wantType {
				if ty == want {
					switch f {
					case "GLogin":
						flagVar = t[1:]
					case "GUserID":
						idVar = t[1:]
					}
					return f, nil
				}
			}
			return "", fmt.Errorf("GobDecode: decoding into local %s of type %s not understood", t[1:], ty)
		}
		return "", fmt.Errorf("GobDecode: decode destination not understood: %s", p.text(e))
	}
	// after Decode(&userID): s.user, e = Persistence.LoadUser(userID.V); if e != nil { return … }
	loadUser := func(list []ast.Stmt, i int) error {
		if i+2 > len(list)-1 {
			return fmt.Errorf("GobDecode: user ID decoded but not loaded")
		}
		want := s + ".user," + errVar + "=Persistence.LoadUser(" + idVar + ".V)"
		if p.laySq(list[i+1]) != want {
			return fmt.Errorf("GobDecode: expected `%s` after decoding the user ID, found: %s", want, p.text(list[i+1]))
		}
		is, ok := list[i+2].(*ast.IfStmt)
		if !ok || is.Init != nil || is.Else != nil || p.laySq(is.Cond) != errVar+"!=nil" || !p.layErrReturn(is.Body, 1) {
			return fmt.Errorf("GobDecode: the error of LoadUser is not returned: %s", p.text(list[i+2]))
		}
		return nil
	}
	var walk func(list []ast.Stmt, top bool) ([]layGobEntry, error)
	walk = func(list []ast.Stmt, top bool) ([]layGobEntry, error) {
		var entries []layGobEntry
		for i := 0; i < len(list); i++ {
			st := list[i]
			t := p.laySq(st)
			if top && neutral[t] {
				continue
			}
			if top && i == len(list)-1 && t == "returnnil" {
				continue
			}
			if ds, ok := st.(*ast.DeclStmt); ok && top {
				if err := declare(ds.Decl.(*ast.GenDecl)); err != nil {
					return nil, err
				}
				continue
			}
			if arg, ok := p.layCodecCall(st, "decoder", "Decode", 1); ok {
				f, err := classify(arg)
				if err != nil {
					return nil, err
				}
				entries = append(entries, layGobEntry{field: f})
				if f == "GUserID" {
					if err := loadUser(list, i); err != nil {
						return nil, err
					}
					i += 2
				}
				continue
			}
			if is, ok := st.(*ast.IfStmt); ok && top && is.Init == nil && is.Else == nil && flagVar != "" && p.laySq(is.Cond) == flagVar {
				inner, err := walk(is.Body.List, false)
				if err != nil {
					return nil, err
				}
				var body []string
				for _, e := range inner {
					body = append(body, e.field)
				}
				entries = append(entries, layGobEntry{body: body})
				continue
			}
			return nil, fmt.Errorf("GobDecode: statement not understood: %s", p.text(st))
		}
		return entries, nil
	}
	entries, err := walk(fd.Body.List, true)
	if err != nil {
		return err
	}
	fmt.Fprintf(b, "(* session.go: GobDecode *)\nDefinition gob_dec : list gentry := %s.\n\n", layGobEntries(entries))
	return nil
}

// --------------------------------------------------------------- JSON

func layKey(e ast.Expr) (string, bool) {
	lit, ok := e.(*ast.BasicLit)
	if !ok || lit.Kind != token.STRING {
		return "", false
	}
	s, err := strconv.Unquote(lit.Value)
	return s, err == nil
}

func jsonMarshalTable(p *pkg, b *strings.Builder) error {
	fd := p.funcDecl("Session", "MarshalJSON")
	if fd == nil {
		return fmt.Errorf("MarshalJSON not found")
	}
	s, err := layRecvVar(fd)
	if err != nil {
		return err
	}
	neutral := map[string]bool{s + ".RLock()": true, "defer" + s + ".RUnlock()": true, s + ".Lock()": true, "defer" + s + ".Unlock()": true}
	tfields := map[string]string{s + ".created": "FCreated", s + ".lastAccess": "FAccess"}
	sfields := map[string]string{s + ".lastIP": "FIP", s + ".referenceID": "FRef"}
	value := func(e ast.Expr) (string, error) {
		t := p.laySq(e)
		if lit, ok := e.(*ast.BasicLit); ok && lit.Kind == token.INT {
			v, err := strconv.ParseInt(lit.Value, 0, 64)
			if err != nil {
				return "", err
			}
			return fmt.Sprintf("MLit %d", v), nil
		}
		if f, ok := sfields[t]; ok {
			return "MStrF " + f, nil
		}
		if t == s+".data" {
			return "MDataMap", nil
		}
		if t == s+".user.GetID()" {
			return "MUserID", nil
		}
		if call, ok := e.(*ast.CallExpr); ok {
			fun := p.laySq(call.Fun)
			if strings.HasSuffix(fun, ".Format") && len(call.Args) == 1 {
				if f, ok := tfields[strings.TrimSuffix(fun, ".Format")]; ok {
					return fmt.Sprintf("MTime %s %s", coqBytes(p.laySq(call.Args[0])), f), nil
				}
			}
			if fun == "strconv.FormatUint" && len(call.Args) == 2 && p.laySq(call.Args[0]) == s+".lastUserAgentHash" {
				if lit, ok := call.Args[1].(*ast.BasicLit); ok && lit.Kind == token.INT {
					r, err := strconv.ParseUint(lit.Value, 0, 32)
					if err != nil {
						return "", err
					}
					return fmt.Sprintf("MUA %d", r), nil
				}
			}
		}
		return "", fmt.Errorf("MarshalJSON: value expression not understood: %s", p.text(e))
	}
	conds := map[string]string{s + `.referenceID!=""`: "MRefSet", s + ".user!=nil": "MUserSet"}
	var rows []string
	mapVar := ""
	n := len(fd.Body.List)
	for i, st := range fd.Body.List {
		t := p.laySq(st)
		if neutral[t] {
			continue
		}
		if as, ok := st.(*ast.AssignStmt); ok && as.Tok == token.DEFINE && len(as.Lhs) == 1 && len(as.Rhs) == 1 && mapVar == "" {
			cl, ok := as.Rhs[0].(*ast.CompositeLit)
			if ok && p.laySq(cl.Type) == "map[string]interface{}" {
				mapVar = p.laySq(as.Lhs[0])
				for _, el := range cl.Elts {
					kv, ok := el.(*ast.KeyValueExpr)
					if !ok {
						return fmt.Errorf("MarshalJSON: map element not understood: %s", p.text(el))
					}
					k, ok := layKey(kv.Key)
					if !ok {
						return fmt.Errorf("MarshalJSON: map key not understood: %s", p.text(kv.Key))
					}
					v, err := value(kv.Value)
					if err != nil {
						return err
					}
					rows = append(rows, fmt.Sprintf("mkM %s MAlways (%s)", coqBytes(k), v))
				}
				continue
			}
		}
		if is, ok := st.(*ast.IfStmt); ok && is.Init == nil && is.Else == nil && mapVar != "" {
			c, ok := conds[p.laySq(is.Cond)]
			if !ok {
				return fmt.Errorf("MarshalJSON: condition not understood: %s", p.text(is.Cond))
			}
			for _, in := range is.Body.List {
				as, ok := in.(*ast.AssignStmt)
				if !ok || as.Tok != token.ASSIGN || len(as.Lhs) != 1 || len(as.Rhs) != 1 {
					return fmt.Errorf("MarshalJSON: statement not understood: %s", p.text(in))
				}
				ix, ok := as.Lhs[0].(*ast.IndexExpr)
				if !ok || p.laySq(ix.X) != mapVar {
					return fmt.Errorf("MarshalJSON: statement not understood: %s", p.text(in))
				}
				k, ok := layKey(ix.Index)
				if !ok {
					return fmt.Errorf("MarshalJSON: map key not understood: %s", p.text(ix.Index))
				}
				v, err := value(as.Rhs[0])
				if err != nil {
					return err
				}
				rows = append(rows, fmt.Sprintf("mkM %s %s (%s)", coqBytes(k), c, v))
			}
			continue
		}
		if i == n-1 && mapVar != "" && t == "returnjson.Marshal("+mapVar+")" {
			continue
		}
		return fmt.Errorf("MarshalJSON: statement not understood: %s", p.text(st))
	}
	if mapVar == "" {
		return fmt.Errorf("MarshalJSON: no map literal found")
	}
	fmt.Fprintf(b, "(* session.go: MarshalJSON *)\nDefinition json_enc : list mblock := [\n  %s].\n\n", strings.Join(rows, ";\n  "))
	return nil
}

type layUBlock struct {
	key       string
	mandatory bool
	guard     string // Coq term, "" = none yet
	use       string // Coq term, "" = none yet
}

func jsonUnmarshalTable(p *pkg, b *strings.Builder) error {
	fd := p.funcDecl("Session", "UnmarshalJSON")
	if fd == nil {
		return fmt.Errorf("UnmarshalJSON not found")
	}
	s, err := layRecvVar(fd)
	if err != nil {
		return err
	}
	if len(fd.Type.Params.List) != 1 || len(fd.Type.Params.List[0].Names) != 1 {
		return fmt.Errorf("UnmarshalJSON: unexpected parameters")
	}
	data := fd.Type.Params.List[0].Names[0].Name
	neutral := map[string]bool{
		s + ".Lock()": true, "defer" + s + ".Unlock()": true, "varobjmap[string]interface{}": true,
		"iferr:=json.Unmarshal(" + data + ",&obj);err!=nil{returnerr}": true,
	}
	types := map[string]string{"float64": "TFloat", "string": "TStr", "map[string]interface{}": "TMap"}
	tfields := map[string]string{s + ".created": "FCreated", s + ".lastAccess": "FAccess"}
	sfields := map[string]string{s + ".lastIP": "FIP", s + ".referenceID": "FRef"}

	var blocks []*layUBlock
	var cur *layUBlock
	alias := map[string]*layUBlock{} // variable -> the key block whose value it holds
	bad := func(st ast.Node) error {
		return fmt.Errorf("UnmarshalJSON: statement not understood: %s", p.text(st))
	}
	owner := func(v string, at ast.Node) (*layUBlock, error) {
		bl, ok := alias[v]
		if !ok || bl != cur {
			return nil, fmt.Errorf("UnmarshalJSON: %s does not hold the value of the key being validated: %s", v, p.text(at))
		}
		return bl, nil
	}
	setGuard := func(bl *layUBlock, g string, at ast.Node) error {
		if bl.guard != "" || bl.use != "" {
			return fmt.Errorf("UnmarshalJSON: second guard or guard after use for key %q: %s", bl.key, p.text(at))
		}
		bl.guard = g
		return nil
	}
	setUse := func(bl *layUBlock, u string, at ast.Node) error {
		if bl.use != "" {
			return fmt.Errorf("UnmarshalJSON: key %q used twice: %s", bl.key, p.text(at))
		}
		bl.use = u
		return nil
	}
	// target of an assertion: a field (then it is also the use) or a local
	assertTarget := func(bl *layUBlock, lhs ast.Expr, ty string, at ast.Node) error {
		t := p.laySq(lhs)
		if f, ok := sfields[t]; ok {
			if ty != "TStr" {
				return bad(at)
			}
			return setUse(bl, "UStrF "+f, at)
		}
		if t == s+".data" {
			if ty != "TMap" {
				return bad(at)
			}
			return setUse(bl, "UData", at)
		}
		if _, ok := lhs.(*ast.Ident); ok {
			alias[t] = bl
			return nil
		}
		return bad(at)
	}
	// x.(T)
	assertion := func(e ast.Expr, at ast.Node) (*layUBlock, string, error) {
		ta, ok := e.(*ast.TypeAssertExpr)
		if !ok || ta.Type == nil {
			return nil, "", bad(at)
		}
		ty, ok := types[p.laySq(ta.Type)]
		if !ok {
			return nil, "", fmt.Errorf("UnmarshalJSON: asserted type not understood: %s", p.text(ta.Type))
		}
		bl, err := owner(p.laySq(ta.X), at)
		return bl, ty, err
	}

	var walk func(list []ast.Stmt, top bool) error
	// checked assertion `if V, ok = X.(T); !ok { return … }`; returns (matched, error)
	checkedAssert := func(is *ast.IfStmt, nullOr bool) (bool, error) {
		as, ok := is.Init.(*ast.AssignStmt)
		if !ok || len(as.Lhs) != 2 || len(as.Rhs) != 1 {
			return false, nil
		}
		if _, ok := as.Rhs[0].(*ast.TypeAssertExpr); !ok {
			return false, nil
		}
		okVar := p.laySq(as.Lhs[1])
		if p.laySq(is.Cond) != "!"+okVar || !p.layErrReturn(is.Body, 1) || is.Else != nil {
			return true, bad(is)
		}
		bl, ty, err := assertion(as.Rhs[0], is)
		if err != nil {
			return true, err
		}
		g := "GAssert " + ty + " true"
		if nullOr {
			g = "GNullOr " + ty + " true"
		}
		if err := setGuard(bl, g, is); err != nil {
			return true, err
		}
		return true, assertTarget(bl, as.Lhs[0], ty, is)
	}
	walk = func(list []ast.Stmt, top bool) error {
		for i := 0; i < len(list); i++ {
			st := list[i]
			t := p.laySq(st)
			if top && neutral[t] {
				continue
			}
			if top && i == len(list)-1 && t == "returnnil" {
				continue
			}
			if ds, ok := st.(*ast.DeclStmt); ok && top {
				gd := ds.Decl.(*ast.GenDecl)
				if gd.Tok != token.VAR {
					return bad(st)
				}
				for _, sp := range gd.Specs {
					if len(sp.(*ast.ValueSpec).Values) != 0 {
						return bad(st)
					}
				}
				continue
			}
			switch x := st.(type) {
			case *ast.IfStmt:
				if x.Init != nil {
					as, ok := x.Init.(*ast.AssignStmt)
					if !ok || len(as.Rhs) != 1 {
						return bad(st)
					}
					// lookup: X, ok = obj["k"]
					if ix, isIx := as.Rhs[0].(*ast.IndexExpr); isIx && len(as.Lhs) == 2 && p.laySq(ix.X) == "obj" {
						k, ok := layKey(ix.Index)
						if !ok || !top {
							return bad(st)
						}
						okVar := p.laySq(as.Lhs[1])
						bl := &layUBlock{key: k}
						blocks = append(blocks, bl)
						cur = bl
						alias[p.laySq(as.Lhs[0])] = bl
						switch {
						case p.laySq(x.Cond) == "!"+okVar && x.Else == nil && p.layErrReturn(x.Body, 1):
							bl.mandatory = true
						case p.laySq(x.Cond) == okVar && x.Else == nil:
							if err := walk(x.Body.List, false); err != nil {
								return err
							}
						default:
							return bad(st)
						}
						continue
					}
					if m, err := checkedAssert(x, false); m {
						if err != nil {
							return err
						}
						continue
					}
					// s.F, err = time.Parse(L, V)  /  s.lastUserAgentHash, err = strconv.ParseUint(V, R, B)
					if call, isCall := as.Rhs[0].(*ast.CallExpr); isCall && len(as.Lhs) == 2 && x.Else == nil &&
						p.laySq(x.Cond) == p.laySq(as.Lhs[1])+"!=nil" && p.layErrReturn(x.Body, 1) {
						fun := p.laySq(call.Fun)
						dst := p.laySq(as.Lhs[0])
						if fun == "time.Parse" && len(call.Args) == 2 {
							f, ok := tfields[dst]
							if !ok {
								return bad(st)
							}
							bl, err := owner(p.laySq(call.Args[1]), st)
							if err != nil {
								return err
							}
							if err := setUse(bl, fmt.Sprintf("UTime %s %s", coqBytes(p.laySq(call.Args[0])), f), st); err != nil {
								return err
							}
							continue
						}
						if fun == "strconv.ParseUint" && len(call.Args) == 3 && dst == s+".lastUserAgentHash" {
							bl, err := owner(p.laySq(call.Args[0]), st)
							if err != nil {
								return err
							}
							r, ok1 := call.Args[1].(*ast.BasicLit)
							bits, ok2 := call.Args[2].(*ast.BasicLit)
							if !ok1 || !ok2 || r.Kind != token.INT || bits.Kind != token.INT {
								return bad(st)
							}
							rv, err1 := strconv.ParseUint(r.Value, 0, 32)
							bv, err2 := strconv.ParseUint(bits.Value, 0, 32)
							if err1 != nil || err2 != nil {
								return bad(st)
							}
							if err := setUse(bl, fmt.Sprintf("UUA %d %d", rv, bv), st); err != nil {
								return err
							}
							continue
						}
					}
					return bad(st)
				}
				// no init
				if be, ok := x.Cond.(*ast.BinaryExpr); ok {
					// if V != LIT { return … }
					if lit, isLit := be.Y.(*ast.BasicLit); isLit && be.Op == token.NEQ && lit.Kind == token.INT &&
						x.Else == nil && p.layErrReturn(x.Body, 1) {
						bl, err := owner(p.laySq(be.X), st)
						if err != nil {
							return err
						}
						v, err := strconv.ParseInt(lit.Value, 0, 64)
						if err != nil {
							return bad(st)
						}
						if err := setUse(bl, fmt.Sprintf("UVersion %d", v), st); err != nil {
							return err
						}
						continue
					}
					// if X == nil { s.data = make(map[string]interface{}) } else if s.data, ok = X.(T); !ok { return … }
					if be.Op == token.EQL && p.laySq(be.Y) == "nil" && x.Else != nil && len(x.Body.List) == 1 &&
						p.laySq(x.Body.List[0]) == s+".data=make(map[string]interface{})" {
						if _, err := owner(p.laySq(be.X), st); err != nil {
							return err
						}
						el, ok := x.Else.(*ast.IfStmt)
						if !ok || el.Init == nil {
							return bad(st)
						}
						as, ok := el.Init.(*ast.AssignStmt)
						if !ok || len(as.Rhs) != 1 {
							return bad(st)
						}
						ta, ok := as.Rhs[0].(*ast.TypeAssertExpr)
						if !ok || p.laySq(ta.X) != p.laySq(be.X) || p.laySq(as.Lhs[0]) != s+".data" {
							return bad(st)
						}
						m, err := checkedAssert(el, true)
						if !m {
							return bad(st)
						}
						if err != nil {
							return err
						}
						continue
					}
				}
				return bad(st)
			case *ast.AssignStmt:
				if len(x.Rhs) != 1 {
					return bad(st)
				}
				// unchecked assertion: V = X.(T)
				if _, isTA := x.Rhs[0].(*ast.TypeAssertExpr); isTA && len(x.Lhs) == 1 {
					bl, ty, err := assertion(x.Rhs[0], st)
					if err != nil {
						return err
					}
					if err := setGuard(bl, "GAssert "+ty+" false", st); err != nil {
						return err
					}
					if err := assertTarget(bl, x.Lhs[0], ty, st); err != nil {
						return err
					}
					continue
				}
				// s.user, err = Persistence.LoadUser(X); if err != nil { return … }
				if call, isCall := x.Rhs[0].(*ast.CallExpr); isCall && len(x.Lhs) == 2 && p.laySq(x.Lhs[0]) == s+".user" &&
					p.laySq(call.Fun) == "Persistence.LoadUser" && len(call.Args) == 1 {
					bl, err := owner(p.laySq(call.Args[0]), st)
					if err != nil {
						return err
					}
					if i+1 >= len(list) {
						return fmt.Errorf("UnmarshalJSON: the error of LoadUser is not returned")
					}
					is, ok := list[i+1].(*ast.IfStmt)
					if !ok || is.Init != nil || is.Else != nil || p.laySq(is.Cond) != p.laySq(x.Lhs[1])+"!=nil" || !p.layErrReturn(is.Body, 1) {
						return fmt.Errorf("UnmarshalJSON: the error of LoadUser is not returned: %s", p.text(list[i+1]))
					}
					if bl.guard != "" {
						return bad(st)
					}
					bl.guard = "GNone"
					if err := setUse(bl, "UUser", st); err != nil {
						return err
					}
					i++
					continue
				}
				return bad(st)
			default:
				return bad(st)
			}
		}
		return nil
	}
	if err := walk(fd.Body.List, true); err != nil {
		return err
	}
	var rows []string
	for _, bl := range blocks {
		if bl.use == "" {
			return fmt.Errorf("UnmarshalJSON: key %q is looked up but not used", bl.key)
		}
		if bl.guard == "" {
			return fmt.Errorf("UnmarshalJSON: key %q is used without a type assertion", bl.key)
		}
		rows = append(rows, fmt.Sprintf("mkU %s %s (%s) (%s)", coqBytes(bl.key), layBool(bl.mandatory), bl.guard, bl.use))
	}
	fmt.Fprintf(b, "(* session.go: UnmarshalJSON *)\nDefinition json_dec : list ublock := [\n  %s].\n", strings.Join(rows, ";\n  "))
	return nil
}

func layBool(v bool) string {
	if v {
		return "true"
	}
	return "false"
}
