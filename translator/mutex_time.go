package main

// Gen/MutexTime.v: the uses of time in the keyed lock manager that the timed
// layer Model/MutexTimed.v was written against (C13/C14, audit task A7).
// Extraction only. Complements Gen/MutexTbl.v (which pins the statement texts
// of mutexes.go) with package-wide facts: where a `.lastAccess` of a lock item
// is read or written, where the package clock is consulted in mutexes.go,
// every call of getItem, and every mention of the lock manager's item type,
// its getItem method, its staleness tunable or a field `.items` outside mutexes.go.

import (
	"fmt"
	"go/ast"
	"go/token"
	"sort"
	"strings"
)

func init() {
	generators["MutexTime"] = mutexTime
}

func mutexTime(p *pkg) (string, error) {
	f := p.files["mutexes.go"]
	if f == nil {
		return "", fmt.Errorf("mutexes.go not found")
	}
	var b strings.Builder
	b.WriteString("(* Generated from /repo/mutexes.go (and the rest of the package) by /verif/translator. Do not edit. *)\n")
	b.WriteString("From Coq Require Import List String.\nImport ListNotations.\n\n")

	var laUses, clock, tunable []string
	for _, d := range f.Decls {
		fd, ok := d.(*ast.FuncDecl)
		if !ok || fd.Body == nil {
			continue
		}
		fn := recvName(fd) + "." + fd.Name.Name
		written := map[ast.Expr]bool{}
		ast.Inspect(fd.Body, func(n ast.Node) bool {
			switch x := n.(type) {
			case *ast.AssignStmt:
				for _, l := range x.Lhs {
					if se, ok := l.(*ast.SelectorExpr); ok && se.Sel.Name == "lastAccess" {
						written[se] = true
						laUses = append(laUses, fmt.Sprintf("%s: write: %s", fn, p.norm(x)))
					}
				}
			case *ast.IncDecStmt:
				if se, ok := x.X.(*ast.SelectorExpr); ok && se.Sel.Name == "lastAccess" {
					written[se] = true
					laUses = append(laUses, fmt.Sprintf("%s: write: %s", fn, p.norm(x)))
				}
			case *ast.UnaryExpr:
				if se, ok := x.X.(*ast.SelectorExpr); ok && x.Op == token.AND && se.Sel.Name == "lastAccess" {
					written[se] = true
					laUses = append(laUses, fmt.Sprintf("%s: address: %s", fn, p.norm(x)))
				}
			case *ast.KeyValueExpr:
				if id, ok := x.Key.(*ast.Ident); ok && id.Name == "lastAccess" {
					laUses = append(laUses, fmt.Sprintf("%s: literal: %s", fn, p.norm(x)))
				}
			case *ast.SelectorExpr:
				if x.Sel.Name == "lastAccess" && !written[x] {
					laUses = append(laUses, fmt.Sprintf("%s: read: %s", fn, p.norm(x)))
				}
			case *ast.CallExpr:
				if se, ok := x.Fun.(*ast.SelectorExpr); ok {
					if id, ok := se.X.(*ast.Ident); ok && id.Name == "time" {
						clock = append(clock, fmt.Sprintf("%s: %s", fn, p.norm(x)))
					}
				}
			case *ast.Ident:
				if x.Name == "mutexStaleMutexes" {
					tunable = append(tunable, fn)
				}
			}
			return true
		})
	}
	fmt.Fprintf(&b, "(* every `.lastAccess` in the functions of mutexes.go: function, kind, text *)\nDefinition mtt_lastaccess_uses : list string := %s.\n", coqStrings(laUses))
	fmt.Fprintf(&b, "(* every call time.<F>(...) in the functions of mutexes.go *)\nDefinition mtt_clock_calls : list string := %s.\n", coqStrings(clock))
	fmt.Fprintf(&b, "(* functions of mutexes.go mentioning mutexStaleMutexes *)\nDefinition mtt_stale_users : list string := %s.\n", coqStrings(tunable))

	// the declared value of the tunable, as written
	staleDecl := ""
	for _, d := range f.Decls {
		gd, ok := d.(*ast.GenDecl)
		if !ok || gd.Tok != token.VAR {
			continue
		}
		for _, s := range gd.Specs {
			vs := s.(*ast.ValueSpec)
			for i, n := range vs.Names {
				if n.Name == "mutexStaleMutexes" && i < len(vs.Values) {
					staleDecl = p.norm(vs.Values[i])
				}
			}
		}
	}
	fmt.Fprintf(&b, "Definition mtt_stale_decl : string := %s.\n", coqString(staleDecl))

	// the fields of mutexItem
	var itemFields []string
	for _, d := range f.Decls {
		gd, ok := d.(*ast.GenDecl)
		if !ok || gd.Tok != token.TYPE {
			continue
		}
		for _, s := range gd.Specs {
			ts := s.(*ast.TypeSpec)
			if st, ok := ts.Type.(*ast.StructType); ok && ts.Name.Name == "mutexItem" {
				for _, fl := range st.Fields.List {
					for _, n := range fl.Names {
						itemFields = append(itemFields, n.Name+" "+p.norm(fl.Type))
					}
				}
			}
		}
	}
	fmt.Fprintf(&b, "Definition mtt_item_fields : list string := %s.\n", coqStrings(itemFields))

	// every call of a method or function named getItem, package-wide, and
	// every mention of mutexItem / getItem / mutexStaleMutexes / .items outside mutexes.go
	var calls, foreign []string
	var bases []string
	for base := range p.files {
		bases = append(bases, base)
	}
	sort.Strings(bases)
	for _, base := range bases {
		file := p.files[base]
		for _, d := range file.Decls {
			fd, ok := d.(*ast.FuncDecl)
			if !ok || fd.Body == nil {
				continue
			}
			fn := recvName(fd) + "." + fd.Name.Name
			var stack []ast.Node
			ast.Inspect(fd.Body, func(n ast.Node) bool {
				if n == nil {
					stack = stack[:len(stack)-1]
					return true
				}
				stack = append(stack, n)
				if call, ok := n.(*ast.CallExpr); ok {
					if se, ok := call.Fun.(*ast.SelectorExpr); ok && se.Sel.Name == "getItem" {
						// the innermost enclosing statement
						var st ast.Stmt
						for i := len(stack) - 1; i >= 0; i-- {
							if s, ok := stack[i].(ast.Stmt); ok {
								st = s
								break
							}
						}
						txt := p.norm(call)
						if st != nil {
							txt = p.norm(st)
						}
						calls = append(calls, fmt.Sprintf("%s: %s: %s", base, fn, txt))
					}
				}
				return true
			})
		}
		if base == "mutexes.go" {
			continue
		}
		ast.Inspect(file, func(n ast.Node) bool {
			if id, ok := n.(*ast.Ident); ok {
				switch id.Name {
				case "mutexItem", "getItem", "mutexStaleMutexes":
					foreign = append(foreign, fmt.Sprintf("%s:%d: %s", base, p.fset.Position(id.Pos()).Line, id.Name))
				}
			}
			if se, ok := n.(*ast.SelectorExpr); ok && se.Sel.Name == "items" {
				foreign = append(foreign, fmt.Sprintf("%s:%d: %s", base, p.fset.Position(se.Pos()).Line, p.norm(se)))
			}
			return true
		})
	}
	fmt.Fprintf(&b, "(* every call of getItem in the package: file, function, enclosing statement *)\nDefinition mtt_getitem_calls : list string := %s.\n", coqStrings(calls))
	fmt.Fprintf(&b, "(* identifiers mutexItem / getItem / mutexStaleMutexes and selectors .items outside mutexes.go (verif_hooks.go is not part of the translated package) *)\nDefinition mtt_foreign_mentions : list string := %s.\n", coqStrings(foreign))
	return b.String(), nil
}
