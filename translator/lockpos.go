package main

// Gen/LockPos.v: *where* the per-ID lock is taken in the two functions that
// take it. Gen/SessShape.v's idlock_uses records only that Start and LogIn
// contain `sessionIDMutexes.Lock(id)` / `defer sessionIDMutexes.Unlock(id)`;
// a Start that looks the session up first and locks afterwards has the same
// idlock_uses. Here, for Start and (*Session).LogIn, every statement that
// matters for the critical section is listed in source order together with the
// block it sits in:
//
//	(depth, block, kind, text)
//
// depth  number of enclosing blocks below the function body (body = 0)
// block  number of the innermost enclosing block (function body = 0, the other
//	blocks - { } of if/for/switch/select/func literals, case clauses -
//	numbered in source order), so "same block" is decidable
// kind   lock / unlock / lockmgr   sessionIDMutexes.Lock(x) / .Unlock(x) / any other use
//	get / set / delete / cache    sessions.Get(x) / .Set(x) / .Delete(x) / any other use of `sessions`
//	regenerate / destroy          a call of a method named RegenerateID / Destroy
//	return                        a return statement
//	assign                        an assignment to (or declaration of) a variable that
//	                              occurs in the argument of a per-ID Lock/Unlock call
//	funclit                       a function literal (its body is a block of its own)
//	prefixed with "defer " or "go " when the call is deferred or started as a goroutine
// text   for lock/unlock/get/set/delete: the argument list as written; for
//	regenerate/destroy: the receiver expression; for return: the results as
//	written with the arguments of calls elided; for assign, lockmgr, cache:
//	the statement or call as written; for funclit: empty
//
// Properties/Shape.v pins the table (equality with the copy the model was
// written against) and proves from it that in Start the lock on `id` and its
// deferred release directly precede the first access to the session table, a
// sessions.Get of the same expression in the same block, and that in LogIn they
// directly precede the call of RegenerateID.

import (
	"bytes"
	"fmt"
	"go/ast"
	"go/printer"
	"go/token"
	"strings"
)

type lockEvent struct {
	depth, block int
	kind, text   string
}

func init() {
	generators["LockPos"] = func(p *pkg) (string, error) {
		targets := []struct{ recv, name string }{{"", "Start"}, {"Session", "LogIn"}}
		var b strings.Builder
		b.WriteString("(* Generated from /repo/session.go by /verif/translator (lockpos.go). Do not edit. *)\n")
		b.WriteString("From Coq Require Import List String.\nImport ListNotations.\nLocal Open Scope string_scope.\n\n")
		b.WriteString("(* function, [(depth, block, kind, text)] in source order *)\n")
		b.WriteString("Definition lock_events : list (string * list (nat * nat * string * string)) := [\n")
		for i, t := range targets {
			fd := p.funcDecl(t.recv, t.name)
			if fd == nil || fd.Body == nil {
				return "", fmt.Errorf("function %s.%s not found", t.recv, t.name)
			}
			if pos := p.fset.Position(fd.Pos()); !strings.HasSuffix(pos.Filename, "session.go") {
				return "", fmt.Errorf("function %s is not in session.go but in %s", t.name, pos.Filename)
			}
			evs, err := lockEvents(p, fd)
			if err != nil {
				return "", err
			}
			name := t.name
			if t.recv != "" {
				name = t.recv + "." + t.name
			}
			if i > 0 {
				b.WriteString(";\n")
			}
			b.WriteString("  (" + coqString(name) + ", [")
			for j, e := range evs {
				if j > 0 {
					b.WriteString(";\n     ")
				}
				fmt.Fprintf(&b, "(%d, %d, %s, %s)", e.depth, e.block, coqString(e.kind), coqString(e.text))
			}
			b.WriteString("])")
		}
		b.WriteString("].\n")
		return b.String(), nil
	}
}

func lockEvents(p *pkg, fd *ast.FuncDecl) ([]lockEvent, error) {
	show := func(n ast.Node) string {
		var cb bytes.Buffer
		printer.Fprint(&cb, p.fset, n)
		return oneLine(cb.String())
	}
	showArgs := func(c *ast.CallExpr) string {
		var parts []string
		for _, a := range c.Args {
			parts = append(parts, show(a))
		}
		s := strings.Join(parts, ", ")
		if c.Ellipsis != token.NoPos {
			s += "..."
		}
		return s
	}
	// pass 1: variables that occur in arguments of per-ID Lock/Unlock calls
	lockVars := map[string]bool{}
	ast.Inspect(fd.Body, func(n ast.Node) bool {
		c, ok := n.(*ast.CallExpr)
		if !ok {
			return true
		}
		if sel, ok := c.Fun.(*ast.SelectorExpr); ok {
			if x, ok := sel.X.(*ast.Ident); ok && x.Name == "sessionIDMutexes" {
				for _, a := range c.Args {
					ast.Inspect(a, func(m ast.Node) bool {
						if id, ok := m.(*ast.Ident); ok {
							lockVars[id.Name] = true
						}
						return true
					})
				}
			}
		}
		return true
	})
	mentions := func(es ...ast.Expr) bool {
		for _, e := range es {
			if e == nil {
				continue
			}
			found := false
			ast.Inspect(e, func(m ast.Node) bool {
				if id, ok := m.(*ast.Ident); ok && lockVars[id.Name] {
					found = true
				}
				return !found
			})
			if found {
				return true
			}
		}
		return false
	}

	// pass 2: the events
	var evs []lockEvent
	prefix := map[*ast.CallExpr]string{}
	usedAsCallee := map[*ast.Ident]bool{}
	type frame struct {
		node    ast.Node
		isBlock bool
	}
	var stack []frame
	blocks := []int{0}
	next := 1
	add := func(kind, text string) {
		evs = append(evs, lockEvent{len(blocks) - 1, blocks[len(blocks)-1], kind, text})
	}
	var walk func(n ast.Node) bool
	walk = func(n ast.Node) bool {
		if n == nil {
			f := stack[len(stack)-1]
			stack = stack[:len(stack)-1]
			if f.isBlock {
				blocks = blocks[:len(blocks)-1]
			}
			return true
		}
		isBlock := false
		switch x := n.(type) {
		case *ast.BlockStmt:
			if x != fd.Body {
				isBlock = true
			}
		case *ast.CaseClause, *ast.CommClause:
			isBlock = true
		case *ast.FuncLit:
			add("funclit", "")
		case *ast.DeferStmt:
			prefix[x.Call] = "defer "
		case *ast.GoStmt:
			prefix[x.Call] = "go "
		case *ast.ReturnStmt:
			// results as written, arguments of calls elided (error messages are
			// not part of the shape)
			var parts []string
			for _, r := range x.Results {
				if c, ok := r.(*ast.CallExpr); ok {
					parts = append(parts, show(c.Fun)+"(...)")
				} else {
					parts = append(parts, show(r))
				}
			}
			add("return", strings.TrimSpace("return "+strings.Join(parts, ", ")))
		case *ast.AssignStmt:
			if mentions(x.Lhs...) {
				add("assign", show(x))
			}
		case *ast.IncDecStmt:
			if mentions(x.X) {
				add("assign", show(x))
			}
		case *ast.RangeStmt:
			if mentions(x.Key, x.Value) {
				add("assign", "range "+show(x.Key)+", "+show(x.Value))
			}
		case *ast.DeclStmt:
			if gd, ok := x.Decl.(*ast.GenDecl); ok {
				for _, s := range gd.Specs {
					if vs, ok := s.(*ast.ValueSpec); ok {
						for _, nm := range vs.Names {
							if lockVars[nm.Name] {
								// without the comments attached to the declaration
								var names []string
								for _, m := range vs.Names {
									names = append(names, m.Name)
								}
								txt := "var " + strings.Join(names, ", ")
								if vs.Type != nil {
									txt += " " + show(vs.Type)
								}
								for k, v := range vs.Values {
									if k == 0 {
										txt += " = "
									} else {
										txt += ", "
									}
									txt += show(v)
								}
								add("assign", txt)
								break
							}
						}
					}
				}
			}
		case *ast.UnaryExpr:
			if x.Op == token.AND {
				// address of a lock variable taken: it may be written through the pointer
				if id, ok := ast.Unparen(x.X).(*ast.Ident); ok && lockVars[id.Name] {
					add("assign", show(x))
				}
			}
		case *ast.CallExpr:
			pre := prefix[x]
			if sel, ok := x.Fun.(*ast.SelectorExpr); ok {
				if recv, ok := sel.X.(*ast.Ident); ok && recv.Name == "sessionIDMutexes" {
					usedAsCallee[recv] = true
					switch sel.Sel.Name {
					case "Lock":
						add(pre+"lock", showArgs(x))
					case "Unlock":
						add(pre+"unlock", showArgs(x))
					default:
						add(pre+"lockmgr", show(x))
					}
				} else if ok && recv.Name == "sessions" {
					usedAsCallee[recv] = true
					switch sel.Sel.Name {
					case "Get":
						add(pre+"get", showArgs(x))
					case "Set":
						add(pre+"set", showArgs(x))
					case "Delete":
						add(pre+"delete", showArgs(x))
					default:
						add(pre+"cache", show(x))
					}
				} else if sel.Sel.Name == "RegenerateID" {
					add(pre+"regenerate", show(sel.X))
				} else if sel.Sel.Name == "Destroy" {
					add(pre+"destroy", show(sel.X))
				}
			}
		case *ast.Ident:
			// the lock manager and the session table used other than as the
			// receiver of a direct call (passed on, copied, method value)
			if (x.Name == "sessionIDMutexes" || x.Name == "sessions") && !usedAsCallee[x] && x.Obj == nil {
				if x.Name == "sessionIDMutexes" {
					add("lockmgr", "sessionIDMutexes")
				} else {
					add("cache", "sessions")
				}
			}
		}
		stack = append(stack, frame{n, isBlock})
		if isBlock {
			blocks = append(blocks, next)
			next++
		}
		return true
	}
	ast.Inspect(fd.Body, walk)
	if len(stack) != 0 || len(blocks) != 1 {
		return nil, fmt.Errorf("lockpos: unbalanced traversal of %s", fd.Name.Name)
	}
	return evs, nil
}
