// Command translator reads the Go source of rivo/sessions as it is now and
// writes Coq files (coq/Gen/*.v) with the facts the Coq development depends
// on. It extracts syntax; it does not interpret. Anything it does not
// understand is a hard error: the caller reports "translation no longer
// checks", never a pass.
//
// usage: translator <repo dir> <out dir>
package main

import (
	"fmt"
	"go/ast"
	"go/parser"
	"go/token"
	"os"
	"path/filepath"
	"sort"
	"strings"
)

// pkg is the parsed package (non-test files, hooks file excluded).
type pkg struct {
	fset  *token.FileSet
	files map[string]*ast.File // by base name
	src   map[string][]byte
}

// generators write one Gen file each; registered from init functions.
var generators = map[string]func(p *pkg) (string, error){}

func main() {
	if len(os.Args) != 3 {
		fmt.Fprintln(os.Stderr, "usage: translator <repo dir> <out dir>")
		os.Exit(2)
	}
	repo, out := os.Args[1], os.Args[2]
	p := &pkg{fset: token.NewFileSet(), files: map[string]*ast.File{}, src: map[string][]byte{}}
	names, err := filepath.Glob(filepath.Join(repo, "*.go"))
	if err != nil {
		fail(err)
	}
	for _, name := range names {
		base := filepath.Base(name)
		if strings.HasSuffix(base, "_test.go") || base == "verif_hooks.go" {
			continue
		}
		src, err := os.ReadFile(name)
		if err != nil {
			fail(err)
		}
		f, err := parser.ParseFile(p.fset, name, src, parser.ParseComments)
		if err != nil {
			fail(err)
		}
		p.files[base] = f
		p.src[base] = src
	}
	var gens []string
	for g := range generators {
		gens = append(gens, g)
	}
	sort.Strings(gens)
	status := 0
	for _, g := range gens {
		text, err := generators[g](p)
		target := filepath.Join(out, g+".v")
		if err != nil {
			// Leave a file that does not compile, so that nothing downstream
			// can be checked against a stale table.
			text = fmt.Sprintf("(* translator error: %s *)\nTranslation failed.\n", strings.ReplaceAll(err.Error(), "*)", "* )"))
			fmt.Fprintf(os.Stderr, "translator: %s: %v\n", g, err)
			status = 1
		}
		old, _ := os.ReadFile(target)
		if string(old) != text {
			if err := os.WriteFile(target, []byte(text), 0o644); err != nil {
				fail(err)
			}
		}
	}
	os.Exit(status)
}

func fail(err error) {
	fmt.Fprintln(os.Stderr, "translator:", err)
	os.Exit(2)
}

// funcDecl finds a top-level function (recv == "" for plain functions,
// otherwise the receiver's type name).
func (p *pkg) funcDecl(recv, name string) *ast.FuncDecl {
	for _, f := range p.files {
		for _, d := range f.Decls {
			fd, ok := d.(*ast.FuncDecl)
			if !ok || fd.Name.Name != name {
				continue
			}
			if recvName(fd) == recv {
				return fd
			}
		}
	}
	return nil
}

func recvName(fd *ast.FuncDecl) string {
	if fd.Recv == nil || len(fd.Recv.List) == 0 {
		return ""
	}
	t := fd.Recv.List[0].Type
	if s, ok := t.(*ast.StarExpr); ok {
		t = s.X
	}
	if id, ok := t.(*ast.Ident); ok {
		return id.Name
	}
	return "?"
}

// text returns the source text of a node.
func (p *pkg) text(n ast.Node) string {
	pos, end := p.fset.Position(n.Pos()), p.fset.Position(n.End())
	src := p.src[filepath.Base(pos.Filename)]
	return string(src[pos.Offset:end.Offset])
}

// coqBytes renders a Go string as a Coq list of N.
func coqBytes(s string) string {
	var b strings.Builder
	b.WriteString("[")
	for i := 0; i < len(s); i++ {
		if i > 0 {
			b.WriteString(";")
		}
		fmt.Fprintf(&b, "%d", s[i])
	}
	b.WriteString("]")
	return b.String()
}

// coqString renders a Go string as a Coq string literal (for source texts).
func coqString(s string) string {
	return `"` + strings.ReplaceAll(s, `"`, `""`) + `"`
}
