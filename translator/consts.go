package main

// Gen/Consts.v: literal constants of the source that the hand-written models
// depend on.

import (
	"fmt"
	"go/ast"
	"go/token"
	"strconv"
	"strings"
)

// constSections add their definitions to Gen/Consts.v; registered from init
// functions so that each property's constants live in their own file.
var constSections []func(p *pkg, b *strings.Builder) error

func init() {
	generators["Consts"] = func(p *pkg) (string, error) {
		var b strings.Builder
		b.WriteString("(* Generated from /repo/*.go by /verif/translator. Do not edit. *)\n")
		b.WriteString("From Coq Require Import List NArith ZArith String.\nImport ListNotations.\nLocal Open Scope N_scope.\n\n")
		for _, sec := range constSections {
			if err := sec(p, &b); err != nil {
				return "", err
			}
		}
		return b.String(), nil
	}
	constSections = append(constSections, passwordConsts)
}

// passwordConsts: the values of the Password* constants, the order in which
// ReasonablePassword returns them, the length bound, the sequence list.
func passwordConsts(p *pkg, b *strings.Builder) error {
	// Values of the result constants: position in their iota block.
	values := map[string]int{}
	var names []string
	f := p.files["passwords.go"]
	if f == nil {
		return fmt.Errorf("passwords.go not found")
	}
	for _, d := range f.Decls {
		gd, ok := d.(*ast.GenDecl)
		if !ok || gd.Tok != token.CONST {
			continue
		}
		for i, spec := range gd.Specs {
			vs := spec.(*ast.ValueSpec)
			if len(vs.Names) != 1 {
				return fmt.Errorf("passwords.go: unexpected const spec")
			}
			if i == 0 {
				if len(vs.Values) != 1 || p.text(vs.Values[0]) != "iota" {
					return fmt.Errorf("passwords.go: const block does not start with iota")
				}
			} else if len(vs.Values) != 0 {
				return fmt.Errorf("passwords.go: const %s has an explicit value", vs.Names[0].Name)
			}
			values[vs.Names[0].Name] = i
			names = append(names, vs.Names[0].Name)
		}
	}
	fd := p.funcDecl("", "ReasonablePassword")
	if fd == nil {
		return fmt.Errorf("ReasonablePassword not found")
	}
	if len(fd.Type.Params.List) != 2 || len(fd.Type.Params.List[0].Names) != 1 {
		return fmt.Errorf("ReasonablePassword: unexpected parameters")
	}
	pwName := fd.Type.Params.List[0].Names[0].Name

	// Return statements in source order.
	var order []string
	var minLen string
	var sequences []string
	seqSeen := false
	var err error
	ast.Inspect(fd.Body, func(n ast.Node) bool {
		switch x := n.(type) {
		case *ast.ReturnStmt:
			if len(x.Results) != 1 {
				err = fmt.Errorf("ReasonablePassword: return with %d results", len(x.Results))
				return false
			}
			id, ok := x.Results[0].(*ast.Ident)
			if !ok {
				err = fmt.Errorf("ReasonablePassword: return of %s", p.text(x.Results[0]))
				return false
			}
			if _, ok := values[id.Name]; !ok {
				err = fmt.Errorf("ReasonablePassword: return of unknown constant %s", id.Name)
				return false
			}
			order = append(order, id.Name)
		case *ast.BinaryExpr:
			// len(password) < N
			if call, ok := x.X.(*ast.CallExpr); ok && p.text(call) == "len("+pwName+")" {
				lit, ok := x.Y.(*ast.BasicLit)
				if !ok || x.Op != token.LSS || minLen != "" {
					err = fmt.Errorf("ReasonablePassword: length test is %q, expected len(%s) < literal", p.text(x), pwName)
					return false
				}
				minLen = lit.Value
			}
		case *ast.RangeStmt:
			// for _, sequence := range []string{...}
			if cl, ok := x.X.(*ast.CompositeLit); ok {
				if seqSeen {
					err = fmt.Errorf("ReasonablePassword: more than one literal list")
					return false
				}
				seqSeen = true
				for _, e := range cl.Elts {
					lit, ok := e.(*ast.BasicLit)
					if !ok || lit.Kind != token.STRING {
						err = fmt.Errorf("ReasonablePassword: sequence element %s", p.text(e))
						return false
					}
					s, uerr := strconv.Unquote(lit.Value)
					if uerr != nil {
						err = uerr
						return false
					}
					sequences = append(sequences, s)
				}
			}
		}
		return true
	})
	if err != nil {
		return err
	}
	if minLen == "" {
		return fmt.Errorf("ReasonablePassword: no length test found")
	}
	if !seqSeen {
		return fmt.Errorf("ReasonablePassword: no sequence list found")
	}

	fmt.Fprintf(b, "(* passwords.go *)\n")
	fmt.Fprintf(b, "Definition pw_const_names : list string := [")
	for i, n := range names {
		if i > 0 {
			b.WriteString("; ")
		}
		b.WriteString(coqString(n) + "%string")
	}
	b.WriteString("].\n")
	fmt.Fprintf(b, "Definition pw_return_order : list N := [")
	for i, n := range order {
		if i > 0 {
			b.WriteString("; ")
		}
		fmt.Fprintf(b, "%d", values[n])
	}
	b.WriteString("].\n")
	fmt.Fprintf(b, "Definition pw_min_len : N := %s.\n", minLen)
	fmt.Fprintf(b, "Definition pw_sequences : list (list N) := [\n")
	for i, s := range sequences {
		if i > 0 {
			b.WriteString(";\n")
		}
		b.WriteString("  " + coqBytes(s))
	}
	b.WriteString("].\n\n")
	return nil
}
