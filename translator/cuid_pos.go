package main

// Gen/CuidPos.v: *where* CUID (ids.go) reads the clock and touches its shared
// variables relative to lastMutex.Lock() and the deferred Unlock().
// Gen/Consts.v's ids_cuid_locked records that the body begins with
// `lastMutex.Lock(); defer lastMutex.Unlock()`, Gen/Access.v the lock state at
// every access to lastTime/lastCounter; neither says where time.Now() is
// called. Here every event of the body that matters for the critical section
// is listed in source order (for an assignment: the right-hand side first, the
// write last, as it is executed):
//
//	(depth, kind, text)
//
// depth  number of enclosing blocks below the function body (body = 0); an
//	event at depth > 0 sits in a branch or a loop
// kind   lock / unlock / mutex     lastMutex.Lock() / .Unlock() / any other use of lastMutex
//	clock                     a call time.Now()
//	read / write / incdec / update / addr
//	                          lastTime, lastCounter, macAddress: used as a value / assigned
//	                          with = / ++ or -- / assigned with an operator (+= ...) / & taken
//	call                      every other call or conversion (text: the callee as written),
//	                          so that a helper which reads the clock or the variables on
//	                          CUID's behalf changes the table
//	return / funclit / go     a return statement (after its results) / a function literal /
//	                          a go statement
//	"defer " is put before lock/unlock/mutex/clock/call when the call is deferred
// text   the call, variable or returned expressions as written
//
// Properties/C19K.v pins the table (equality with the copy the model
// Model/CuidConc.v was written against) and proves from it that the clock is
// read, and the shared pair compared and updated, between Lock and the
// deferred Unlock in the order of the model's actions.

import (
	"bytes"
	"fmt"
	"go/ast"
	"go/printer"
	"go/token"
	"strings"
)

type cuidEvent struct {
	depth      int
	kind, text string
}

func init() {
	generators["CuidPos"] = func(p *pkg) (string, error) {
		fd := p.funcDecl("", "CUID")
		if fd == nil || fd.Body == nil {
			return "", fmt.Errorf("function CUID not found")
		}
		if pos := p.fset.Position(fd.Pos()); !strings.HasSuffix(pos.Filename, "ids.go") {
			return "", fmt.Errorf("function CUID is not in ids.go but in %s", pos.Filename)
		}
		evs, err := cuidEvents(p, fd)
		if err != nil {
			return "", err
		}
		var b strings.Builder
		b.WriteString("(* Generated from /repo/ids.go by /verif/translator (cuid_pos.go). Do not edit. *)\n")
		b.WriteString("From Coq Require Import List String.\nImport ListNotations.\nLocal Open Scope string_scope.\n\n")
		b.WriteString("(* func CUID: [(depth, kind, text)] in execution order of the straight-line source *)\n")
		b.WriteString("Definition cuid_events : list (nat * string * string) := [\n")
		for j, e := range evs {
			if j > 0 {
				b.WriteString(";\n")
			}
			fmt.Fprintf(&b, "  (%d, %s, %s)", e.depth, coqString(e.kind), coqString(e.text))
		}
		b.WriteString("].\n")
		return b.String(), nil
	}
}

func cuidEvents(p *pkg, fd *ast.FuncDecl) ([]cuidEvent, error) {
	show := func(n ast.Node) string {
		var cb bytes.Buffer
		printer.Fprint(&cb, p.fset, n)
		return oneLine(cb.String())
	}
	shared := map[string]bool{"lastTime": true, "lastCounter": true, "macAddress": true}
	var failure error
	// an identifier that names one of the package-level variables (not a local
	// of the same name: a shadowing declaration is a hard error)
	global := func(id *ast.Ident) bool {
		if !shared[id.Name] && id.Name != "lastMutex" {
			return false
		}
		if id.Obj != nil && id.Obj.Pos() >= fd.Pos() && id.Obj.Pos() <= fd.End() {
			if failure == nil {
				failure = fmt.Errorf("CUID: %s is declared inside the function (shadows the package variable)", id.Name)
			}
			return false
		}
		return true
	}

	var evs []cuidEvent
	depth := 0
	add := func(kind, text string) { evs = append(evs, cuidEvent{depth, kind, text}) }
	prefix := map[*ast.CallExpr]string{}
	handled := map[*ast.Ident]bool{} // identifiers already accounted for by their parent
	type frame struct {
		node    ast.Node
		isBlock bool
		after   []cuidEvent // emitted when the node has been traversed (writes)
	}
	var stack []frame
	var walk func(n ast.Node) bool
	walk = func(n ast.Node) bool {
		if n == nil {
			f := stack[len(stack)-1]
			stack = stack[:len(stack)-1]
			if f.isBlock {
				depth--
			}
			for _, e := range f.after {
				evs = append(evs, cuidEvent{depth, e.kind, e.text})
			}
			return true
		}
		fr := frame{node: n}
		switch x := n.(type) {
		case *ast.BlockStmt:
			if x != fd.Body {
				fr.isBlock = true
			}
		case *ast.CaseClause, *ast.CommClause:
			fr.isBlock = true
		case *ast.FuncLit:
			add("funclit", "")
		case *ast.GoStmt:
			add("go", show(x.Call.Fun))
		case *ast.DeferStmt:
			prefix[x.Call] = "defer "
		case *ast.ReturnStmt:
			var parts []string
			for _, r := range x.Results {
				parts = append(parts, show(r))
			}
			fr.after = append(fr.after, cuidEvent{0, "return", strings.Join(parts, ", ")})
		case *ast.AssignStmt:
			for _, l := range x.Lhs {
				if id, ok := ast.Unparen(l).(*ast.Ident); ok && (shared[id.Name] || id.Name == "lastMutex") {
					if x.Tok == token.DEFINE {
						if failure == nil {
							failure = fmt.Errorf("CUID: %s is declared inside the function (shadows the package variable)", id.Name)
						}
						continue
					}
					if !global(id) {
						continue
					}
					handled[id] = true
					if x.Tok == token.ASSIGN {
						fr.after = append(fr.after, cuidEvent{0, "write", id.Name})
					} else {
						fr.after = append(fr.after, cuidEvent{0, "update", id.Name + " " + x.Tok.String()})
					}
				}
			}
		case *ast.IncDecStmt:
			if id, ok := ast.Unparen(x.X).(*ast.Ident); ok && global(id) {
				handled[id] = true
				add("incdec", id.Name+x.Tok.String())
			}
		case *ast.UnaryExpr:
			if x.Op == token.AND {
				if id, ok := ast.Unparen(x.X).(*ast.Ident); ok && global(id) {
					handled[id] = true
					if id.Name == "lastMutex" {
						add("mutex", show(x))
					} else {
						add("addr", id.Name)
					}
				}
			}
		case *ast.CallExpr:
			pre := prefix[x]
			done := false
			if sel, ok := x.Fun.(*ast.SelectorExpr); ok {
				if recv, ok := sel.X.(*ast.Ident); ok {
					switch {
					case recv.Name == "lastMutex" && global(recv):
						handled[recv] = true
						switch sel.Sel.Name {
						case "Lock":
							add(pre+"lock", show(x))
						case "Unlock":
							add(pre+"unlock", show(x))
						default:
							add(pre+"mutex", show(x))
						}
						done = true
					case recv.Name == "time" && recv.Obj == nil && sel.Sel.Name == "Now":
						add(pre+"clock", show(x))
						done = true
					}
				}
			}
			if !done {
				add(pre+"call", show(x.Fun))
			}
		case *ast.Ident:
			if !handled[x] && global(x) {
				if x.Name == "lastMutex" {
					add("mutex", "lastMutex")
				} else {
					add("read", x.Name)
				}
			}
		}
		if fr.isBlock {
			depth++
		}
		stack = append(stack, fr)
		return true
	}
	ast.Inspect(fd.Body, walk)
	if failure != nil {
		return nil, failure
	}
	if len(stack) != 0 || depth != 0 {
		return nil, fmt.Errorf("cuid_pos: unbalanced traversal of CUID")
	}
	return evs, nil
}
