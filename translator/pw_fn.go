package main

// Gen/PwFn.v: the body of ReasonablePassword (passwords.go) TRANSLATED from the
// Go AST into one Gallina definition gen_reasonable (Model/Password.v is the
// same function transcribed by hand). Proofs/PwFnEquiv.v proves on every run
// what the translation computes, Proofs/PwFnModel.v that the model computes
// the same.
//
// The subset of Go that is translated (ANYTHING else is a hard error naming
// the construct):
//
//	the result  the constants of the Password* iota block become the
//	            constructors C_<name> of an inductive pw_const, in block order
//	types       string (list N of bytes), []string (list of those), rune
//	            (N), int (Z), bool
//	library     len(s) -> Z.of_nat (length s); strings.ToLower(s) -> tolower s;
//	            strings.Contains(s, t) -> Base.contains s t; s == t on strings
//	            -> Base.bytes_eqb; `for i, ch := range s` over a string -> a
//	            fold over range_string s : list (Z * N), the (byte index,
//	            rune) pairs Go yields. tolower and range_string are PARAMETERS
//	            of the generated definition, as are the package variables
//	            commonPasswords and dictionary.
//	expressions integer and string literals, []string{"..", ..}, variables,
//	            == != < <= > >= on int and rune, == != on strings, && || !
//	statements  (function level) `if c { return K }`, `return K`, `var x rune`,
//	            `for _, v := range list { if c { return K } }` (a fold with an
//	            optional result: the first hit returns), `for i, ch := range
//	            str { .. }` whose body assigns outer variables and may break
//	            (loop level) x = e, break, if c { .. } [else { .. } | else if ..]
//
// gen_reasonable has the parameters of the Go function after the library
// parameters: gen_reasonable commonPasswords dictionary tolower range_string
// password names.

import (
	"fmt"
	"go/ast"
	"go/token"
	"sort"
	"strconv"
	"strings"
)

type pwType int

const (
	pwStr pwType = iota
	pwStrs
	pwRune
	pwInt
	pwBool
	pwUntyped
)

func (t pwType) String() string {
	return [...]string{"string", "[]string", "rune", "int", "bool", "untyped constant"}[t]
}

type pwVal struct {
	code string
	t    pwType
	lit  string // pwUntyped: the integer literal
}

type pwGen struct {
	p      *pkg
	consts map[string]bool
	vars   map[string]pwVal // Go name -> current Coq name and type
	count  map[string]int
}

func (g *pwGen) fail(n ast.Node, format string, a ...interface{}) {
	pos := g.p.fset.Position(n.Pos())
	panic(fnErr{fmt.Sprintf("pw_fn: passwords.go:%d: %s", pos.Line, fmt.Sprintf(format, a...))})
}

// fresh gives the next Coq name of a Go variable: name'k. The apostrophe cannot
// occur in a Go identifier, so no Go variable (first_1 next to first, or one
// called acc, st, stop, tolower, contains ...) can capture a generated binder
// or a library name.
func (g *pwGen) fresh(name string) string {
	k := g.count[name]
	g.count[name] = k + 1
	return fmt.Sprintf("%s'%d", name, k)
}

// declare: a NEW Go variable (var, range key/value). Shadowing a name that is in
// scope is outside the translated subset.
func (g *pwGen) declare(n ast.Node, name string, t pwType) string {
	if _, ok := g.vars[name]; ok || g.consts[name] {
		g.fail(n, "`%s` is declared here but is already in scope: shadowing is outside the translated subset", name)
	}
	c := g.fresh(name)
	g.vars[name] = pwVal{code: c, t: t}
	return c
}

func init() {
	generators["PwFn"] = func(p *pkg) (text string, err error) {
		defer func() {
			if r := recover(); r != nil {
				if fe, ok := r.(fnErr); ok {
					text, err = "", fmt.Errorf("%s", fe.msg)
					return
				}
				panic(r)
			}
		}()
		g := &pwGen{p: p, consts: map[string]bool{}, vars: map[string]pwVal{}, count: map[string]int{}}
		return g.generate(), nil
	}
}

func (g *pwGen) pkgVarType(name string) string {
	for _, f := range g.p.files {
		for _, d := range f.Decls {
			gd, ok := d.(*ast.GenDecl)
			if !ok || gd.Tok != token.VAR {
				continue
			}
			for _, s := range gd.Specs {
				vs := s.(*ast.ValueSpec)
				for _, n := range vs.Names {
					if n.Name == name && vs.Type != nil {
						return oneLine(g.p.text(vs.Type))
					}
				}
			}
		}
	}
	return "?"
}

func (g *pwGen) generate() string {
	f := g.p.files["passwords.go"]
	if f == nil {
		panic(fnErr{"pw_fn: passwords.go not found"})
	}
	// the iota block: exactly one const declaration in passwords.go, a plain iota
	// block of names Password*, the first one PasswordOK
	var names []string
	blocks := 0
	for _, d := range f.Decls {
		gd, ok := d.(*ast.GenDecl)
		if !ok || gd.Tok != token.CONST {
			continue
		}
		blocks++
		if blocks > 1 {
			g.fail(gd, "a second const declaration in passwords.go: exactly one (the Password* iota block) is expected")
		}
		for i, spec := range gd.Specs {
			vs := spec.(*ast.ValueSpec)
			if len(vs.Names) != 1 || vs.Type != nil || (i == 0 && (len(vs.Values) != 1 || g.p.text(vs.Values[0]) != "iota")) || (i > 0 && len(vs.Values) != 0) {
				g.fail(vs, "the constant block is not a plain iota block")
			}
			if !strings.HasPrefix(vs.Names[0].Name, "Password") || (i == 0 && vs.Names[0].Name != "PasswordOK") {
				g.fail(vs, "constant %s: the block is expected to consist of Password* names beginning with PasswordOK", vs.Names[0].Name)
			}
			names = append(names, vs.Names[0].Name)
			g.consts[vs.Names[0].Name] = true
		}
	}
	if len(names) == 0 {
		panic(fnErr{"pw_fn: no constant block in passwords.go"})
	}
	// `strings` is the standard package, imported under its own name
	stdStrings := false
	for _, im := range f.Imports {
		ip, _ := strconv.Unquote(im.Path.Value)
		name := ip
		if i := strings.LastIndex(ip, "/"); i >= 0 {
			name = ip[i+1:]
		}
		if im.Name != nil {
			name = im.Name.Name
		}
		if name == "strings" && ip != "strings" {
			g.fail(im, "the name strings is an import of %q, not of the standard package", ip)
		}
		if ip == "strings" && im.Name == nil {
			stdStrings = true
		}
	}
	if !stdStrings {
		panic(fnErr{"pw_fn: passwords.go does not import \"strings\" under its own name"})
	}
	// the two word lists are package variables of type []string; no other
	// top-level declaration is called strings, len, commonPasswords' shadow etc.
	for _, v := range []string{"commonPasswords", "dictionary"} {
		if t := g.pkgVarType(v); t != "[]string" {
			panic(fnErr{fmt.Sprintf("pw_fn: package variable %s is declared %s, expected []string", v, t)})
		}
	}
	for _, file := range g.p.files {
		for _, d := range file.Decls {
			switch x := d.(type) {
			case *ast.FuncDecl:
				if x.Recv == nil && (x.Name.Name == "len" || x.Name.Name == "strings") {
					g.fail(x, "top-level function %s shadows a name the translation relies on", x.Name.Name)
				}
			case *ast.GenDecl:
				for _, sp := range x.Specs {
					if vs, ok := sp.(*ast.ValueSpec); ok {
						for _, n := range vs.Names {
							if n.Name == "len" || n.Name == "strings" {
								g.fail(vs, "top-level declaration %s shadows a name the translation relies on", n.Name)
							}
						}
					}
					if ts, ok := sp.(*ast.TypeSpec); ok && (ts.Name.Name == "string" || ts.Name.Name == "rune") {
						g.fail(ts, "top-level type %s shadows a predeclared type the translation relies on", ts.Name.Name)
					}
				}
			}
		}
	}
	fd := g.p.funcDecl("", "ReasonablePassword")
	if fd == nil || fd.Body == nil {
		panic(fnErr{"pw_fn: ReasonablePassword not found"})
	}
	ps := fd.Type.Params.List
	if len(ps) != 2 || len(ps[0].Names) != 1 || len(ps[1].Names) != 1 || g.p.text(ps[0].Type) != "string" || g.p.text(ps[1].Type) != "[]string" ||
		fd.Type.Results == nil || len(fd.Type.Results.List) != 1 || g.p.text(fd.Type.Results.List[0].Type) != "int" {
		g.fail(fd, "ReasonablePassword does not have the signature (string, []string) int")
	}
	pw, nm := ps[0].Names[0].Name, ps[1].Names[0].Name
	for _, v := range []string{"commonPasswords", "dictionary"} {
		g.vars[v] = pwVal{code: v, t: pwStrs} // the Section variables below
	}
	if pw == nm {
		g.fail(fd, "duplicate parameter name")
	}
	g.declare(fd, pw, pwStr)
	g.declare(fd, nm, pwStrs)
	body := g.block(fd.Body.List)

	var b strings.Builder
	b.WriteString(`(* Generated from /repo/passwords.go by /verif/translator (pw_fn.go). Do not edit.

   The body of ReasonablePassword translated from the Go AST. Strings are lists
   of bytes (N), runes are N, int is Z. strings.ToLower, the (byte index, rune)
   pairs of a range over a string, and the two package-level word lists are
   parameters. A range loop that returns from its body is a fold with an
   optional result (the first hit wins); the rune loop with its break is a fold
   over (variables, stopped). *)
From Coq Require Import List ZArith NArith Bool.
From Sessions Require Import Model.Base.
Import ListNotations.

(* the constants of the Password* iota block, in block order *)
`)
	fmt.Fprintf(&b, "Inductive pw_const :=")
	for _, n := range names {
		fmt.Fprintf(&b, " | C_%s", n)
	}
	b.WriteString(".\nDefinition pw_const_code (c : pw_const) : N :=\n  match c with")
	for i, n := range names {
		fmt.Fprintf(&b, " | C_%s => %d", n, i)
	}
	b.WriteString(" end%N.\n")
	b.WriteString("Definition pw_const_name (c : pw_const) : list N :=\n  match c with")
	for _, n := range names {
		fmt.Fprintf(&b, " | C_%s => %s", n, coqBytes(n))
	}
	b.WriteString(" end%N.\n\n")
	b.WriteString("Section Gen.\n  Variables (commonPasswords dictionary : list (list N)) (tolower : list N -> list N)\n            (range_string : list N -> list (Z * N)).\n\n")
	fmt.Fprintf(&b, "  Definition gen_reasonable (%s : list N) (%s : list (list N)) : pw_const :=\n%s.\nEnd Gen.\n", g.vars[pw].code, g.vars[nm].code, body)
	return b.String()
}

// ---- function level: statements to a value of type pw_const ----

func (g *pwGen) constOf(r *ast.ReturnStmt) string {
	if len(r.Results) != 1 {
		g.fail(r, "return with %d results", len(r.Results))
	}
	id, ok := r.Results[0].(*ast.Ident)
	if !ok || !g.consts[id.Name] {
		g.fail(r, "return of `%s`, which is not one of the Password* constants", oneLine(g.p.text(r.Results[0])))
	}
	return "C_" + id.Name
}

// `if c { return K }` -> (condition, K)
func (g *pwGen) guard(st ast.Stmt) (string, string, bool) {
	x, ok := st.(*ast.IfStmt)
	if !ok {
		return "", "", false
	}
	if x.Init != nil || x.Else != nil || len(x.Body.List) != 1 {
		return "", "", false
	}
	r, ok := x.Body.List[0].(*ast.ReturnStmt)
	if !ok {
		return "", "", false
	}
	c := g.expr(x.Cond)
	if c.t != pwBool {
		g.fail(x.Cond, "condition is not boolean")
	}
	return c.code, g.constOf(r), true
}

func (g *pwGen) block(list []ast.Stmt) string {
	if len(list) == 0 {
		panic(fnErr{"pw_fn: ReasonablePassword: control reaches the end of the function without a return"})
	}
	st, rest := list[0], list[1:]
	if c, k, ok := g.guard(st); ok {
		return fmt.Sprintf("    if %s then %s else\n%s", c, k, g.block(rest))
	}
	switch x := st.(type) {
	case *ast.ReturnStmt:
		if len(rest) != 0 {
			g.fail(rest[0], "statement after return")
		}
		return "    " + g.constOf(x)
	case *ast.DeclStmt:
		gd, ok := x.Decl.(*ast.GenDecl)
		if !ok || gd.Tok != token.VAR || len(gd.Specs) != 1 {
			g.fail(x, "declaration `%s` is outside the translated subset", stmtHead(g.p, x))
		}
		vs := gd.Specs[0].(*ast.ValueSpec)
		if len(vs.Names) != 1 || len(vs.Values) != 0 || vs.Type == nil || g.p.text(vs.Type) != "rune" {
			g.fail(x, "declaration `%s` is outside the translated subset (only `var x rune`)", stmtHead(g.p, x))
		}
		c := g.declare(x, vs.Names[0].Name, pwRune)
		return fmt.Sprintf("    let %s := 0%%N in\n%s", c, g.block(rest))
	case *ast.RangeStmt:
		if x.Tok != token.DEFINE {
			g.fail(x, "range statement without := is outside the translated subset")
		}
		over := g.expr(x.X)
		switch over.t {
		case pwStrs:
			// for _, v := range list { if c { return K } }
			if k, ok := x.Key.(*ast.Ident); !ok || k.Name != "_" || x.Value == nil {
				g.fail(x, "range over a list with an index variable is outside the translated subset")
			}
			v, ok := x.Value.(*ast.Ident)
			if !ok {
				g.fail(x, "range value is not a variable")
			}
			if len(x.Body.List) != 1 {
				g.fail(x, "body of the loop over %s is not a single `if c { return K }`", stmtHead(g.p, x.X))
			}
			vc := g.declare(x, v.Name, pwStr)
			c, k, ok := g.guard(x.Body.List[0])
			if !ok {
				g.fail(x.Body.List[0], "body of the loop is not a single `if c { return K }`")
			}
			delete(g.vars, v.Name) // out of scope after the loop
			return fmt.Sprintf("    match fold_left (fun (acc : option pw_const) %s => match acc with Some r => Some r | None => if %s then Some %s else None end) %s None with\n    | Some r => r\n    | None =>\n%s\n    end",
				vc, c, k, over.code, g.block(rest))
		case pwStr:
			return g.runeLoop(x, over) + g.block(rest)
		}
		g.fail(x.X, "range over %s is outside the translated subset", over.t)
	}
	g.fail(st, "statement `%s` (%T) is outside the translated subset", stmtHead(g.p, st), st)
	return ""
}

// ---- the loop over the runes of a string: a fold over (variables, stopped) ----

func (g *pwGen) runeLoop(x *ast.RangeStmt, over pwVal) string {
	k, ok1 := x.Key.(*ast.Ident)
	v, ok2 := x.Value.(*ast.Ident)
	if !ok1 || !ok2 || k.Name == "_" || v.Name == "_" {
		g.fail(x, "range over a string must bind index and rune: `for i, ch := range s`")
	}
	ast.Inspect(x.Body, func(n ast.Node) bool {
		switch y := n.(type) {
		case *ast.ReturnStmt, *ast.GoStmt, *ast.DeferStmt, *ast.FuncLit, *ast.ForStmt, *ast.RangeStmt, *ast.SwitchStmt, *ast.LabeledStmt:
			g.fail(n, "%T inside the loop over a string is outside the translated subset", n)
		case *ast.BranchStmt:
			if y.Tok != token.BREAK || y.Label != nil {
				g.fail(n, "%s inside the loop over a string is outside the translated subset (only an unlabelled break)", y.Tok)
			}
		}
		return true
	})
	if k.Name == v.Name {
		g.fail(x, "index and rune variable have the same name")
	}
	for _, n := range []string{k.Name, v.Name} {
		if _, ok := g.vars[n]; ok || g.consts[n] {
			g.fail(x, "range variable `%s` is already in scope: shadowing is outside the translated subset", n)
		}
	}
	var ws []string
	for _, n := range assignedNames(x.Body) {
		if n == k.Name || n == v.Name {
			g.fail(x, "the loop body assigns the range variable `%s` (Go would use the new value for the rest of the iteration): outside the translated subset", n)
		}
		if _, ok := g.vars[n]; ok {
			ws = append(ws, n)
		}
	}
	sort.Strings(ws)
	if len(ws) == 0 {
		g.fail(x, "loop over a string that assigns no outer variable")
	}
	outer := map[string]pwVal{}
	for k2, v2 := range g.vars {
		outer[k2] = v2
	}
	var cur, st []string
	for _, w := range ws {
		cur = append(cur, g.vars[w].code)
		c := g.fresh(w)
		g.vars[w] = pwVal{code: c, t: outer[w].t}
		st = append(st, c)
	}
	kc, vc := g.fresh(k.Name), g.fresh(v.Name)
	g.vars[k.Name] = pwVal{code: kc, t: pwInt}
	g.vars[v.Name] = pwVal{code: vc, t: pwRune}
	body := g.loopStmts(x.Body.List, ws)
	g.vars = outer
	var news []string
	for _, w := range ws {
		c := g.fresh(w)
		g.vars[w] = pwVal{code: c, t: outer[w].t}
		news = append(news, c)
	}
	var tys []string
	for _, w := range ws {
		ty := map[pwType]string{pwStr: "list N", pwStrs: "list (list N)", pwRune: "N", pwInt: "Z", pwBool: "bool"}[outer[w].t]
		tys = append(tys, ty)
	}
	return fmt.Sprintf("    let %s := fst (fold_left (fun (st : %s * bool) (ic : Z * N) => let '(%s, stop) := st in let '(%s, %s) := ic in if stop then st else\n      %s)\n      (range_string %s) (%s, false)) in\n",
		letPat(news), strings.Join(tys, " * "), tuple(st), kc, vc, body, over.code, tuple(cur))
}

func (g *pwGen) state(ws []string, stopped bool) string {
	var xs []string
	for _, w := range ws {
		xs = append(xs, g.vars[w].code)
	}
	return fmt.Sprintf("(%s, %v)", tuple(xs), stopped)
}

// statements of a loop body to a value of type (variables, stopped)
func (g *pwGen) loopStmts(list []ast.Stmt, ws []string) string {
	if len(list) == 0 {
		return g.state(ws, false)
	}
	st, rest := list[0], list[1:]
	switch x := st.(type) {
	case *ast.BranchStmt:
		return g.state(ws, true)
	case *ast.AssignStmt:
		if len(x.Lhs) != 1 || len(x.Rhs) != 1 || x.Tok != token.ASSIGN {
			g.fail(x, "`%s` is outside the translated subset (only x = e)", stmtHead(g.p, x))
		}
		id, ok := x.Lhs[0].(*ast.Ident)
		if !ok {
			g.fail(x, "assignment to `%s`", stmtHead(g.p, x.Lhs[0]))
		}
		old, ok := g.vars[id.Name]
		if !ok {
			g.fail(x, "assignment to unknown variable %s", id.Name)
		}
		v := g.conv(x, g.expr(x.Rhs[0]), old.t)
		c := g.fresh(id.Name)
		g.vars[id.Name] = pwVal{code: c, t: old.t}
		return fmt.Sprintf("let %s := %s in %s", c, v.code, g.loopStmts(rest, ws))
	case *ast.BlockStmt:
		if len(rest) == 0 {
			return g.loopStmts(x.List, ws)
		}
	case *ast.IfStmt:
		if x.Init != nil {
			g.fail(x, "if with an init statement is outside the translated subset")
		}
		c := g.expr(x.Cond)
		if c.t != pwBool {
			g.fail(x.Cond, "condition is not boolean")
		}
		saved := map[string]pwVal{}
		for k, v := range g.vars {
			saved[k] = v
		}
		restore := func() {
			g.vars = map[string]pwVal{}
			for k, v := range saved {
				g.vars[k] = v
			}
		}
		var thenS, elseS string
		branch := func(b []ast.Stmt) string {
			restore()
			return g.loopStmts(b, ws)
		}
		thenS = branch(x.Body.List)
		switch e := x.Else.(type) {
		case nil:
			elseS = branch(nil)
		case *ast.BlockStmt:
			elseS = branch(e.List)
		case *ast.IfStmt:
			elseS = branch([]ast.Stmt{e})
		default:
			g.fail(x.Else, "else branch %T is outside the translated subset", x.Else)
		}
		restore()
		if len(rest) == 0 {
			return fmt.Sprintf("(if %s then %s else %s)", c.code, thenS, elseS)
		}
		// join: continue with the rest unless a branch stopped
		var news []string
		for _, w := range ws {
			n := g.fresh(w)
			g.vars[w] = pwVal{code: n, t: saved[w].t}
			news = append(news, n)
		}
		sv := g.fresh("stopped")
		return fmt.Sprintf("(let '(%s, %s) := (if %s then %s else %s) in if %s then (%s, true) else %s)",
			tuple(news), sv, c.code, thenS, elseS, sv, tuple(news), g.loopStmts(rest, ws))
	}
	g.fail(st, "statement `%s` (%T) inside the loop over a string is outside the translated subset", stmtHead(g.p, st), st)
	return ""
}

// ---- expressions ----

func (g *pwGen) conv(n ast.Node, v pwVal, t pwType) pwVal {
	if v.t == t {
		return v
	}
	if v.t == pwUntyped && t == pwRune {
		return pwVal{code: v.lit + "%N", t: pwRune}
	}
	if v.t == pwUntyped && t == pwInt {
		return pwVal{code: v.lit + "%Z", t: pwInt}
	}
	g.fail(n, "mismatched types %s and %s", v.t, t)
	return v
}

func (g *pwGen) expr(x ast.Expr) pwVal {
	switch x := x.(type) {
	case *ast.ParenExpr:
		return g.expr(x.X)
	case *ast.BasicLit:
		switch x.Kind {
		case token.INT:
			n, err := strconv.ParseUint(x.Value, 0, 31)
			if err != nil {
				g.fail(x, "integer literal %s", x.Value)
			}
			return pwVal{t: pwUntyped, lit: strconv.FormatUint(n, 10)}
		case token.STRING:
			s, err := strconv.Unquote(x.Value)
			if err != nil {
				g.fail(x, "string literal: %v", err)
			}
			return pwVal{code: coqBytes(s) + "%N", t: pwStr}
		}
		g.fail(x, "literal %s is outside the translated subset", x.Value)
	case *ast.Ident:
		if v, ok := g.vars[x.Name]; ok {
			return v
		}
		g.fail(x, "`%s` is neither a parameter, a local, commonPasswords nor dictionary", x.Name)
	case *ast.CompositeLit:
		if g.p.text(x.Type) != "[]string" {
			g.fail(x, "composite literal of type %s is outside the translated subset", oneLine(g.p.text(x.Type)))
		}
		var es []string
		for _, e := range x.Elts {
			v := g.expr(e)
			if v.t != pwStr {
				g.fail(e, "element of []string literal is %s", v.t)
			}
			es = append(es, strings.TrimSuffix(v.code, "%N"))
		}
		return pwVal{code: "[" + strings.Join(es, ";\n       ") + "]%N", t: pwStrs}
	case *ast.UnaryExpr:
		if x.Op == token.NOT {
			v := g.expr(x.X)
			if v.t == pwBool {
				return pwVal{code: "(negb " + v.code + ")", t: pwBool}
			}
		}
		g.fail(x, "unary %s is outside the translated subset", x.Op)
	case *ast.CallExpr:
		fn := oneLine(g.p.text(x.Fun))
		for _, n := range []string{"strings", "len"} {
			if _, ok := g.vars[n]; ok {
				g.fail(x, "a local variable is called %s: calls through that name are outside the translated subset", n)
			}
		}
		var args []pwVal
		for _, a := range x.Args {
			args = append(args, g.expr(a))
		}
		switch {
		case fn == "len" && len(args) == 1 && (args[0].t == pwStr || args[0].t == pwStrs):
			return pwVal{code: fmt.Sprintf("(Z.of_nat (length %s))", args[0].code), t: pwInt}
		case fn == "strings.ToLower" && len(args) == 1 && args[0].t == pwStr:
			return pwVal{code: fmt.Sprintf("(tolower %s)", args[0].code), t: pwStr}
		case fn == "strings.Contains" && len(args) == 2 && args[0].t == pwStr && args[1].t == pwStr:
			return pwVal{code: fmt.Sprintf("(contains %s %s)", args[0].code, args[1].code), t: pwBool}
		}
		g.fail(x, "call `%s` is outside the translated subset", stmtHead(g.p, x))
	case *ast.BinaryExpr:
		a, b := g.expr(x.X), g.expr(x.Y)
		if x.Op == token.LAND || x.Op == token.LOR {
			if a.t != pwBool || b.t != pwBool {
				g.fail(x, "%s on %s and %s", x.Op, a.t, b.t)
			}
			f := map[token.Token]string{token.LAND: "andb", token.LOR: "orb"}[x.Op]
			return pwVal{code: fmt.Sprintf("(%s %s %s)", f, a.code, b.code), t: pwBool}
		}
		if a.t == pwUntyped && b.t == pwUntyped {
			g.fail(x, "constant expression `%s` is outside the translated subset", stmtHead(g.p, x))
		}
		if a.t == pwUntyped {
			a = g.conv(x, a, b.t)
		}
		if b.t == pwUntyped {
			b = g.conv(x, b, a.t)
		}
		if a.t != b.t {
			g.fail(x, "mismatched types %s and %s in %s", a.t, b.t, x.Op)
		}
		switch a.t {
		case pwStr:
			switch x.Op {
			case token.EQL:
				return pwVal{code: fmt.Sprintf("(bytes_eqb %s %s)", a.code, b.code), t: pwBool}
			case token.NEQ:
				return pwVal{code: fmt.Sprintf("(negb (bytes_eqb %s %s))", a.code, b.code), t: pwBool}
			}
		case pwInt, pwRune:
			m := "Z"
			if a.t == pwRune {
				m = "N"
			}
			switch x.Op {
			case token.EQL:
				return pwVal{code: fmt.Sprintf("(%s.eqb %s %s)", m, a.code, b.code), t: pwBool}
			case token.NEQ:
				return pwVal{code: fmt.Sprintf("(negb (%s.eqb %s %s))", m, a.code, b.code), t: pwBool}
			case token.LSS:
				return pwVal{code: fmt.Sprintf("(%s.ltb %s %s)", m, a.code, b.code), t: pwBool}
			case token.LEQ:
				return pwVal{code: fmt.Sprintf("(%s.leb %s %s)", m, a.code, b.code), t: pwBool}
			case token.GTR:
				return pwVal{code: fmt.Sprintf("(%s.ltb %s %s)", m, b.code, a.code), t: pwBool}
			case token.GEQ:
				return pwVal{code: fmt.Sprintf("(%s.leb %s %s)", m, b.code, a.code), t: pwBool}
			}
		}
		g.fail(x, "operator %s on %s is outside the translated subset", x.Op, a.t)
	}
	g.fail(x, "expression `%s` (%T) is outside the translated subset", stmtHead(g.p, x), x)
	return pwVal{}
}
