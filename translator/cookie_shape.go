package main

// Gen/CookieShape.v: how the package builds the cookies it sets, as text.
//
// cookie_sites: for every `http.SetCookie(w, X)` of the package (non-test
// files), in source order: the function it is in, the call, where X comes from
// (the statement in the same block that last defines the variable, classified
// as template / template copy / copy of a parameter / request cookie / ...),
// and everything that touches the variable between that definition and the
// call, in source order: field assignments as "Field = expr", any other
// statement that mentions it as "use: <statement>".
//
// delete_cookie_calls: every call of deleteCookie: function, call, and every
// assignment in that function, before the call, to the variable passed (whole
// variable or a field of it).
//
// set_cookie_literals: every string literal "Set-Cookie" (a header written by
// hand would bypass http.SetCookie).
//
// Model/Cookie.v (render, render_old) was written against these tables;
// Properties/C18A.v pins them (cookie_sites_pinned), so a site that assigns
// another field, takes its cookie from somewhere else, or a new site, breaks
// an obligation whatever inputs the generated histories happen to use.

import (
	"bytes"
	"fmt"
	"go/ast"
	"go/printer"
	"go/token"
	"sort"
	"strconv"
	"strings"
)

func init() {
	generators["CookieShape"] = genCookieShape
}

type cookieSite struct {
	fn, call, origin, def string
	touches               []string
}

type deleteCall struct {
	fn, call string
	assigns  []string
}

func genCookieShape(p *pkg) (string, error) {
	var names []string
	for name := range p.files {
		names = append(names, name)
	}
	sort.Strings(names)
	if p.files["session.go"] == nil {
		return "", fmt.Errorf("session.go not found")
	}
	show := func(n ast.Node) string {
		var b bytes.Buffer
		printer.Fprint(&b, p.fset, n)
		return oneLine(b.String())
	}
	var sites []cookieSite
	var dels []deleteCall
	var literals []string
	selectorUses := 0 // every mention of http.SetCookie, to be matched by the sites understood
	deleteUses := 0
	for _, name := range names {
		for _, d := range p.files[name].Decls {
			fd, ok := d.(*ast.FuncDecl)
			if !ok || fd.Body == nil {
				// a package-level variable initialised with a function literal
				// that sets cookies would not be seen below: count mentions
				ast.Inspect(d, func(n ast.Node) bool {
					if isHTTPSetCookie(n) {
						selectorUses++
					}
					if id, ok := n.(*ast.Ident); ok && id.Name == "deleteCookie" {
						if _, isFn := d.(*ast.FuncDecl); !isFn {
							deleteUses++
						}
					}
					return true
				})
				continue
			}
			fname := fd.Name.Name
			if r := recvName(fd); r != "" {
				fname = r + "." + fname
			}
			params := map[string]bool{}
			if fd.Type.Params != nil {
				for _, f := range fd.Type.Params.List {
					for _, n := range f.Names {
						params[n.Name] = true
					}
				}
			}
			ast.Inspect(fd.Body, func(n ast.Node) bool {
				if isHTTPSetCookie(n) {
					selectorUses++
				}
				if c, ok := n.(*ast.CallExpr); ok {
					if id, ok := c.Fun.(*ast.Ident); ok && id.Name == "deleteCookie" {
						deleteUses++
					}
				}
				if lit, ok := n.(*ast.BasicLit); ok && lit.Kind == token.STRING {
					if s, err := strconv.Unquote(lit.Value); err == nil && strings.EqualFold(s, "Set-Cookie") {
						literals = append(literals, "("+coqString(fname)+", "+coqString(lit.Value)+")")
					}
				}
				var list []ast.Stmt
				switch x := n.(type) {
				case *ast.BlockStmt:
					list = x.List
				case *ast.CaseClause:
					list = x.Body
				case *ast.CommClause:
					list = x.Body
				}
				for i, st := range list {
					es, ok := st.(*ast.ExprStmt)
					if !ok {
						continue
					}
					call, ok := es.X.(*ast.CallExpr)
					if !ok {
						continue
					}
					if isHTTPSetCookie(call.Fun) && len(call.Args) == 2 {
						sites = append(sites, describeSite(fname, call, list[:i], params, show))
					}
					if id, ok := call.Fun.(*ast.Ident); ok && id.Name == "deleteCookie" && len(call.Args) == 2 {
						dc := deleteCall{fn: fname, call: show(call)}
						if v, ok := call.Args[0].(*ast.Ident); ok {
							dc.assigns = assignsBefore(fd.Body, v.Name, call.Pos(), show)
						} else {
							dc.assigns = []string{"argument is not a variable: " + show(call.Args[0])}
						}
						dels = append(dels, dc)
					}
				}
				return true
			})
		}
	}
	if selectorUses != len(sites) {
		return "", fmt.Errorf("http.SetCookie is mentioned %d times but only %d are plain statements `http.SetCookie(w, x)` in a block", selectorUses, len(sites))
	}
	if deleteUses != len(dels) {
		return "", fmt.Errorf("deleteCookie is used %d times but only %d are plain statements `deleteCookie(c, w)` in a block", deleteUses, len(dels))
	}
	var b strings.Builder
	b.WriteString("(* Generated from /repo/*.go by /verif/translator (cookie_shape.go). Do not edit. *)\n")
	b.WriteString("From Coq Require Import List String.\nImport ListNotations.\nLocal Open Scope string_scope.\n\n")
	b.WriteString("(* function, call, origin class, defining statement, what touches the variable before the call *)\n")
	b.WriteString("Definition cookie_sites : list (string * string * string * string * list string) := [\n")
	for i, s := range sites {
		if i > 0 {
			b.WriteString(";\n")
		}
		b.WriteString("  (" + coqString(s.fn) + ", " + coqString(s.call) + ", " + coqString(s.origin) + ", " + coqString(s.def) + ",\n   [" + joinCoqStrings(s.touches) + "])")
	}
	b.WriteString("].\n\n")
	b.WriteString("(* function, call, assignments to the variable passed, before the call *)\n")
	b.WriteString("Definition delete_cookie_calls : list (string * string * list string) := [\n")
	for i, d := range dels {
		if i > 0 {
			b.WriteString(";\n")
		}
		b.WriteString("  (" + coqString(d.fn) + ", " + coqString(d.call) + ",\n   [" + joinCoqStrings(d.assigns) + "])")
	}
	b.WriteString("].\n\n")
	b.WriteString("Definition set_cookie_literals : list (string * string) := [" + strings.Join(literals, "; ") + "].\n")
	return b.String(), nil
}

func joinCoqStrings(l []string) string {
	q := make([]string, len(l))
	for i, s := range l {
		q[i] = coqString(s)
	}
	return strings.Join(q, ";\n    ")
}

func isHTTPSetCookie(n ast.Node) bool {
	sel, ok := n.(*ast.SelectorExpr)
	if !ok || sel.Sel.Name != "SetCookie" {
		return false
	}
	id, ok := sel.X.(*ast.Ident)
	return ok && id.Name == "http"
}

// mentions reports whether the identifier occurs in n as a variable (not as
// the field name of a selector).
func mentions(n ast.Node, name string) bool {
	found := false
	ast.Inspect(n, func(x ast.Node) bool {
		if found {
			return false
		}
		switch y := x.(type) {
		case *ast.SelectorExpr:
			if mentions(y.X, name) {
				found = true
			}
			return false
		case *ast.Ident:
			if y.Name == name {
				found = true
			}
		}
		return true
	})
	return found
}

// definesVar: the statement assigns or declares the variable as a whole.
func definesVar(st ast.Stmt, name string) bool {
	switch x := st.(type) {
	case *ast.AssignStmt:
		for _, l := range x.Lhs {
			if id, ok := l.(*ast.Ident); ok && id.Name == name {
				return true
			}
		}
	case *ast.DeclStmt:
		if gd, ok := x.Decl.(*ast.GenDecl); ok {
			for _, sp := range gd.Specs {
				if vs, ok := sp.(*ast.ValueSpec); ok {
					for _, n := range vs.Names {
						if n.Name == name {
							return true
						}
					}
				}
			}
		}
	}
	return false
}

// fieldAssign: `name.Field <op> expr` as a statement of its own.
func fieldAssign(st ast.Stmt, name string, show func(ast.Node) string) (string, bool) {
	as, ok := st.(*ast.AssignStmt)
	if !ok || len(as.Lhs) != 1 || len(as.Rhs) != 1 {
		return "", false
	}
	sel, ok := as.Lhs[0].(*ast.SelectorExpr)
	if !ok {
		return "", false
	}
	id, ok := sel.X.(*ast.Ident)
	if !ok || id.Name != name || mentions(as.Rhs[0], name) {
		return "", false
	}
	return sel.Sel.Name + " " + as.Tok.String() + " " + show(as.Rhs[0]), true
}

func describeSite(fname string, call *ast.CallExpr, before []ast.Stmt, params map[string]bool, show func(ast.Node) string) cookieSite {
	s := cookieSite{fn: fname, call: show(call), touches: []string{}}
	var v string
	switch a := call.Args[1].(type) {
	case *ast.Ident:
		v = a.Name
	case *ast.UnaryExpr:
		if id, ok := a.X.(*ast.Ident); ok && a.Op == token.AND {
			v = id.Name
		}
	}
	if v == "" {
		s.origin, s.def = "other", show(call.Args[1])
		return s
	}
	var rev []string
	for j := len(before) - 1; j >= 0; j-- {
		st := before[j]
		if definesVar(st, v) {
			s.def = show(st)
			s.origin = classifyOrigin(st, v, params, show)
			break
		}
		if f, ok := fieldAssign(st, v, show); ok {
			rev = append(rev, f)
		} else if mentions(st, v) {
			rev = append(rev, "use: "+show(st))
		}
	}
	if s.def == "" {
		if params[v] {
			s.origin, s.def = "parameter", v
		} else {
			s.origin, s.def = "other", "not defined in the block of the call: "+v
		}
	}
	for j := len(rev) - 1; j >= 0; j-- {
		s.touches = append(s.touches, rev[j])
	}
	return s
}

func classifyOrigin(st ast.Stmt, v string, params map[string]bool, show func(ast.Node) string) string {
	as, ok := st.(*ast.AssignStmt)
	if !ok {
		return "other"
	}
	if len(as.Lhs) == 1 && len(as.Rhs) == 1 {
		switch show(as.Rhs[0]) {
		case "NewSessionCookie()":
			return "template"
		case "*NewSessionCookie()":
			return "template copy"
		}
		if star, ok := as.Rhs[0].(*ast.StarExpr); ok {
			if id, ok := star.X.(*ast.Ident); ok && params[id.Name] {
				return "copy of parameter"
			}
		}
		if id, ok := as.Rhs[0].(*ast.Ident); ok && params[id.Name] {
			return "parameter"
		}
	}
	if len(as.Rhs) == 1 {
		if c, ok := as.Rhs[0].(*ast.CallExpr); ok {
			if sel, ok := c.Fun.(*ast.SelectorExpr); ok && sel.Sel.Name == "Cookie" {
				return "request cookie"
			}
		}
	}
	return "other"
}

// assignsBefore lists, in source order, every assignment statement of the
// function that assigns the variable or a field of it and ends before pos.
func assignsBefore(body *ast.BlockStmt, name string, pos token.Pos, show func(ast.Node) string) []string {
	out := []string{}
	ast.Inspect(body, func(n ast.Node) bool {
		as, ok := n.(*ast.AssignStmt)
		if !ok || as.End() > pos {
			return true
		}
		for _, l := range as.Lhs {
			if mentions(l, name) {
				out = append(out, show(as))
				break
			}
		}
		return true
	})
	return out
}
