package main

// Gen/AddrRe.v: the remote-address pattern of Start and what is done with it,
// as text.
//
// addr_pattern: the content of the string literal passed to the package's one
// regexp.MustCompile call (non-test files). The call must be the right-hand
// side of `<v> := regexp.MustCompile(<string literal>)`, a statement of func
// Start.
//
// addr_guards: three source texts, in source order: the condition of the `if`
// whose block holds that assignment, the condition of the `if` inside that
// block, and the `for` statement that is the whole body of the inner `if`
// (header and body on one line). The outer block must consist of the
// MustCompile assignment, assignments from <v>.FindStringSubmatch, and the
// inner `if`; neither `if` may have an `else`.
//
// addr_uses: every statement of the package that mentions the variable <v> or
// anything of package regexp, as "<function>: <statement>", and the statements
// of Start that assign a variable passed to <v>.FindStringSubmatch, all in
// source order.
//
// Model/AddrRe.v (submatch, ip_ok_str) was written against these;
// Properties/C06A.v pins them (addr_pattern_pinned). Anything not of the
// expected form is a translator error.

import (
	"bytes"
	"fmt"
	"go/ast"
	"go/printer"
	"go/token"
	"sort"
	"strconv"
	"strings"
)

func init() {
	generators["AddrRe"] = genAddrRe
}

// stmtLine renders a statement on one line: the statements of a block are
// separated by "; ".
func stmtLine(fset *token.FileSet, n ast.Node) string {
	var b bytes.Buffer
	printer.Fprint(&b, fset, n)
	var out strings.Builder
	prev := ""
	for _, line := range strings.Split(b.String(), "\n") {
		line = oneLine(line)
		if line == "" {
			continue
		}
		switch {
		case prev == "":
		case strings.HasSuffix(prev, "{") || strings.HasPrefix(line, "}") || strings.HasSuffix(prev, ",") || strings.HasSuffix(prev, "("):
			out.WriteString(" ")
		case strings.HasPrefix(line, "case ") || strings.HasPrefix(line, "default:") || strings.HasSuffix(prev, ":"):
			out.WriteString(" ")
		default:
			out.WriteString("; ")
		}
		out.WriteString(line)
		prev = line
	}
	return out.String()
}

// regexpName: the name under which the file imports package regexp ("" when
// it does not).
func regexpName(f *ast.File) (string, error) {
	for _, im := range f.Imports {
		path, err := strconv.Unquote(im.Path.Value)
		if err != nil || path != "regexp" {
			continue
		}
		if im.Name == nil {
			return "regexp", nil
		}
		if im.Name.Name == "." || im.Name.Name == "_" {
			return "", fmt.Errorf("package regexp imported as %q", im.Name.Name)
		}
		return im.Name.Name, nil
	}
	return "", nil
}

type addrUse struct {
	pos  token.Pos
	text string
}

func genAddrRe(p *pkg) (string, error) {
	var names []string
	for name := range p.files {
		names = append(names, name)
	}
	sort.Strings(names)
	if p.files["session.go"] == nil {
		return "", fmt.Errorf("session.go not found")
	}
	isRegexpSel := func(n ast.Node, rx string) (string, bool) {
		sel, ok := n.(*ast.SelectorExpr)
		if !ok || rx == "" {
			return "", false
		}
		id, ok := sel.X.(*ast.Ident)
		if !ok || id.Name != rx {
			return "", false
		}
		return sel.Sel.Name, true
	}

	// 1. the MustCompile call
	type found struct {
		file  string
		fd    *ast.FuncDecl
		call  *ast.CallExpr
		fname string
	}
	var compiles []found
	for _, name := range names {
		rx, err := regexpName(p.files[name])
		if err != nil {
			return "", fmt.Errorf("%s: %v", name, err)
		}
		for _, d := range p.files[name].Decls {
			fname := "(package level)"
			var fdecl *ast.FuncDecl
			if fd, ok := d.(*ast.FuncDecl); ok {
				fdecl = fd
				fname = fd.Name.Name
				if r := recvName(fd); r != "" {
					fname = r + "." + fname
				}
			}
			ast.Inspect(d, func(n ast.Node) bool {
				if c, ok := n.(*ast.CallExpr); ok {
					if m, ok := isRegexpSel(c.Fun, rx); ok && m == "MustCompile" {
						compiles = append(compiles, found{name, fdecl, c, fname})
					}
				}
				return true
			})
		}
	}
	if len(compiles) != 1 {
		return "", fmt.Errorf("expected exactly one regexp.MustCompile call in the package, found %d", len(compiles))
	}
	mc := compiles[0]
	if mc.fd == nil || mc.fname != "Start" || mc.file != "session.go" {
		return "", fmt.Errorf("regexp.MustCompile is called in %s (%s), not in func Start of session.go", mc.fname, mc.file)
	}
	if len(mc.call.Args) != 1 {
		return "", fmt.Errorf("regexp.MustCompile with %d arguments", len(mc.call.Args))
	}
	lit, ok := mc.call.Args[0].(*ast.BasicLit)
	if !ok || lit.Kind != token.STRING {
		return "", fmt.Errorf("the argument of regexp.MustCompile is not a string literal: %s", stmtLine(p.fset, mc.call.Args[0]))
	}
	pattern, err := strconv.Unquote(lit.Value)
	if err != nil {
		return "", fmt.Errorf("cannot unquote the pattern literal %s: %v", lit.Value, err)
	}

	// 2. the statement it is in, and the blocks around it
	var outerIf *ast.IfStmt
	var assign *ast.AssignStmt
	ast.Inspect(mc.fd.Body, func(n ast.Node) bool {
		ifs, ok := n.(*ast.IfStmt)
		if !ok {
			return true
		}
		for _, st := range ifs.Body.List {
			if as, ok := st.(*ast.AssignStmt); ok && len(as.Rhs) == 1 && as.Rhs[0] == ast.Expr(mc.call) {
				outerIf, assign = ifs, as
			}
		}
		return true
	})
	if outerIf == nil {
		return "", fmt.Errorf("regexp.MustCompile(...) is not the right-hand side of an assignment directly in the block of an if statement")
	}
	if len(assign.Lhs) != 1 || assign.Tok != token.DEFINE {
		return "", fmt.Errorf("unexpected form of the MustCompile assignment: %s", stmtLine(p.fset, assign))
	}
	vid, ok := assign.Lhs[0].(*ast.Ident)
	if !ok || vid.Name == "_" {
		return "", fmt.Errorf("unexpected form of the MustCompile assignment: %s", stmtLine(p.fset, assign))
	}
	v := vid.Name
	if outerIf.Init != nil || outerIf.Else != nil {
		return "", fmt.Errorf("the if around the MustCompile assignment has an init statement or an else branch: %s", stmtLine(p.fset, outerIf))
	}
	var innerIf *ast.IfStmt
	var argVars []string
	for _, st := range outerIf.Body.List {
		if st == ast.Stmt(assign) {
			continue
		}
		switch x := st.(type) {
		case *ast.IfStmt:
			if innerIf != nil {
				return "", fmt.Errorf("more than one if statement in the block of the MustCompile assignment")
			}
			if st.Pos() < assign.Pos() {
				return "", fmt.Errorf("an if statement precedes the MustCompile assignment in its block")
			}
			innerIf = x
		case *ast.AssignStmt:
			// <name> := <v>.FindStringSubmatch(<arg>)
			okForm := false
			if len(x.Lhs) == 1 && len(x.Rhs) == 1 && x.Tok == token.DEFINE && innerIf == nil {
				if c, ok := x.Rhs[0].(*ast.CallExpr); ok && len(c.Args) == 1 {
					if sel, ok := c.Fun.(*ast.SelectorExpr); ok && sel.Sel.Name == "FindStringSubmatch" {
						if id, ok := sel.X.(*ast.Ident); ok && id.Name == v {
							okForm = true
							if a, ok := c.Args[0].(*ast.Ident); ok {
								argVars = append(argVars, a.Name)
							}
						}
					}
				}
			}
			if !okForm {
				return "", fmt.Errorf("unexpected statement in the block of the MustCompile assignment: %s", stmtLine(p.fset, st))
			}
		default:
			return "", fmt.Errorf("unexpected statement in the block of the MustCompile assignment: %s", stmtLine(p.fset, st))
		}
	}
	if innerIf == nil {
		return "", fmt.Errorf("no if statement in the block of the MustCompile assignment")
	}
	if innerIf.Init != nil || innerIf.Else != nil {
		return "", fmt.Errorf("the inner if has an init statement or an else branch: %s", stmtLine(p.fset, innerIf))
	}
	if len(innerIf.Body.List) != 1 {
		return "", fmt.Errorf("the body of the inner if is not a single for statement: %s", stmtLine(p.fset, innerIf))
	}
	loop, ok := innerIf.Body.List[0].(*ast.ForStmt)
	if !ok {
		return "", fmt.Errorf("the body of the inner if is not a single for statement: %s", stmtLine(p.fset, innerIf))
	}
	// The two guards and the loop are printed as source text only when the
	// generator PureFnIP did not translate these very nodes (then the text pin
	// keeps guarding them); when it did, their meaning is the subject of
	// Properties/C06P.v (C06P_ip_block) and the table names the translation.
	guardText := func(n ast.Node) string {
		if ph, ok := pfPlaceholder(p, n); ok {
			return ph
		}
		return stmtLine(p.fset, n)
	}
	guards := []string{guardText(outerIf.Cond), guardText(innerIf.Cond), guardText(loop)}

	// 3. every statement that mentions the variable or package regexp
	var uses []addrUse
	seen := map[token.Pos]bool{}
	add := func(fname string, st ast.Node) {
		if seen[st.Pos()] {
			return
		}
		seen[st.Pos()] = true
		uses = append(uses, addrUse{st.Pos(), fname + ": " + stmtLine(p.fset, st)})
	}
	for _, name := range names {
		rx, _ := regexpName(p.files[name])
		for _, d := range p.files[name].Decls {
			fd, isFn := d.(*ast.FuncDecl)
			if !isFn || fd.Body == nil {
				hit := false
				ast.Inspect(d, func(n ast.Node) bool {
					if _, ok := isRegexpSel(n, rx); ok {
						hit = true
					}
					return true
				})
				if hit {
					add("(package level)", d)
				}
				continue
			}
			fname := fd.Name.Name
			if r := recvName(fd); r != "" {
				fname = r + "." + fname
			}
			// the function's signature
			sigHit := false
			ast.Inspect(fd.Type, func(n ast.Node) bool {
				if _, ok := isRegexpSel(n, rx); ok {
					sigHit = true
				}
				return true
			})
			if sigHit {
				uses = append(uses, addrUse{fd.Pos(), fname + ": func " + fd.Name.Name + stmtLine(p.fset, fd.Type)[len("func"):]})
			}
			// innermost statement (not a block) around every mention
			var stack []ast.Node
			ast.Inspect(fd.Body, func(n ast.Node) bool {
				if n == nil {
					stack = stack[:len(stack)-1]
					return true
				}
				stack = append(stack, n)
				hit := false
				if _, ok := isRegexpSel(n, rx); ok {
					hit = true
				}
				if id, ok := n.(*ast.Ident); ok && id.Name == v {
					// not the field name of a selector
					hit = true
					if len(stack) >= 2 {
						if sel, ok := stack[len(stack)-2].(*ast.SelectorExpr); ok && sel.Sel == id {
							hit = false
						}
					}
				}
				if hit {
					for i := len(stack) - 1; i >= 0; i-- {
						st, ok := stack[i].(ast.Stmt)
						if !ok {
							continue
						}
						if _, isBlock := st.(*ast.BlockStmt); isBlock {
							continue
						}
						add(fname, st)
						break
					}
				}
				return true
			})
		}
	}
	// where the variables passed to FindStringSubmatch come from
	for _, av := range argVars {
		ast.Inspect(mc.fd.Body, func(n ast.Node) bool {
			if st, ok := n.(ast.Stmt); ok && definesVar(st, av) {
				add("Start", st)
			}
			return true
		})
	}
	sort.SliceStable(uses, func(i, j int) bool { return uses[i].pos < uses[j].pos })
	useTexts := make([]string, len(uses))
	for i, u := range uses {
		useTexts[i] = u.text
	}
	for _, s := range append(append([]string{pattern}, guards...), useTexts...) {
		if strings.ContainsAny(s, "\x00") {
			return "", fmt.Errorf("NUL byte in an extracted text")
		}
	}

	var b strings.Builder
	b.WriteString("(* Generated from /repo/*.go by /verif/translator (addr_re.go). Do not edit. *)\n")
	b.WriteString("From Coq Require Import List String.\nImport ListNotations.\nLocal Open Scope string_scope.\n\n")
	b.WriteString("(* the string literal passed to the package's one regexp.MustCompile call (func Start) *)\n")
	b.WriteString("Definition addr_pattern : string := " + coqString(pattern) + ".\n\n")
	b.WriteString("(* the if around the pattern's use, the if inside it, the loop that is its body *)\n")
	b.WriteString("Definition addr_guards : list string := [\n  " + strings.Join(addrCoqStrings(guards), ";\n  ") + "].\n\n")
	b.WriteString("(* every statement mentioning the compiled pattern or package regexp; where the matched variables come from *)\n")
	b.WriteString("Definition addr_uses : list string := [\n  " + strings.Join(addrCoqStrings(useTexts), ";\n  ") + "].\n")
	return b.String(), nil
}

func addrCoqStrings(l []string) []string {
	q := make([]string, len(l))
	for i, s := range l {
		q[i] = coqString(s)
	}
	return q
}
