"""Shared machinery of the /verif checks: building the Coq development and the
Go harness from /repo's current working tree, evaluating the model on observed
cases, writing evidence, replays and VIOLATION lines. See DESIGN.md §2.7, §3."""
import contextlib
import fcntl
import glob
import hashlib
import json
import os
import re
import subprocess
import sys
import time

ROOT = os.path.dirname(os.path.abspath(__file__))
REPO = os.environ.get("VERIF_REPO", "/repo")
BUILD = os.path.join(ROOT, "build")
COQ = os.path.join(ROOT, "coq")
GO = "go1.26.8"

GOENV = dict(os.environ, GOFLAGS="-mod=mod", GOPROXY="off", GOSUMDB="off", GOTOOLCHAIN="local",
             CGO_ENABLED=os.environ.get("CGO_ENABLED", "0"))

TRUSTED_BASE_COMMON = [
    "Coq 8.16.1 kernel and vm_compute (no native_compute); full .vo build by coq_makefile/make",
    "hand-written Gallina model, tied to the Go code by differential execution on generated cases (testing, not proof)",
    "the /verif/translator (Go AST -> coq/Gen/*.v), syntax extraction only",
    "the Go harness (/verif/harness), go1.26.8 runtime and testing/synctest virtual clock",
]


class Machinery(Exception):
    """The checking machinery itself failed (not a verdict about /repo)."""


def log(*a):
    print(*a, file=sys.stderr, flush=True)


def sh(cmd, cwd=None, env=None, timeout=None, check=False, input=None):
    p = subprocess.run(cmd, cwd=cwd, env=env, timeout=timeout, input=input,
                       stdout=subprocess.PIPE, stderr=subprocess.STDOUT, text=True)
    if check and p.returncode != 0:
        raise Machinery("command failed (%d): %s\n%s" % (p.returncode, " ".join(cmd), p.stdout[-4000:]))
    return p.returncode, p.stdout


@contextlib.contextmanager
def lock(name):
    os.makedirs(os.path.join(BUILD, "locks"), exist_ok=True)
    f = open(os.path.join(BUILD, "locks", name), "w")
    try:
        fcntl.flock(f, fcntl.LOCK_EX)
        yield
    finally:
        fcntl.flock(f, fcntl.LOCK_UN)
        f.close()


def file_hash(paths):
    h = hashlib.sha256()
    for p in sorted(paths):
        h.update(p.encode())
        h.update(b"\0")
        try:
            with open(p, "rb") as f:
                h.update(f.read())
        except OSError:
            h.update(b"<missing>")
        h.update(b"\0")
    return h.hexdigest()[:16]


def repo_sources():
    return sorted(glob.glob(os.path.join(REPO, "*.go")) + [os.path.join(REPO, "go.mod")])


def repo_hash():
    return file_hash(repo_sources())


# ---------------------------------------------------------------- translator

def build_translator():
    src = sorted(glob.glob(os.path.join(ROOT, "translator", "*.go")) + [os.path.join(ROOT, "translator", "go.mod")])
    key = file_hash(src)
    out = os.path.join(BUILD, "translator-" + key)
    with lock("translator"):
        if not os.path.exists(out):
            os.makedirs(BUILD, exist_ok=True)
            sh([GO, "build", "-o", out, "."], cwd=os.path.join(ROOT, "translator"), env=GOENV, check=True)
    return out


def gen_tables():
    """Regenerate coq/Gen/*.v from /repo as it is now. Returns (ok, log)."""
    tr = build_translator()
    os.makedirs(os.path.join(COQ, "Gen"), exist_ok=True)
    rc, out = sh([tr, REPO, os.path.join(COQ, "Gen")])
    if rc == 2:
        return False, out
    return rc == 0, out


# ----------------------------------------------------------------------- Coq

def coq_files():
    fs = []
    for d in ("Gen", "Model", "Proofs", "Properties"):
        fs += sorted(glob.glob(os.path.join(COQ, d, "*.v")))
    return [os.path.relpath(f, COQ) for f in fs]


def coq_makefile():
    files = coq_files()
    proj = "-Q . Sessions\n-arg -w -arg -notation-overridden,-deprecated-hint-without-locality,-deprecated-instance-without-locality\n" + "\n".join(files) + "\n"
    pj = os.path.join(COQ, "_CoqProject")
    old = open(pj).read() if os.path.exists(pj) else ""
    if old != proj or not os.path.exists(os.path.join(COQ, "Makefile")):
        with open(pj, "w") as f:
            f.write(proj)
        sh(["coq_makefile", "-f", "_CoqProject", "-o", "Makefile"], cwd=COQ, check=True)


def coq_build(targets=None, timeout=3000):
    """Regenerate Gen/ and make the given .vo targets (all if None).
    Returns (ok, log, gen_ok)."""
    with lock("coq"):
        gen_ok, gen_log = gen_tables()
        coq_makefile()
        cmd = ["make", "-j16", "-k"]
        if targets:
            cmd += [t if t.endswith(".vo") else t + ".vo" for t in targets]
        try:
            rc, out = sh(["timeout", str(timeout)] + cmd, cwd=COQ)
        except subprocess.TimeoutExpired:
            return False, "make timed out", gen_ok
        if rc != 0:
            # a failed compilation leaves the previous .vo in place; nothing may
            # be evaluated against it
            for rel in coq_files():
                v, vo = os.path.join(COQ, rel), os.path.join(COQ, rel[:-2] + ".vo")
                if os.path.exists(vo) and os.path.getmtime(v) > os.path.getmtime(vo):
                    with contextlib.suppress(OSError):
                        os.remove(vo)
        return rc == 0, gen_log + out, gen_ok


def coq_run(name, text, timeout=1200):
    """Compile a scratch file under build/cases against the development and
    return (rc, stdout)."""
    d = os.path.join(BUILD, "cases")
    os.makedirs(d, exist_ok=True)
    path = os.path.join(d, name + ".v")
    with open(path, "w") as f:
        f.write(text)
    try:
        rc, out = sh(["timeout", str(timeout), "coqc", "-Q", COQ, "Sessions", "-w", "-all", path], cwd=d)
    except subprocess.TimeoutExpired:
        return 124, "coqc timed out"
    for ext in (".vo", ".vok", ".vos", ".glob"):
        with contextlib.suppress(OSError):
            os.remove(os.path.join(d, name + ext))
    with contextlib.suppress(OSError):
        os.remove(os.path.join(d, "." + name + ".aux"))
    return rc, out


def coq_run_many(jobs, workers=16, timeout=1200):
    """jobs: list of (name, text). Runs them in parallel; returns list of (rc, out)."""
    from concurrent.futures import ThreadPoolExecutor
    with ThreadPoolExecutor(max_workers=workers) as ex:
        return list(ex.map(lambda j: coq_run(j[0], j[1], timeout), jobs))


def parse_printed_list(out, name):
    """Parse the output of `Print name.` where name : list N (or nat)."""
    m = re.search(r"\b%s\s*=\s*(.*?)\s*:\s*list" % re.escape(name), out, re.S)
    if not m:
        return None
    body = m.group(1).replace("\n", " ").strip()
    if body.startswith("(") and body.endswith(")%N"):
        body = body[1:-3]
    body = body.strip()
    if body in ("[]", "nil"):
        return []
    if not (body.startswith("[") and body.endswith("]")):
        return None
    items = [x.strip() for x in body[1:-1].split(";")]
    res = []
    for x in items:
        x = x.replace("%N", "").replace("%nat", "").replace("%Z", "").strip("() ")
        if not re.fullmatch(r"-?\d+", x):
            return None
        res.append(int(x))
    return res


def print_assumptions(module, theorems):
    """Returns {theorem: text}; text == 'Closed under the global context' when
    no axiom is used."""
    text = "From Sessions Require Import %s.\n" % module
    for t in theorems:
        text += 'Goal True. idtac "@@%s". Abort.\nPrint Assumptions %s.\n' % (t, t)
    rc, out = coq_run("assume_" + module.replace(".", "_"), text)
    res = {}
    if rc != 0:
        return None, out
    parts = re.split(r"@@(\S+)\n", out)
    for i in range(1, len(parts), 2):
        res[parts[i]] = parts[i + 1].strip()
    return res, out


FORBIDDEN = re.compile(r"\b(Admitted|admit|Axiom|Axioms|Parameter|Parameters|Conjecture|Conjectures|Hypothesis|Hypotheses|Variable|Variables|Unset\s+Guard\s+Checking|Unset\s+Positivity\s+Checking|Unset\s+Universe\s+Checking|bypass_check|Admit\s+Obligations|native_compute)\b")


def coq_closure(rel):
    """The files a Coq file depends on (transitively), by its Require lines."""
    seen, todo = [], [rel]
    while todo:
        f = todo.pop()
        if f in seen or not os.path.exists(os.path.join(COQ, f)):
            continue
        seen.append(f)
        text = open(os.path.join(COQ, f)).read()
        text = re.sub(r"\(\*.*?\*\)", "", text, flags=re.S)
        for m in re.finditer(r"From\s+Sessions\s+Require\s+(?:Import|Export)?\s*(.*?)\.\s", text, flags=re.S):
            for mod in m.group(1).split():
                todo.append(mod.replace(".", "/") + ".v")
        for m in re.finditer(r"(?<!From Sessions )Require\s+(?:Import|Export)?\s+((?:Sessions\.[\w.]+\s*)+?)\.\s", text, flags=re.S):
            for mod in m.group(1).split():
                todo.append(mod[len("Sessions."):].replace(".", "/") + ".v")
    return sorted(seen)


def forbidden_scan(files=None):
    """Textual scan of the hand-written development for declarations that
    would add to the trusted base. Variable(s)/Hypothesis inside a Section are
    allowed; everything else in the list is not."""
    bad = []
    for rel in (files if files is not None else coq_files()):
        text = open(os.path.join(COQ, rel)).read()
        text = re.sub(r"\(\*.*?\*\)", lambda m: " " * len(m.group(0)), text, flags=re.S)
        depth = 0
        for ln, line in enumerate(text.split("\n"), 1):
            if re.match(r"\s*Section\b", line):
                depth += 1
            if re.match(r"\s*End\b", line) and depth > 0:
                depth -= 1
            for m in FORBIDDEN.finditer(line):
                w = m.group(1)
                if w in ("Variable", "Variables", "Hypothesis", "Hypotheses") and depth > 0:
                    continue
                bad.append("%s:%d: %s" % (rel, ln, w))
    return bad


# ------------------------------------------------------------------- harness

def build_harness(race=False):
    """Build the harness test binary against /repo's current tree. Returns
    (path or None, log)."""
    src = sorted(glob.glob(os.path.join(ROOT, "harness", "*.go")) + [os.path.join(ROOT, "harness", "go.mod")])
    key = file_hash(src + repo_sources()) + ("-race" if race else "")
    out = os.path.join(BUILD, "harness-" + key + ".test")
    with lock("harness" + ("-race" if race else "")):
        if os.path.exists(out):
            return out, ""
        if os.path.exists(out + ".failed"):
            return None, open(out + ".failed").read()
        os.makedirs(BUILD, exist_ok=True)
        for old in glob.glob(os.path.join(BUILD, "harness-*" + ("-race" if race else "") + ".test*")):
            if race == old.endswith("-race.test") or old.endswith(".failed"):
                if time.time() - os.path.getmtime(old) > 6 * 3600:
                    with contextlib.suppress(OSError):
                        os.remove(old)
        env = dict(GOENV)
        cmd = [GO, "test", "-c", "-tags", "verif", "-o", out]
        if os.path.abspath(REPO) != "/repo":
            # scratch copy of the repository (used when testing the checks
            # against seeded changes): same go.mod with the replace redirected
            alt = os.path.join(BUILD, "harness-alt.mod")
            with open(alt, "w") as f:
                f.write(open(os.path.join(ROOT, "harness", "go.mod")).read().replace("=> /repo", "=> " + os.path.abspath(REPO)))
            cmd += ["-modfile", alt]
        if race:
            env["CGO_ENABLED"] = "1"
            cmd.append("-race")
        rc, log_ = sh(cmd + ["."], cwd=os.path.join(ROOT, "harness"), env=env)
        if rc != 0:
            with open(out + ".failed", "w") as f:
                f.write(log_)
            return None, log_
        return out, log_


def run_harness(binary, family, out_path, seed=0, n=100, args="", timeout=1200, extra_env=None, test_timeout="60m"):
    env = dict(os.environ, VERIF_FAMILY=family, VERIF_OUT=out_path, VERIF_SEED=str(seed), VERIF_N=str(n), VERIF_ARGS=args)
    if extra_env:
        env.update(extra_env)
    try:
        rc, out = sh([binary, "-test.run", "^TestFamily$", "-test.timeout", test_timeout], env=env, timeout=timeout)
    except subprocess.TimeoutExpired:
        return 124, "harness timed out"
    return rc, out


def read_jsonl(path):
    recs = []
    with open(path) as f:
        for line in f:
            line = line.strip()
            if line:
                recs.append(json.loads(line))
    return recs


# ------------------------------------------------------------ result objects

class Check:
    """Bookkeeping for one run of one property's check."""

    def __init__(self, prop, tier, seed):
        self.prop, self.tier, self.seed = prop, tier, seed
        self.t0 = time.time()
        self.obligations = []      # (name, discharged: bool)
        self.coverage = {}
        self.assumptions = []
        self.violations = []       # (replay_path, no_input: bool)
        self.known = []
        self.findings = load_known_findings(prop)

    def oblige(self, name, ok):
        self.obligations.append((name, bool(ok)))

    def violation(self, replay, no_input=False, signature=None, what=""):
        """Record a violation. replay: dict written to replays/. If signature
        matches a known finding, it is reported as KNOWN-FINDING instead."""
        if signature:
            for f in self.findings:
                if f.get("kind") == "known" and f.get("signature") == signature:
                    line = "KNOWN-FINDING: property=%s %s" % (self.prop, f.get("what", what))
                    if line not in self.known:
                        self.known.append(line)
                        print(line, flush=True)
                    return
        os.makedirs(os.path.join(ROOT, "replays"), exist_ok=True)
        blob = json.dumps(replay, indent=1, sort_keys=True, default=str)
        name = "%s-%s.json" % (self.prop, hashlib.sha256(blob.encode()).hexdigest()[:12])
        path = os.path.join(ROOT, "replays", name)
        with open(path, "w") as f:
            f.write(blob)
        self.violations.append((path, no_input))
        print("VIOLATION property=%s replay=%s%s" % (self.prop, path, " no-failing-input-found" if no_input else ""), flush=True)

    def finish(self, level="proof", checker_cmd="", trusted_base=None, extra_assumptions=None):
        obligations = len(self.obligations)
        discharged = sum(1 for _, ok in self.obligations if ok)
        cov = dict(self.coverage)
        cov.setdefault("obligations", obligations)
        cov.setdefault("discharged", discharged)
        cov["obligation_list"] = [{"name": n, "discharged": ok} for n, ok in self.obligations]
        cov.setdefault("checker_cmd", checker_cmd or "coq_makefile -f _CoqProject -o Makefile && make -j16 (coqc 8.16.1), then coqc on generated cases files")
        cov.setdefault("trusted_base", (trusted_base or []) + TRUSTED_BASE_COMMON)
        cov.setdefault("samples", [])
        cov["known_findings_reported"] = self.known
        ev = {
            "property_id": self.prop, "tier": self.tier, "seed": self.seed, "level": level,
            "coverage": cov, "assumptions": (extra_assumptions or []) + self.assumptions,
            "wall_s": round(time.time() - self.t0, 2), "violations": len(self.violations),
            "repo_hash": repo_hash(),
        }
        os.makedirs(os.path.join(ROOT, "evidence"), exist_ok=True)
        with open(os.path.join(ROOT, "evidence", self.prop + ".json"), "w") as f:
            json.dump(ev, f, indent=1, default=str)
        return 1 if self.violations else 0


def load_known_findings(prop=None):
    p = os.path.join(ROOT, "known_findings.json")
    if not os.path.exists(p):
        return []
    fs = json.load(open(p)).get("findings", [])
    return [f for f in fs if prop is None or f.get("property") == prop]


def standard_proof_stage(chk, prop_module, theorems, extra_targets=None):
    """Regenerate Gen/, build Properties/<prop>.vo, record one obligation per
    theorem, check Print Assumptions and the forbidden-word scan. Returns
    (ok, log)."""
    targets = ["Properties/" + prop_module] + (extra_targets or [])
    ok, out, gen_ok = coq_build(targets)
    chk.coverage["gen_tables_ok"] = gen_ok
    chk.coverage["coq_build_log_tail"] = out[-1500:] if not ok else ""
    closure = coq_closure("Properties/%s.v" % prop_module)
    # several statement files of one property: the coverage keys accumulate
    chk.coverage["coq_files_in_closure"] = sorted(set(chk.coverage.get("coq_files_in_closure") or []) | set(closure))
    bad = forbidden_scan(closure)
    chk.coverage["forbidden_scan"] = sorted(set(chk.coverage.get("forbidden_scan") or []) | set(bad)) if isinstance(bad, list) else bad
    chk.oblige("no Admitted/Axiom/Parameter/... in the development", not bad)
    if not ok:
        for t in theorems:
            chk.oblige(t, False)
        return False, out
    res, raw = print_assumptions("Properties." + prop_module, theorems)
    if res is None:
        for t in theorems:
            chk.oblige(t, False)
        return False, raw
    chk.coverage["assumptions_printed"] = dict(chk.coverage.get("assumptions_printed") or {}, **res)
    allok = True
    for t in theorems:
        closed = res.get(t, "") == "Closed under the global context"
        chk.oblige(t, closed)
        allok = allok and closed
    return allok and not bad, out


def coqchk(prop_module, timeout=3000):
    """Re-check the compiled closure of Properties/<module> with coqchk and
    report the axioms it depends on. Cached by the hash of the closure's
    sources. Returns (ok, summary)."""
    closure = coq_closure("Properties/%s.v" % prop_module)
    key = file_hash([os.path.join(COQ, f) for f in closure])
    d = os.path.join(BUILD, "coqchk")
    os.makedirs(d, exist_ok=True)
    path = os.path.join(d, "%s-%s.txt" % (prop_module, key))
    if os.path.exists(path):
        out = open(path).read()
    else:
        with lock("coq"):
            try:
                rc, out = sh(["timeout", str(timeout), "coqchk", "-silent", "-o", "-Q", ".", "Sessions", "Sessions.Properties." + prop_module], cwd=COQ)
            except subprocess.TimeoutExpired:
                return False, "coqchk timed out"
        out = "rc=%d\n%s" % (rc, out)
        with open(path, "w") as f:
            f.write(out)
    ok = out.startswith("rc=0") and "* Axioms: <none>" in out
    return ok, out[-900:]
